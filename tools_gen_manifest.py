#!/usr/bin/env python3
"""regenerate MANIFEST.json from rules/*.py (claimed) and NOT_APPLICABLE below"""
import importlib, json, os, sys
V = os.path.dirname(os.path.abspath(__file__))
sys.path.insert(0, os.path.join(V, "lib")); sys.path.insert(0, os.path.join(V, "rules"))

NOT_APPLICABLE = {
    "C01": "whole-program semantics of all well-typed programs against a prose semantics: needs execution against an independent oracle; its structural fragments are decided under C02, C03, C08, C10, C11",
    "C12": "laws over all pairs/triples of types through six mutually recursive relations (~150 match arms): evaluation over the type universe or a solver proof, not a shape of the code",
    "C17": "arithmetic results (offset % align, size = len*stride, no overlap) for all types: value-level; a shape match on the arithmetic would fire on behaviour-preserving rewrites",
    "C19": "agreement with the external System V calling convention for all signatures: needs cross-language execution or a formal ABI model",
    "C20": "relation between runs on permuted inputs (history property of the worklist); no local shape is necessary for it",
}
PENDING = {}  # filled below: claimed in DESIGN but rules not yet built/triaged

def main():
    props = [json.loads(l) for l in open(os.path.join(V, "properties.jsonl"))]
    checks, na = [], []
    for p in props:
        pid = p["id"]
        modp = os.path.join(V, "rules", pid.lower() + ".py")
        mod = None
        if os.path.exists(modp):
            mod = importlib.import_module(pid.lower())
        if mod is not None and getattr(mod, "READY", True):
            checks.append({
                "property_id": pid,
                "quick_cmd": "./check %s --tier quick" % pid,
                "thorough_cmd": "./check %s --tier thorough" % pid,
                "evidence_file": "evidence/%s.json" % pid,
                "replay_cmd_template": "./check %s --replay {path}" % pid,
                "engine": "+".join({"syn": "capy-lint(syn)", "facts": "capy-facts(rustc MIR)"}[n] for n in mod.NEEDS),
                "level_claimed": {"category": "other", "text": mod.EXPLANATION, "design_ref": "DESIGN.md §3 " + pid},
                "level_note": "Static analysis only; decides the clauses named, not the behaviour as a whole. Not decided: "
                              + "; ".join(getattr(mod, "NOT_DECIDED", [])) + ". Assumes: " + "; ".join(getattr(mod, "ASSUMPTIONS", [])),
                "technique": getattr(mod, "TECHNIQUE", "static analysis: custom rules over syntax tree / MIR"),
            })
        elif pid in NOT_APPLICABLE:
            na.append({"property_id": pid, "reason": NOT_APPLICABLE[pid]})
        else:
            na.append({"property_id": pid, "reason": "static rules designed (DESIGN.md §3) but not yet built and validated both ways; not claimed until they are"})
    man = {
        "version": 1,
        "setup_cmd": "./setup.sh",
        "hooks": {
            "guard": "capy_language_capy_verif",
            "enable": "none needed: static analysis reads the source; no instrumentation is compiled into /repo",
            "baseline_off_cmd": "cd /repo && cargo test --workspace --no-fail-fast --offline",
            "source_commits": [],
            "add_only": True,
        },
        "engines": [
            {"name": "capy-facts", "path": "engines/capy-facts", "kind_free_text": "rustc_private driver (nightly): dumps type-checked MIR (resolved callees, CFG, dominators, def tables, macro backtraces, ADT facts) as JSON; rules in rules/*.py",
             "serves_properties": [c["property_id"] for c in checks if "facts" in c["engine"]]},
            {"name": "capy-lint", "path": "engines/capy-syn", "kind_free_text": "syn-based syntax dump + python rule library (match tables, decision-tree extraction by abstract evaluation, structured-CFG walks)",
             "serves_properties": [c["property_id"] for c in checks if "syn" in c["engine"]]},
        ],
        "checks": checks,
        "not_applicable": na,
        "notes": "All checks are static: nothing of /repo is executed. Each check re-derives its facts from /repo's current working tree (content-hash keyed). Known findings: known_findings.json.",
    }
    json.dump(man, open(os.path.join(V, "MANIFEST.json"), "w"), indent=1)
    print("claimed:", [c["property_id"] for c in checks])
    print("n/a:", [n["property_id"] for n in na])

main()

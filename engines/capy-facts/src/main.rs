//! capy-facts: a rustc_private driver that dumps the type-checked MIR of every local body of the
//! crate being compiled as JSON (one file per rustc invocation, one write per process).
//!
//! It contains no rule knowledge.  The rules (/verif/rules/*.py) consume:
//!   * resolved callees (Instance::try_resolve) for every Call terminator,
//!   * one-level def tables (assignments, call destinations) from which def-use chains are walked,
//!   * CFG successors + rustc's own immediate dominators,
//!   * macro backtraces of spans (todo!/unimplemented!/assert!...),
//!   * ADT facts (variants, discriminants, size) and local types (for hash-iteration facts).
//!
//! Invoked as RUSTC_WORKSPACE_WRAPPER: argv = [driver, real-rustc, args...].
#![feature(rustc_private)]

extern crate rustc_abi;
extern crate rustc_driver;
extern crate rustc_hir;
extern crate rustc_interface;
extern crate rustc_middle;
extern crate rustc_session;
extern crate rustc_span;

use rustc_driver::Compilation;
use rustc_hir::def::DefKind;
use rustc_hir::def_id::{DefId, LocalDefId};
use rustc_middle::mir::{
    self, AggregateKind, BasicBlock, Body, Const, ConstValue, Operand, Place, ProjectionElem,
    Rvalue, StatementKind, TerminatorKind,
};
use rustc_middle::ty::print::{with_no_trimmed_paths, with_no_visible_paths, with_resolve_crate_name};
use rustc_middle::ty::{self, Instance, Ty, TyCtxt, TypingEnv};
use rustc_span::Span;
use std::fmt::Write as _;

fn esc(s: &str) -> String {
    let mut o = String::with_capacity(s.len() + 2);
    o.push('"');
    for c in s.chars() {
        match c {
            '"' => o.push_str("\\\""),
            '\\' => o.push_str("\\\\"),
            '\n' => o.push_str("\\n"),
            '\r' => o.push_str("\\r"),
            '\t' => o.push_str("\\t"),
            c if (c as u32) < 0x20 => {
                let _ = write!(o, "\\u{:04x}", c as u32);
            }
            c => o.push(c),
        }
    }
    o.push('"');
    o
}

struct Cx<'tcx> {
    tcx: TyCtxt<'tcx>,
    root: String,
}

impl<'tcx> Cx<'tcx> {
    fn path(&self, d: DefId) -> String {
        with_no_visible_paths!(with_resolve_crate_name!(with_no_trimmed_paths!(self.tcx.def_path_str(d))))
    }
    fn tys(&self, t: Ty<'tcx>) -> String {
        with_no_visible_paths!(with_resolve_crate_name!(with_no_trimmed_paths!(t.to_string())))
    }

    /// (file, line, col, endline) of the span's start in user source (callsite for expansions)
    fn loc(&self, sp: Span) -> (String, usize, usize, usize) {
        let sp = sp.source_callsite();
        let sm = self.tcx.sess.source_map();
        let lo = sm.lookup_char_pos(sp.lo());
        let hi = sm.lookup_char_pos(sp.hi());
        let name = format!("{}", lo.file.name.prefer_local_unconditionally());
        let name = name.strip_prefix(&self.root).map(|s| s.trim_start_matches('/').to_string()).unwrap_or(name);
        (name, lo.line, lo.col.0, hi.line)
    }

    fn exp(&self, sp: Span) -> String {
        let mut names = vec![];
        for e in sp.macro_backtrace() {
            if let rustc_span::ExpnKind::Macro(_, name) = e.kind {
                names.push(esc(name.as_str()));
            } else if let rustc_span::ExpnKind::Desugaring(d) = e.kind {
                names.push(esc(&format!("desugar:{:?}", d)));
            }
        }
        format!("[{}]", names.join(","))
    }

    fn place(&self, body: &Body<'tcx>, p: &Place<'tcx>) -> String {
        let mut s = format!("[{}", p.local.as_usize());
        let mut ty = mir::PlaceTy::from_ty(body.local_decls[p.local].ty);
        for elem in p.projection.iter() {
            let piece = match elem {
                ProjectionElem::Deref => "*".to_string(),
                ProjectionElem::Field(f, _) => {
                    let name = match ty.ty.kind() {
                        ty::Adt(adt, _) => {
                            let v = match ty.variant_index {
                                Some(v) => adt.variant(v),
                                None => adt.non_enum_variant(),
                            };
                            v.fields[f].name.to_string()
                        }
                        _ => f.as_usize().to_string(),
                    };
                    format!(".{}", name)
                }
                ProjectionElem::Index(l) => format!("[_{}]", l.as_usize()),
                ProjectionElem::ConstantIndex { offset, .. } => format!("[{}]", offset),
                ProjectionElem::Subslice { .. } => "[..]".to_string(),
                ProjectionElem::Downcast(name, _) => {
                    format!("as:{}", name.map(|n| n.to_string()).unwrap_or_default())
                }
                _ => "?".to_string(),
            };
            s.push(',');
            s.push_str(&esc(&piece));
            ty = ty.projection_ty(self.tcx, elem);
        }
        s.push(']');
        s
    }

    fn konst(&self, c: &mir::ConstOperand<'tcx>) -> String {
        let ty = c.const_.ty();
        match ty.kind() {
            ty::FnDef(did, args) => {
                return format!(
                    "{{\"fn\":{},\"ga\":{}}}",
                    esc(&self.path(*did)),
                    esc(&with_no_visible_paths!(with_resolve_crate_name!(with_no_trimmed_paths!(format!("{:?}", args)))))
                );
            }
            _ => {}
        }
        match c.const_ {
            Const::Unevaluated(u, _) => {
                let mut s = format!("{{\"const\":{},\"ty\":{}", esc(&self.path(u.def)), esc(&self.tys(ty)));
                if u.promoted.is_some() {
                    s.push_str(",\"promoted\":true");
                }
                s.push('}');
                s
            }
            Const::Val(v, ty) => self.const_val(v, ty),
            Const::Ty(ty, ct) => {
                if let Some(v) = ct.try_to_leaf() {
                    format!("{{\"int\":\"{}\",\"ty\":{}}}", v.to_bits_unchecked(), esc(&self.tys(ty)))
                } else {
                    format!("{{\"other\":{}}}", esc(&format!("{:?}", ct)))
                }
            }
        }
    }

    fn const_val(&self, v: ConstValue, ty: Ty<'tcx>) -> String {
        match v {
            ConstValue::Scalar(mir::interpret::Scalar::Int(i)) => {
                let bits = i.to_bits_unchecked();
                if let ty::Adt(adt, _) = ty.kind() {
                    if adt.is_enum() {
                        for (vi, d) in adt.discriminants(self.tcx) {
                            if d.val == bits {
                                return format!(
                                    "{{\"enum\":{}}}",
                                    esc(&format!("{}::{}", self.path(adt.did()), adt.variant(vi).name))
                                );
                            }
                        }
                    }
                }
                let sval = match ty.kind() {
                    ty::Int(_) => {
                        let size = i.size();
                        format!("{}", size.sign_extend(bits) as i128)
                    }
                    ty::Bool => (if bits != 0 { "true" } else { "false" }).to_string(),
                    ty::Char => format!("{}", bits),
                    _ => format!("{}", bits),
                };
                format!("{{\"int\":\"{}\",\"ty\":{}}}", sval, esc(&self.tys(ty)))
            }
            ConstValue::ZeroSized => format!("{{\"zst\":{}}}", esc(&self.tys(ty))),
            ConstValue::Slice { .. } => {
                if let Some(b) = v.try_get_slice_bytes_for_diagnostics(self.tcx) {
                    format!("{{\"str\":{}}}", esc(&String::from_utf8_lossy(b)))
                } else {
                    "{\"other\":\"slice\"}".to_string()
                }
            }
            _ => format!("{{\"other\":{}}}", esc(&self.tys(ty))),
        }
    }

    fn operand(&self, body: &Body<'tcx>, o: &Operand<'tcx>) -> String {
        match o {
            Operand::Copy(p) => format!("{{\"c\":{}}}", self.place(body, p)),
            Operand::Move(p) => format!("{{\"m\":{}}}", self.place(body, p)),
            Operand::Constant(c) => format!("{{\"k\":{}}}", self.konst(c)),
            _ => "{\"k\":{\"other\":\"runtime-checks\"}}".to_string(),
        }
    }

    fn rvalue(&self, body: &Body<'tcx>, r: &Rvalue<'tcx>) -> String {
        match r {
            Rvalue::Use(o, _) => format!("{{\"k\":\"use\",\"o\":{}}}", self.operand(body, o)),
            Rvalue::Repeat(o, _) => format!("{{\"k\":\"repeat\",\"o\":{}}}", self.operand(body, o)),
            Rvalue::Ref(_, bk, p) => format!(
                "{{\"k\":\"ref\",\"mut\":{},\"p\":{}}}",
                matches!(bk, mir::BorrowKind::Mut { .. }),
                self.place(body, p)
            ),
            Rvalue::RawPtr(_, p) => format!("{{\"k\":\"rawptr\",\"p\":{}}}", self.place(body, p)),
            Rvalue::Cast(ck, o, t) => format!(
                "{{\"k\":\"cast\",\"ck\":{},\"o\":{},\"ty\":{}}}",
                esc(&format!("{:?}", ck)),
                self.operand(body, o),
                esc(&self.tys(*t))
            ),
            Rvalue::BinaryOp(op, ab) => format!(
                "{{\"k\":\"bin\",\"op\":{},\"a\":{},\"b\":{}}}",
                esc(&format!("{:?}", op)),
                self.operand(body, &ab.0),
                self.operand(body, &ab.1)
            ),
            Rvalue::UnaryOp(op, o) => format!(
                "{{\"k\":\"un\",\"op\":{},\"o\":{}}}",
                esc(&format!("{:?}", op)),
                self.operand(body, o)
            ),
            Rvalue::Discriminant(p) => format!("{{\"k\":\"discr\",\"p\":{}}}", self.place(body, p)),
            Rvalue::CopyForDeref(p) => {
                format!("{{\"k\":\"use\",\"o\":{{\"c\":{}}}}}", self.place(body, p))
            }
            Rvalue::Aggregate(kind, ops) => {
                let (ak, path, fields): (&str, String, Vec<String>) = match &**kind {
                    AggregateKind::Array(_) => ("array", String::new(), vec![]),
                    AggregateKind::Tuple => ("tuple", String::new(), vec![]),
                    AggregateKind::Adt(did, vi, _, _, _) => {
                        let adt = self.tcx.adt_def(*did);
                        let v = adt.variant(*vi);
                        let p = if adt.is_enum() {
                            format!("{}::{}", self.path(*did), v.name)
                        } else {
                            self.path(*did)
                        };
                        ("adt", p, v.fields.iter().map(|f| f.name.to_string()).collect())
                    }
                    AggregateKind::Closure(did, _) => ("closure", self.path(*did), vec![]),
                    AggregateKind::Coroutine(did, _) => ("coroutine", self.path(*did), vec![]),
                    AggregateKind::CoroutineClosure(did, _) => ("coroutine", self.path(*did), vec![]),
                    AggregateKind::RawPtr(..) => ("rawptr", String::new(), vec![]),
                };
                let os: Vec<String> = ops.iter().map(|o| self.operand(body, o)).collect();
                let fs: Vec<String> = fields.iter().map(|f| esc(f)).collect();
                format!(
                    "{{\"k\":\"agg\",\"ak\":\"{}\",\"path\":{},\"fields\":[{}],\"o\":[{}]}}",
                    ak,
                    esc(&path),
                    fs.join(","),
                    os.join(",")
                )
            }
            Rvalue::ThreadLocalRef(d) => format!("{{\"k\":\"tls\",\"path\":{}}}", esc(&self.path(*d))),
            _ => "{\"k\":\"other\"}".to_string(),
        }
    }

    fn body(&self, def: LocalDefId, out: &mut String) {
        let tcx = self.tcx;
        let did = def.to_def_id();
        let kind = tcx.def_kind(did);
        let kind_s = match kind {
            DefKind::Fn => "fn",
            DefKind::AssocFn => "fn",
            DefKind::Closure => "closure",
            DefKind::Const { .. } | DefKind::AssocConst { .. } => "const",
            DefKind::Static { .. } => "static",
            DefKind::AnonConst | DefKind::InlineConst => "anonconst",
            _ => "other",
        };
        if !matches!(kind, DefKind::Fn | DefKind::AssocFn | DefKind::Closure) {
            return;
        }
        let body: &Body<'tcx> = tcx.optimized_mir(did);
        let (file, lo, _c, hi) = self.loc(body.span);
        let _ = write!(
            out,
            "{{\"path\":{},\"kind\":\"{}\",\"file\":{},\"lo\":{},\"hi\":{}",
            esc(&self.path(did)),
            kind_s,
            esc(&file),
            lo,
            hi
        );
        if kind == DefKind::Closure {
            let parent = tcx.typeck_root_def_id(did);
            let _ = write!(out, ",\"parent\":{}", esc(&self.path(parent)));
        }
        if kind == DefKind::AssocFn {
            let ai = tcx.associated_item(did);
            if let Some(t) = ai.trait_item_def_id() {
                let _ = write!(out, ",\"trait_item\":{}", esc(&self.path(t)));
            }
            if let Some(imp) = tcx.impl_of_assoc(did) {
                let st = tcx.type_of(imp).instantiate_identity().skip_norm_wip();
                let _ = write!(out, ",\"self_ty\":{}", esc(&self.tys(st)));
            }
        }
        // locals
        let mut names: Vec<Option<String>> = vec![None; body.local_decls.len()];
        for vdi in &body.var_debug_info {
            if let mir::VarDebugInfoContents::Place(p) = &vdi.value {
                if p.projection.is_empty() {
                    names[p.local.as_usize()] = Some(vdi.name.to_string());
                }
            }
        }
        out.push_str(",\"locals\":[");
        for (i, (l, d)) in body.local_decls.iter_enumerated().enumerate() {
            if i > 0 {
                out.push(',');
            }
            let _ = write!(out, "{{\"ty\":{}", esc(&self.tys(d.ty)));
            if let Some(n) = &names[l.as_usize()] {
                let _ = write!(out, ",\"name\":{}", esc(n));
            }
            if l.as_usize() >= 1 && l.as_usize() <= body.arg_count {
                out.push_str(",\"arg\":true");
            }
            out.push('}');
        }
        out.push_str("],\"blocks\":[");
        let typing_env = TypingEnv::post_analysis(tcx, did);
        for (bi, (_bb, data)) in body.basic_blocks.iter_enumerated().enumerate() {
            if bi > 0 {
                out.push(',');
            }
            out.push_str("{\"s\":[");
            let mut first = true;
            for st in &data.statements {
                let (p, rv) = match &st.kind {
                    StatementKind::Assign(b) => (self.place(body, &b.0), self.rvalue(body, &b.1)),
                    StatementKind::SetDiscriminant { place, variant_index } => (
                        self.place(body, place),
                        format!("{{\"k\":\"setdiscr\",\"v\":{}}}", variant_index.as_usize()),
                    ),
                    _ => continue,
                };
                if !first {
                    out.push(',');
                }
                first = false;
                let (f, l, _c, _h) = self.loc(st.source_info.span);
                let _ = write!(out, "{{\"ln\":{},\"p\":{},\"rv\":{}", l, p, rv);
                if f != file {
                    let _ = write!(out, ",\"file\":{}", esc(&f));
                }
                if st.source_info.span.from_expansion() {
                    let _ = write!(out, ",\"exp\":{}", self.exp(st.source_info.span));
                }
                out.push('}');
            }
            out.push_str("]");
            if data.is_cleanup {
                out.push_str(",\"cleanup\":true");
            }
            let term = data.terminator();
            let (tf, tl, tc, _th) = self.loc(term.source_info.span);
            let _ = write!(out, ",\"t\":{{\"ln\":{},\"col\":{}", tl, tc);
            if tf != file {
                let _ = write!(out, ",\"file\":{}", esc(&tf));
            }
            if term.source_info.span.from_expansion() {
                let _ = write!(out, ",\"exp\":{}", self.exp(term.source_info.span));
            }
            let bbs = |v: &[BasicBlock]| -> String {
                let s: Vec<String> = v.iter().map(|b| b.as_usize().to_string()).collect();
                format!("[{}]", s.join(","))
            };
            match &term.kind {
                TerminatorKind::Goto { target } => {
                    let _ = write!(out, ",\"k\":\"goto\",\"t\":{}", bbs(&[*target]));
                }
                TerminatorKind::SwitchInt { discr, targets } => {
                    let vals: Vec<String> = targets.iter().map(|(v, _)| format!("\"{}\"", v)).collect();
                    let ts: Vec<BasicBlock> = targets.all_targets().to_vec();
                    let _ = write!(
                        out,
                        ",\"k\":\"switch\",\"o\":{},\"vals\":[{}],\"t\":{}",
                        self.operand(body, discr),
                        vals.join(","),
                        bbs(&ts)
                    );
                }
                TerminatorKind::Return => out.push_str(",\"k\":\"return\",\"t\":[]"),
                TerminatorKind::Unreachable => out.push_str(",\"k\":\"unreachable\",\"t\":[]"),
                TerminatorKind::UnwindResume | TerminatorKind::UnwindTerminate(_) => {
                    out.push_str(",\"k\":\"resume\",\"t\":[]")
                }
                TerminatorKind::Drop { place, target, .. } => {
                    let _ = write!(
                        out,
                        ",\"k\":\"drop\",\"p\":{},\"t\":{}",
                        self.place(body, place),
                        bbs(&[*target])
                    );
                }
                TerminatorKind::Assert { cond, target, expected, .. } => {
                    let _ = write!(
                        out,
                        ",\"k\":\"assert\",\"o\":{},\"expected\":{},\"t\":{}",
                        self.operand(body, cond),
                        expected,
                        bbs(&[*target])
                    );
                }
                TerminatorKind::FalseEdge { real_target, .. } => {
                    let _ = write!(out, ",\"k\":\"goto\",\"t\":{}", bbs(&[*real_target]));
                }
                TerminatorKind::FalseUnwind { real_target, .. } => {
                    let _ = write!(out, ",\"k\":\"goto\",\"t\":{}", bbs(&[*real_target]));
                }
                TerminatorKind::Call { func, args, destination, target, fn_span, .. } => {
                    let ts: Vec<BasicBlock> = target.iter().copied().collect();
                    let _ = write!(out, ",\"k\":\"call\",\"t\":{}", bbs(&ts));
                    let (_ff, fl, _fc, fh) = self.loc(*fn_span);
                    let _ = write!(out, ",\"fln\":{},\"fend\":{}", fl, fh);
                    let fty = func.ty(body, tcx);
                    match fty.kind() {
                        ty::FnDef(cd, cargs) => {
                            let _ = write!(out, ",\"callee\":{}", esc(&self.path(*cd)));
                            let _ = write!(
                                out,
                                ",\"ga\":{}",
                                esc(&with_no_visible_paths!(with_resolve_crate_name!(with_no_trimmed_paths!(format!("{:?}", cargs)))))
                            );
                            if let Ok(Some(inst)) = Instance::try_resolve(tcx, typing_env, *cd, cargs) {
                                let rd = inst.def_id();
                                if rd != *cd {
                                    let _ = write!(out, ",\"resolved\":{}", esc(&self.path(rd)));
                                }
                                if matches!(inst.def, ty::InstanceKind::Virtual(..)) {
                                    out.push_str(",\"virtual\":true");
                                }
                            }
                        }
                        _ => {
                            let _ = write!(
                                out,
                                ",\"callee\":null,\"fptr\":{},\"fty\":{}",
                                self.operand(body, func),
                                esc(&self.tys(fty))
                            );
                        }
                    }
                    let a: Vec<String> = args.iter().map(|a| self.operand(body, &a.node)).collect();
                    let _ = write!(out, ",\"a\":[{}],\"d\":{}", a.join(","), self.place(body, destination));
                }
                TerminatorKind::TailCall { .. } => out.push_str(",\"k\":\"tailcall\",\"t\":[]"),
                TerminatorKind::Yield { .. } | TerminatorKind::CoroutineDrop => {
                    out.push_str(",\"k\":\"yield\",\"t\":[]")
                }
                TerminatorKind::InlineAsm { targets, .. } => {
                    let _ = write!(out, ",\"k\":\"asm\",\"t\":{}", bbs(targets));
                }
            }
            out.push_str("}}");
        }
        out.push_str("],\"idom\":[");
        let doms = body.basic_blocks.dominators();
        for (i, bb) in body.basic_blocks.indices().enumerate() {
            if i > 0 {
                out.push(',');
            }
            match doms.immediate_dominator(bb) {
                Some(d) => {
                    let _ = write!(out, "{}", d.as_usize());
                }
                None => out.push_str("-1"),
            }
        }
        out.push_str("]}");
    }

    fn adts(&self, out: &mut String) {
        let tcx = self.tcx;
        let mut first = true;
        for id in tcx.hir_free_items() {
            let did = id.owner_id.to_def_id();
            let kind = tcx.def_kind(did);
            if !matches!(kind, DefKind::Enum | DefKind::Struct) {
                continue;
            }
            let adt = tcx.adt_def(did);
            if !first {
                out.push(',');
            }
            first = false;
            let (file, lo, _c, hi) = self.loc(tcx.def_span(did));
            let _ = write!(
                out,
                "{{\"path\":{},\"kind\":\"{}\",\"file\":{},\"lo\":{},\"hi\":{}",
                esc(&self.path(did)),
                if adt.is_enum() { "enum" } else { "struct" },
                esc(&file),
                lo,
                hi
            );
            // size, only when the type has no generic parameters
            let generics = tcx.generics_of(did);
            if generics.count() == 0 {
                let ty = tcx.type_of(did).instantiate_identity().skip_norm_wip();
                if let Ok(layout) = tcx.layout_of(TypingEnv::fully_monomorphized().as_query_input(ty)) {
                    let _ = write!(out, ",\"size\":{},\"align\":{}", layout.size.bytes(), layout.align.abi.bytes());
                }
                // Option<T> size (niche) for fieldless enums
                if adt.is_enum() {
                    if let Some(opt) = tcx.lang_items().option_type() {
                        let args = tcx.mk_args(&[ty.into()]);
                        let oty = Ty::new_adt(tcx, tcx.adt_def(opt), args);
                        if let Ok(l) = tcx.layout_of(TypingEnv::fully_monomorphized().as_query_input(oty)) {
                            let _ = write!(out, ",\"option_size\":{}", l.size.bytes());
                        }
                    }
                }
            }
            let _ = write!(out, ",\"repr\":{}", esc(&format!("{:?}", adt.repr())));
            out.push_str(",\"variants\":[");
            if adt.is_enum() {
                let mut f2 = true;
                for (vi, d) in adt.discriminants(tcx) {
                    if !f2 {
                        out.push(',');
                    }
                    f2 = false;
                    let v = adt.variant(vi);
                    let fields: Vec<String> = v.fields.iter().map(|f| esc(f.name.as_str())).collect();
                    let _ = write!(
                        out,
                        "{{\"n\":{},\"d\":\"{}\",\"fields\":[{}]}}",
                        esc(v.name.as_str()),
                        d.val,
                        fields.join(",")
                    );
                }
            } else {
                let v = adt.non_enum_variant();
                let fields: Vec<String> = v
                    .fields
                    .iter()
                    .map(|f| {
                        let fty = tcx.type_of(f.did).instantiate_identity().skip_norm_wip();
                        format!("[{},{}]", esc(f.name.as_str()), esc(&self.tys(fty)))
                    })
                    .collect();
                let _ = write!(out, "{{\"n\":\"\",\"d\":\"0\",\"fieldtys\":[{}]}}", fields.join(","));
            }
            out.push_str("]}");
        }
    }
}

struct Cb;

impl rustc_driver::Callbacks for Cb {
    fn after_analysis<'tcx>(
        &mut self,
        _c: &rustc_interface::interface::Compiler,
        tcx: TyCtxt<'tcx>,
    ) -> Compilation {
        let dir = match std::env::var("CAPY_FACTS_DIR") {
            Ok(d) => d,
            Err(_) => return Compilation::Continue,
        };
        let root = std::env::var("CAPY_FACTS_ROOT").unwrap_or_default();
        let krate = tcx.crate_name(rustc_hir::def_id::LOCAL_CRATE).to_string();
        let ctypes: Vec<String> = tcx.crate_types().iter().map(|c| format!("{:?}", c)).collect();
        let cx = Cx { tcx, root };
        let mut out = String::with_capacity(1 << 20);
        let _ = write!(
            out,
            "{{\"crate\":{},\"crate_types\":{},\"test\":{},\"fns\":[",
            esc(&krate),
            esc(&ctypes.join(",")),
            tcx.sess.opts.test
        );
        let mut first = true;
        for def in tcx.hir_body_owners() {
            let mut one = String::new();
            cx.body(def, &mut one);
            if one.is_empty() {
                continue;
            }
            if !first {
                out.push(',');
            }
            first = false;
            out.push_str(&one);
        }
        out.push_str("],\"adts\":[");
        cx.adts(&mut out);
        out.push_str("]}");
        let suffix = if tcx.sess.opts.test { "-test" } else { "" };
        let ct = if ctypes.iter().any(|c| c == "Executable") { "-bin" } else { "" };
        let fname = format!("{}/{}{}{}.json", dir, krate, ct, suffix);
        let tmp = format!("{}.tmp{}", fname, std::process::id());
        std::fs::write(&tmp, out).expect("write facts");
        std::fs::rename(&tmp, &fname).expect("rename facts");
        Compilation::Continue
    }
}

fn main() {
    let mut args: Vec<String> = std::env::args().collect();
    if args.len() > 1 {
        args.remove(1);
    }
    rustc_driver::run_compiler(&args, &mut Cb);
}

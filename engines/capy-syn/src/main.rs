//! capy-syn: parse Rust source files with `syn` and dump a compact JSON syntax tree.
//!
//! usage: capy-syn <out.json> <file.rs>...
//!
//! The dump is generic (no rule knowledge here); the rules live in /verif/rules/*.py.
//! Every node is an object with "k" (kind) and "ln" (1-based start line); blocks, fns and match
//! arms also carry "end".

use proc_macro2::{Span, TokenStream};
use quote::ToTokens;
use serde_json::{json, Value};
use syn::spanned::Spanned;
use syn::*;

fn ln(s: Span) -> usize {
    s.start().line
}
fn end(s: Span) -> usize {
    s.end().line
}
fn col(s: Span) -> usize {
    s.start().column
}

fn ts(t: &impl ToTokens) -> String {
    norm(&t.to_token_stream().to_string())
}

/// normalise token-stream spelling: collapse whitespace around punctuation
fn norm(s: &str) -> String {
    let mut out = String::with_capacity(s.len());
    let cs: Vec<char> = s.chars().collect();
    let mut i = 0;
    while i < cs.len() {
        let c = cs[i];
        if c == ' ' {
            let prev = out.chars().last().unwrap_or(' ');
            let next = cs.get(i + 1).copied().unwrap_or(' ');
            let idc = |c: char| c.is_alphanumeric() || c == '_' || c == '"' || c == '\'';
            if idc(prev) && idc(next) {
                out.push(' ');
            }
        } else {
            out.push(c);
        }
        i += 1;
    }
    out
}

fn path_str(p: &Path) -> String {
    let mut s = String::new();
    if p.leading_colon.is_some() {
        s.push_str("::");
    }
    for (i, seg) in p.segments.iter().enumerate() {
        if i > 0 {
            s.push_str("::");
        }
        s.push_str(&seg.ident.to_string());
    }
    s
}

fn path_generics(p: &Path) -> Value {
    let mut v = vec![];
    for seg in &p.segments {
        if let PathArguments::AngleBracketed(a) = &seg.arguments {
            for g in &a.args {
                v.push(Value::String(ts(g)));
            }
        }
    }
    Value::Array(v)
}

fn label(l: &Option<Label>) -> Value {
    match l {
        Some(l) => Value::String(l.name.ident.to_string()),
        None => Value::Null,
    }
}
fn lifetime(l: &Option<Lifetime>) -> Value {
    match l {
        Some(l) => Value::String(l.ident.to_string()),
        None => Value::Null,
    }
}

fn opt_expr(e: &Option<Box<Expr>>) -> Value {
    match e {
        Some(e) => expr(e),
        None => Value::Null,
    }
}

fn block(b: &Block) -> Value {
    let stmts: Vec<Value> = b.stmts.iter().map(stmt).collect();
    json!({"k":"block","ln":ln(b.span()),"end":end(b.span()),"s":stmts})
}

fn stmt(s: &Stmt) -> Value {
    match s {
        Stmt::Local(l) => {
            let (init, els) = match &l.init {
                Some(i) => (
                    expr(&i.expr),
                    match &i.diverge {
                        Some((_, e)) => expr(e),
                        None => Value::Null,
                    },
                ),
                None => (Value::Null, Value::Null),
            };
            json!({"k":"local","ln":ln(l.span()),"end":end(l.span()),"p":pat(&l.pat),"init":init,"else":els})
        }
        Stmt::Item(i) => item(i),
        Stmt::Expr(e, semi) => {
            json!({"k":"expr","ln":ln(e.span()),"end":end(e.span()),"e":expr(e),"semi":semi.is_some()})
        }
        Stmt::Macro(m) => {
            json!({"k":"expr","ln":ln(m.span()),"end":end(m.span()),"e":mac(&m.mac),"semi":m.semi_token.is_some()})
        }
    }
}

fn mac(m: &Macro) -> Value {
    let name = path_str(&m.path);
    let tokens = m.tokens.clone();
    let mut args = Value::Null;
    let mut extra = json!({});
    if name == "matches" || name.ends_with("::matches") {
        // expr, pat [if guard]
        if let Ok((e, p, g)) = parse_matches(tokens.clone()) {
            extra = json!({"e": expr(&e), "p": pat(&p), "g": match g { Some(g) => expr(&g), None => Value::Null }});
        }
    } else {
        let parser = punctuated::Punctuated::<Expr, Token![,]>::parse_terminated;
        if let Ok(p) = parse::Parser::parse2(parser, tokens.clone()) {
            args = Value::Array(p.iter().map(expr).collect());
        } else {
            // vec![x; n]
            let parser2 = |input: parse::ParseStream| -> Result<(Expr, Expr)> {
                let a: Expr = input.parse()?;
                let _: Token![;] = input.parse()?;
                let b: Expr = input.parse()?;
                Ok((a, b))
            };
            if let Ok((a, b)) = parse::Parser::parse2(parser2, tokens.clone()) {
                args = json!([expr(&a), expr(&b)]);
            }
        }
    }
    let mut v = json!({"k":"macro","ln":ln(m.span()),"end":end(m.span()),"name":name,"tokens":norm(&tokens.to_string()),"a":args});
    if let (Some(o), Some(x)) = (v.as_object_mut(), extra.as_object()) {
        for (k, val) in x {
            o.insert(k.clone(), val.clone());
        }
    }
    v
}

fn parse_matches(tokens: TokenStream) -> Result<(Expr, Pat, Option<Expr>)> {
    let parser = |input: parse::ParseStream| -> Result<(Expr, Pat, Option<Expr>)> {
        let e: Expr = input.parse()?;
        let _: Token![,] = input.parse()?;
        let p = Pat::parse_multi_with_leading_vert(input)?;
        let g = if input.peek(Token![if]) {
            let _: Token![if] = input.parse()?;
            Some(input.parse::<Expr>()?)
        } else {
            None
        };
        let _ = input.parse::<Option<Token![,]>>()?;
        Ok((e, p, g))
    };
    parse::Parser::parse2(parser, tokens)
}

fn pat(p: &Pat) -> Value {
    let l = ln(p.span());
    match p {
        Pat::Ident(i) => json!({"k":"p_ident","ln":l,"n":i.ident.to_string(),"by_ref":i.by_ref.is_some(),
            "mut":i.mutability.is_some(),"sub": match &i.subpat { Some((_,s)) => pat(s), None => Value::Null }}),
        Pat::Path(pp) => json!({"k":"p_path","ln":l,"p":path_str(&pp.path)}),
        Pat::TupleStruct(t) => json!({"k":"p_ts","ln":l,"p":path_str(&t.path),"e":t.elems.iter().map(pat).collect::<Vec<_>>()}),
        Pat::Struct(s) => {
            let f: Vec<Value> = s
                .fields
                .iter()
                .map(|f| json!([ts(&f.member), pat(&f.pat)]))
                .collect();
            json!({"k":"p_struct","ln":l,"p":path_str(&s.path),"f":f,"rest":s.rest.is_some()})
        }
        Pat::Tuple(t) => json!({"k":"p_tuple","ln":l,"e":t.elems.iter().map(pat).collect::<Vec<_>>()}),
        Pat::Or(o) => json!({"k":"p_or","ln":l,"c":o.cases.iter().map(pat).collect::<Vec<_>>()}),
        Pat::Lit(e) => json!({"k":"p_lit","ln":l,"v":ts(e)}),
        Pat::Wild(_) => json!({"k":"p_wild","ln":l}),
        Pat::Reference(r) => json!({"k":"p_ref","ln":l,"e":pat(&r.pat)}),
        Pat::Range(r) => json!({"k":"p_range","ln":l,"v":ts(r)}),
        Pat::Rest(_) => json!({"k":"p_rest","ln":l}),
        Pat::Slice(s) => json!({"k":"p_slice","ln":l,"e":s.elems.iter().map(pat).collect::<Vec<_>>()}),
        Pat::Paren(pp) => pat(&pp.pat),
        Pat::Type(t) => {
            let mut v = pat(&t.pat);
            if let Some(o) = v.as_object_mut() {
                o.insert("ty".into(), Value::String(ts(&t.ty)));
            }
            v
        }
        Pat::Const(c) => json!({"k":"p_other","ln":l,"v":ts(c)}),
        Pat::Macro(m) => json!({"k":"p_macro","ln":l,"m":mac(&m.mac)}),
        other => json!({"k":"p_other","ln":l,"v":ts(other)}),
    }
}

fn binop(op: &BinOp) -> String {
    ts(op)
}

fn expr(e: &Expr) -> Value {
    let l = ln(e.span());
    let en = end(e.span());
    match e {
        Expr::Lit(x) => {
            let (t, v) = match &x.lit {
                Lit::Str(s) => ("str", s.value()),
                Lit::ByteStr(s) => ("bytestr", String::from_utf8_lossy(&s.value()).to_string()),
                Lit::Byte(b) => ("byte", (b.value() as u32).to_string()),
                Lit::Char(c) => ("char", c.value().to_string()),
                Lit::Int(i) => ("int", i.to_string()),
                Lit::Float(f) => ("float", f.to_string()),
                Lit::Bool(b) => ("bool", b.value.to_string()),
                other => ("other", ts(other)),
            };
            json!({"k":"lit","ln":l,"t":t,"v":v})
        }
        Expr::Path(p) => {
            let mut v = json!({"k":"path","ln":l,"p":path_str(&p.path)});
            let g = path_generics(&p.path);
            if g.as_array().map(|a| !a.is_empty()).unwrap_or(false) {
                v["g"] = g;
            }
            if let Some(q) = &p.qself {
                v["qself"] = Value::String(ts(&q.ty));
            }
            v
        }
        Expr::Call(c) => json!({"k":"call","ln":l,"end":en,"f":expr(&c.func),"a":c.args.iter().map(expr).collect::<Vec<_>>()}),
        Expr::MethodCall(m) => {
            let mut v = json!({"k":"mcall","ln":l,"end":en,"mln":ln(m.method.span()),"r":expr(&m.receiver),"m":m.method.to_string(),
                "a":m.args.iter().map(expr).collect::<Vec<_>>()});
            if let Some(t) = &m.turbofish {
                v["tf"] = Value::String(ts(t));
            }
            v
        }
        Expr::Binary(b) => json!({"k":"bin","ln":l,"end":en,"op":binop(&b.op),"l":expr(&b.left),"r":expr(&b.right)}),
        Expr::Unary(u) => json!({"k":"un","ln":l,"op":ts(&u.op),"e":expr(&u.expr)}),
        Expr::Reference(r) => json!({"k":"ref","ln":l,"mut":r.mutability.is_some(),"e":expr(&r.expr)}),
        Expr::Field(f) => json!({"k":"field","ln":l,"e":expr(&f.base),"m":ts(&f.member)}),
        Expr::Index(i) => json!({"k":"index","ln":l,"e":expr(&i.expr),"i":expr(&i.index)}),
        Expr::If(i) => json!({"k":"if","ln":l,"end":en,"c":expr(&i.cond),"t":block(&i.then_branch),
            "e": match &i.else_branch { Some((_,e)) => expr(e), None => Value::Null }}),
        Expr::Let(x) => json!({"k":"let","ln":l,"p":pat(&x.pat),"e":expr(&x.expr)}),
        Expr::Match(m) => {
            let arms: Vec<Value> = m
                .arms
                .iter()
                .map(|a| {
                    json!({"ln":ln(a.span()),"end":end(a.span()),"p":pat(&a.pat),
                    "g": match &a.guard { Some((_,g)) => expr(g), None => Value::Null },
                    "b":expr(&a.body)})
                })
                .collect();
            json!({"k":"match","ln":l,"end":en,"e":expr(&m.expr),"arms":arms})
        }
        Expr::Block(b) => {
            let mut v = block(&b.block);
            v["label"] = label(&b.label);
            v
        }
        Expr::Unsafe(u) => {
            let mut v = block(&u.block);
            v["unsafe"] = Value::Bool(true);
            v
        }
        Expr::Const(c) => block(&c.block),
        Expr::Loop(x) => json!({"k":"loop","ln":l,"end":en,"label":label(&x.label),"b":block(&x.body)}),
        Expr::While(x) => json!({"k":"while","ln":l,"end":en,"label":label(&x.label),"c":expr(&x.cond),"b":block(&x.body)}),
        Expr::ForLoop(x) => json!({"k":"for","ln":l,"end":en,"label":label(&x.label),"p":pat(&x.pat),"e":expr(&x.expr),"b":block(&x.body)}),
        Expr::Break(b) => json!({"k":"break","ln":l,"label":lifetime(&b.label),"e":opt_expr(&b.expr)}),
        Expr::Continue(c) => json!({"k":"continue","ln":l,"label":lifetime(&c.label)}),
        Expr::Return(r) => json!({"k":"return","ln":l,"e":opt_expr(&r.expr)}),
        Expr::Closure(c) => json!({"k":"closure","ln":l,"end":en,"params":c.inputs.iter().map(pat).collect::<Vec<_>>(),
            "move":c.capture.is_some(),"b":expr(&c.body)}),
        Expr::Struct(s) => {
            let f: Vec<Value> = s
                .fields
                .iter()
                .map(|f| json!([ts(&f.member), expr(&f.expr), ln(f.span())]))
                .collect();
            json!({"k":"struct","ln":l,"end":en,"p":path_str(&s.path),"f":f,"rest":opt_expr(&s.rest)})
        }
        Expr::Tuple(t) => json!({"k":"tuple","ln":l,"e":t.elems.iter().map(expr).collect::<Vec<_>>()}),
        Expr::Array(a) => json!({"k":"array","ln":l,"e":a.elems.iter().map(expr).collect::<Vec<_>>()}),
        Expr::Repeat(r) => json!({"k":"repeat","ln":l,"e":expr(&r.expr),"n":expr(&r.len)}),
        Expr::Cast(c) => json!({"k":"cast","ln":l,"e":expr(&c.expr),"ty":ts(&c.ty)}),
        Expr::Paren(p) => expr(&p.expr),
        Expr::Group(g) => expr(&g.expr),
        Expr::Try(t) => json!({"k":"try","ln":l,"e":expr(&t.expr)}),
        Expr::Assign(a) => json!({"k":"assign","ln":l,"l":expr(&a.left),"r":expr(&a.right)}),
        Expr::Range(r) => json!({"k":"range","ln":l,"lo":opt_expr(&r.start),"hi":opt_expr(&r.end),
            "incl": matches!(r.limits, RangeLimits::Closed(_))}),
        Expr::Macro(m) => mac(&m.mac),
        Expr::Await(a) => json!({"k":"await","ln":l,"e":expr(&a.base)}),
        other => json!({"k":"other","ln":l,"v":ts(other)}),
    }
}

fn fields(f: &Fields) -> Value {
    match f {
        Fields::Named(n) => Value::Array(
            n.named
                .iter()
                .map(|f| json!({"n":f.ident.as_ref().map(|i| i.to_string()),"ty":ts(&f.ty),"ln":ln(f.span())}))
                .collect(),
        ),
        Fields::Unnamed(u) => Value::Array(
            u.unnamed
                .iter()
                .map(|f| json!({"n":Value::Null,"ty":ts(&f.ty),"ln":ln(f.span())}))
                .collect(),
        ),
        Fields::Unit => Value::Array(vec![]),
    }
}

fn attrs(a: &[Attribute]) -> Value {
    Value::Array(a.iter().map(|a| Value::String(ts(&a.meta))).collect())
}

fn sig(s: &Signature) -> (Value, Value) {
    let params: Vec<Value> = s
        .inputs
        .iter()
        .map(|a| match a {
            FnArg::Receiver(r) => json!({"p":{"k":"p_ident","n":"self","ln":ln(r.span())},"ty":ts(&r.ty),"self":true,"mut":r.mutability.is_some()}),
            FnArg::Typed(t) => json!({"p":pat(&t.pat),"ty":ts(&t.ty)}),
        })
        .collect();
    let ret = match &s.output {
        ReturnType::Default => Value::Null,
        ReturnType::Type(_, t) => Value::String(ts(t)),
    };
    (Value::Array(params), ret)
}

fn item(i: &Item) -> Value {
    let l = ln(i.span());
    let en = end(i.span());
    match i {
        Item::Fn(f) => {
            let (p, r) = sig(&f.sig);
            json!({"k":"fn","ln":l,"end":en,"name":f.sig.ident.to_string(),"params":p,"ret":r,"b":block(&f.block),
                "attrs":attrs(&f.attrs),"vis":ts(&f.vis),"generics":ts(&f.sig.generics),"nameln":ln(f.sig.ident.span())})
        }
        Item::Impl(im) => {
            let items: Vec<Value> = im
                .items
                .iter()
                .map(|ii| match ii {
                    ImplItem::Fn(f) => {
                        let (p, r) = sig(&f.sig);
                        json!({"k":"fn","ln":ln(f.span()),"end":end(f.span()),"name":f.sig.ident.to_string(),"params":p,"ret":r,
                            "b":block(&f.block),"attrs":attrs(&f.attrs),"vis":ts(&f.vis),"generics":ts(&f.sig.generics),
                            "nameln":ln(f.sig.ident.span())})
                    }
                    ImplItem::Const(c) => json!({"k":"const","ln":ln(c.span()),"name":c.ident.to_string(),"ty":ts(&c.ty),"e":expr(&c.expr)}),
                    ImplItem::Type(t) => json!({"k":"type","ln":ln(t.span()),"name":t.ident.to_string(),"ty":ts(&t.ty)}),
                    other => json!({"k":"other_item","ln":ln(other.span()),"v":ts(other)}),
                })
                .collect();
            json!({"k":"impl","ln":l,"end":en,"ty":ts(&im.self_ty),
                "trait": match &im.trait_ { Some((_,p,_)) => Value::String(ts(p)), None => Value::Null },
                "items":items,"attrs":attrs(&im.attrs)})
        }
        Item::Mod(m) => {
            let items = match &m.content {
                Some((_, its)) => Value::Array(its.iter().map(item).collect()),
                None => Value::Null,
            };
            json!({"k":"mod","ln":l,"end":en,"name":m.ident.to_string(),"items":items,"attrs":attrs(&m.attrs)})
        }
        Item::Const(c) => json!({"k":"const","ln":l,"name":c.ident.to_string(),"ty":ts(&c.ty),"e":expr(&c.expr),"vis":ts(&c.vis)}),
        Item::Static(s) => json!({"k":"static","ln":l,"name":s.ident.to_string(),"ty":ts(&s.ty),"e":expr(&s.expr)}),
        Item::Enum(e) => {
            let vs: Vec<Value> = e
                .variants
                .iter()
                .map(|v| {
                    json!({"n":v.ident.to_string(),"ln":ln(v.span()),"fields":fields(&v.fields),"attrs":attrs(&v.attrs),
                    "named": matches!(v.fields, Fields::Named(_)),
                    "disc": match &v.discriminant { Some((_,d)) => expr(d), None => Value::Null }})
                })
                .collect();
            json!({"k":"enum","ln":l,"end":en,"name":e.ident.to_string(),"variants":vs,"attrs":attrs(&e.attrs)})
        }
        Item::Struct(s) => json!({"k":"struct_def","ln":l,"end":en,"name":s.ident.to_string(),"fields":fields(&s.fields),
            "attrs":attrs(&s.attrs),"named": matches!(s.fields, Fields::Named(_))}),
        Item::Trait(t) => {
            let items: Vec<Value> = t
                .items
                .iter()
                .map(|ti| match ti {
                    TraitItem::Fn(f) => {
                        let (p, r) = sig(&f.sig);
                        json!({"k":"fn","ln":ln(f.span()),"end":end(f.span()),"name":f.sig.ident.to_string(),"params":p,"ret":r,
                            "b": match &f.default { Some(b) => block(b), None => Value::Null },"attrs":attrs(&f.attrs)})
                    }
                    other => json!({"k":"other_item","ln":ln(other.span()),"v":ts(other)}),
                })
                .collect();
            json!({"k":"trait","ln":l,"end":en,"name":t.ident.to_string(),"items":items})
        }
        Item::Macro(m) => {
            let mut v = mac(&m.mac);
            v["k"] = Value::String("item_macro".into());
            v["ident"] = match &m.ident {
                Some(i) => Value::String(i.to_string()),
                None => Value::Null,
            };
            v
        }
        Item::Use(u) => json!({"k":"use","ln":l,"v":ts(&u.tree)}),
        Item::Type(t) => json!({"k":"type","ln":l,"name":t.ident.to_string(),"ty":ts(&t.ty)}),
        other => json!({"k":"other_item","ln":l,"v":ts(other)}),
    }
}

fn main() {
    let args: Vec<String> = std::env::args().collect();
    if args.len() < 3 {
        eprintln!("usage: capy-syn <out.json> <file.rs>...");
        std::process::exit(2);
    }
    let mut out = serde_json::Map::new();
    let mut failed = false;
    for f in &args[2..] {
        let src = match std::fs::read_to_string(f) {
            Ok(s) => s,
            Err(e) => {
                eprintln!("capy-syn: cannot read {f}: {e}");
                failed = true;
                continue;
            }
        };
        match syn::parse_file(&src) {
            Ok(file) => {
                let items: Vec<Value> = file.items.iter().map(item).collect();
                out.insert(f.clone(), json!({"items":items,"lines":src.lines().count()}));
            }
            Err(e) => {
                eprintln!("capy-syn: parse error in {f}: {e} at line {}", e.span().start().line);
                failed = true;
            }
        }
    }
    let _ = col;
    std::fs::write(&args[1], serde_json::to_string(&Value::Object(out)).unwrap()).unwrap();
    if failed {
        std::process::exit(1);
    }
}

#!/usr/bin/env python3
"""seedcheck.py <patch.diff> [props...]: run the quick checks against a scratch copy of /repo with the patch applied.

Equivalent to `git -C /repo apply patch; ./check ...; git -C /repo checkout -- .` but leaves /repo (and its fact
cache) untouched.  Prints the findings per property; exit 0 if at least one check reported a violation.
"""
import json, os, subprocess, sys, tempfile
V = os.path.dirname(os.path.dirname(os.path.abspath(__file__)))
sys.path.insert(0, os.path.join(V, "lib"))
import mutants
patch = os.path.abspath(sys.argv[1])
props = sys.argv[2:] or [c["property_id"] for c in json.load(open(os.path.join(V, "MANIFEST.json")))["checks"]]
tmp = tempfile.mkdtemp(prefix="capy-seed-", dir="/tmp")
evd = tempfile.mkdtemp(prefix="capy-seed-ev-", dir="/tmp")
hit = False
try:
    mutants.copy_repo(tmp)
    r = subprocess.run(["git", "apply", "--unsafe-paths", "--directory", tmp, patch], cwd="/", stdout=subprocess.PIPE, stderr=subprocess.STDOUT, text=True)
    if r.returncode != 0:
        print("patch does not apply:", r.stdout); sys.exit(2)
    env = dict(os.environ, CAPY_REPO=tmp, VERIF_EVIDENCE_DIR=evd, VERIF_REPLAY_DIR=os.path.join(evd, "replay"), VERIF_TIER="quick")
    for p in props:
        r = subprocess.run([sys.executable, os.path.join(V, "check"), p, "--tier", "quick"], env=env, stdout=subprocess.PIPE, stderr=subprocess.STDOUT, text=True)
        f = [l.strip() for l in r.stdout.splitlines() if "finding:" in l]
        print("%s rc=%d findings=%d" % (p, r.returncode, len(f)), flush=True)
        for l in f:
            print("    " + l[:420])
        if r.returncode not in (0, 1):
            print(r.stdout[-1500:])
        hit = hit or r.returncode == 1
finally:
    mutants.cleanup(tmp)
    import shutil; shutil.rmtree(evd, ignore_errors=True)
sys.exit(0 if hit else 1)

#!/bin/bash
# verify_seed.sh <name>: confirm a sub-agent's seeded change in its scratch worktree /tmp/seed/<name>
#  1. source reset to HEAD -> build -> demo -> must equal expected_without.txt
#  2. git apply _seed/patch.diff -> build (must compile) -> demo -> must differ from expected_without.txt (saved as observed)
#  3. whole test suite with the change applied -> totals
set -u
n=$1; wt=/tmp/seed/$n; s=$wt/_seed; log=/tmp/seed/verify_$n.log
exec >$log 2>&1
cd $wt || exit 2
export CARGO_NET_OFFLINE=true
git checkout -q -- crates core 2>/dev/null
git status --short | grep -v '^??' && echo "WARN: tracked changes remain after checkout"
echo "== baseline build"; cargo build --offline -p capy 2>&1 | tail -1
run=$(ls $s/demo/run*.sh | head -1)
echo "== baseline demo ($run)"; (cd $s/demo && timeout 300 bash $run $wt/target/debug/capy $wt) > /tmp/seed/out_${n}_without.txt 2>&1
echo "== apply"; git apply $s/patch.diff || { echo "PATCH DOES NOT APPLY"; exit 3; }
cargo build --offline -p capy 2>&1 | tail -1
echo "== demo with change"; (cd $s/demo && timeout 300 bash $run $wt/target/debug/capy $wt) > /tmp/seed/out_${n}_with.txt 2>&1
filt() { grep -v -E '^\s*(Compiling|Finished|Running|Finalizing|Linking)|^\[|debug' "$1"; }
if diff <(filt /tmp/seed/out_${n}_without.txt) <(filt /tmp/seed/out_${n}_with.txt) >/tmp/seed/diff_$n.txt; then echo "DEMO: NO DIFFERENCE"; else echo "DEMO: differs ($(wc -l </tmp/seed/diff_$n.txt) diff lines)"; fi
if diff -q <(filt /tmp/seed/out_${n}_without.txt) <(filt $s/demo/expected_without.txt) >/dev/null; then echo "BASELINE matches agent's expected_without"; else echo "BASELINE differs from agent's expected_without (check by hand)"; fi
echo "== tests with change"
cargo test --workspace --no-fail-fast --offline 2>&1 | grep -E "^test result|FAILED|failed|panicked" > /tmp/seed/tests_$n.txt
awk '/^test result/{p+=$4; f+=$6} END{print "TOTAL passed=" p " failed=" f}' /tmp/seed/tests_$n.txt
grep -E "FAILED|failed" /tmp/seed/tests_$n.txt | head
echo "== done"

#!/bin/bash
# capyrun.sh <file.capy> [run|build] : run a witness on the baseline debug CLI (built under /tmp/seed/_base), debug noise filtered
f=$1; mode=${2:-run}
BIN=${CAPY_BIN:-/tmp/seed/_base/target/debug/capy}
extra=""; [ "$mode" = build ] && extra="--no-exec"
( ulimit -v 4000000; timeout ${T:-30} $BIN $mode "$f" --mod-dir /repo --color never $extra 2>&1; echo "[exit ${PIPESTATUS[0]}]" ) | awk '/^Running|^error|^thread .* panicked|^Error defining|^\[exit/{p=1} p'

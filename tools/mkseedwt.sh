#!/bin/sh
# mkseedwt.sh <name>: scratch worktree of /repo HEAD under /tmp/seed/<name> with a warm copy of the base target dir
set -e
n=$1
git -C /repo worktree add --detach /tmp/seed/$n HEAD >/dev/null 2>&1
cp -a /tmp/seed/_base/target /tmp/seed/$n/target
echo /tmp/seed/$n

#!/usr/bin/env python3
"""print the prompt handed to a fresh sub-agent for one property (text of the property + its scratch worktree only)"""
import json, sys
pid, wt = sys.argv[1], sys.argv[2]
extra = sys.argv[3] if len(sys.argv) > 3 else ""
p = [json.loads(l) for l in open('/verif/properties.jsonl') if json.loads(l)['id'] == pid][0]
rec = {k: p[k] for k in ('title', 'statement', 'quantifier', 'why_tests_cant', 'anchors')}
txt = json.dumps(rec, indent=1).replace('/repo/', wt + '/')
print(f"""You are helping to evaluate a verification framework for the Capy compiler (capy-language/capy: a statically typed compiled language implemented in Rust - lexer, parser, HIR lowering, type inference, comptime execution, Cranelift codegen). Your job is to play the adversary: produce ONE realistic change to the compiler's source that BREAKS the property below while the workspace still compiles and the existing test suite still passes, plus a demonstration that fails with the change and passes without it.

Your scratch copy of the repository is the git worktree {wt} (detached HEAD). Work ONLY inside {wt}. Never read or write /repo or /verif (you have no business there; your work must be independent). Do not commit anything. There is no network; use --offline for cargo.

THE PROPERTY (id {pid}):
{txt}

WHAT KIND OF CHANGE
- A plausible maintainer edit (a refactor gone slightly wrong, an "optimisation", a missed case, a changed constant, a reordered pair of statements, a condition that is too wide/narrow, two cooperating sites that each look fine alone). Keep it small (typically 1-30 changed lines), in non-test source under {wt}/crates (or {wt}/core).
- It must need something SPECIFIC to manifest - an unusual input, a particular combination of language features, a multi-step sequence, a particular type/width/nesting - NOT something ordinary use would expose at once. Ordinary programs (and all existing tests) must keep working.
- It must genuinely violate the property as stated (observable through what the property says to observe), not merely change an error message or an internal detail.
- Do not edit, delete or skip tests/snapshots. {extra}

HOW TO WORK (all offline; the sandbox has 16 cores shared with other jobs)
- Read the anchored files first to understand the mechanism.
- Build the CLI:  cd {wt} && CARGO_NET_OFFLINE=true cargo build --offline -p capy      (the target dir is pre-warmed, so about 30-60 s; binary at {wt}/target/debug/capy)
- Run a program:  {wt}/target/debug/capy run prog.capy --mod-dir {wt} --color never     (`--mod-dir {wt}` makes `core` resolve to {wt}/core so nothing is downloaded; `capy build prog.capy --mod-dir {wt} --no-exec` stops before linking). Debug builds print internal debug noise on stdout before the program's own output; filter it e.g. with  | awk '/^Running|^error|^thread .* panicked/{{p=1}} p'.  Guard possible hangs with `timeout 20`.
  Example programs in {wt}/examples and the test programs used by {wt}/crates/codegen/src/tests*.rs show the syntax; `core :: #mod("core");` gives `core.println(...)` etc.
- Run the whole test suite with your change applied:  cd {wt} && CARGO_NET_OFFLINE=true cargo test --workspace --no-fail-fast --offline 2>&1 | grep -E "^test result|FAILED|failed"     (about 5-8 min). Every test must pass (691 tests). If any fails, your change is not acceptable - revise it.
- First run your demonstration WITHOUT the change (baseline build) and save its output; then apply the change, rebuild, run again and save the differing output.

DELIVERABLE - create the directory {wt}/_seed/ containing:
- patch.diff : `git -C {wt} diff -- crates core` of your source change only (must apply cleanly to the worktree's HEAD with `git apply`);
- demo/ : the demonstration - the .capy program(s) (or any other input files) and a run.sh that takes the path of a capy binary as $1 and the mod dir as $2 and runs the demo; expected_without.txt (output on the unchanged compiler) and observed_with.txt (output with your change);
- NOTES.md : what the change does, why it breaks the property, exactly what is needed for it to manifest, why the existing tests do not notice, and the test-suite totals you observed with the change applied.
When done, leave the worktree's source WITH your change applied (so `git diff` shows it), and reply with a short summary (what you changed, file and function, what manifests it, test totals). If after a serious attempt you cannot find a change that satisfies all constraints, say so plainly and explain what you tried.
""")

#!/usr/bin/env python3
"""gen_seed_table.py: rewrite the table of DESIGN.md §12 from seeded/*/meta.json (between the markers)"""
import glob, json, re
rows = []
for f in sorted(glob.glob("/verif/seeded/C*/meta.json")):
    m = json.load(open(f))
    br = m["breaks"].replace("|", "/")
    if len(br) > 150:
        br = br[:150] + "…"
    rules = []
    for d in m.get("detected_by", []):
        r = re.search(r"(C\d\d/)?(R\d\d\.[a-z])", d)
        s = (r.group(0) if r and r.group(1) and not d.startswith(m["property"]) else (r.group(2) if r else d[:40]))
        if s not in rules:
            rules.append(s)
    fr = m.get("first_run", "").replace("|", "/")
    fr = fr.split(";")[0].split(" (")[0] if len(fr) > 60 else fr
    rows.append("| %s | %s | %s | %s |" % (m["seed"], br, fr, "; ".join(rules)))
tab = "| seed | change | first run | caught by |\n|------|--------|-----------|-----------|\n" + "\n".join(rows) + "\n"
p = "/verif/DESIGN.md"
s = open(p).read()
a = s.index("| seed | change | first run | caught by |")
b = s.index("\n\n", a)
s = s[:a] + tab.rstrip("\n") + s[b:]
open(p, "w").write(s)
print(len(rows), "rows")

#!/usr/bin/env python3
"""keep_seed.py <name> <json-meta-on-stdin>: copy /tmp/seed/<name>/_seed into /verif/seeded/<name>/ with meta.json"""
import json, os, shutil, sys
n = sys.argv[1]
src = "/tmp/seed/%s/_seed" % n
dst = "/verif/seeded/%s" % n
if os.path.isdir(dst):
    shutil.rmtree(dst)
shutil.copytree(src, dst)
meta = json.load(sys.stdin)
base = {"seed": n, "origin": "fresh sub-agent given only the property text and a scratch worktree of /repo (no access to /verif)"}
base.update(meta)
base.setdefault("what_i_ran", [
    "tools/verify_seed.sh %s in the agent's scratch worktree: source reset to HEAD, cargo build --offline -p capy, demo -> matches demo/expected_without.txt" % n,
    "git apply patch.diff; cargo build --offline -p capy (compiles); demo -> differs as described (demo/observed_with.txt)",
    "cargo test --workspace --no-fail-fast --offline with the patch: TOTAL passed=691 failed=0",
    "tools/seedcheck.py patch.diff (all claimed checks on a scratch copy of /repo with the patch applied; same as git -C /repo apply / check / checkout)",
])
json.dump(base, open(os.path.join(dst, "meta.json"), "w"), indent=1)
print("kept", dst, os.listdir(dst))

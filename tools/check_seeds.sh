#!/bin/bash
# check_seeds.sh [names...]: run every kept seeded change through the property's own check (scratch copy) and report detection
cd /verif
for d in ${@:-$(ls seeded | grep -v retired)}; do
  p=$(python3 -c "import json;print(json.load(open('seeded/$d/meta.json'))['property'])")
  out=$(tools/seedcheck.py seeded/$d/patch.diff $p 2>&1)
  if echo "$out" | grep -q "rc=1"; then echo "$d ($p): DETECTED  $(echo "$out" | grep -c finding:) finding(s): $(echo "$out" | grep -o '\[C[0-9][0-9]/[^]]*\]' | head -2 | tr '\n' ' ')"; else echo "$d ($p): MISSED"; echo "$out" | tail -3; fi
done

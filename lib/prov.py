"""Lexically scoped provenance over the syn dump: which pattern fields, methods and constants a value is computed from.

`scoped_visit(fn_body, on_node)` walks a function body keeping the lexical scope (let bindings in order, for/match/if-let/closure
patterns); `tags(expr, scope)` follows a name to its definition(s) - never by the name's spelling - and returns the set of leaves:

    field:<Struct>.<f>   bound by a struct pattern (the field's name is the type's, not the variable's)
    m:<method>           a method applied on the way
    f:<function>         a free function / constructor applied on the way
    const                a literal
    arith                combined with a binary operator
    param:<n> / name:<n> a parameter / something not defined in this function
"""
from synq import canon, walk


class Scope:
    def __init__(self, parent=None):
        self.parent = parent
        self.vars = {}

    def lookup(self, n):
        s = self
        while s is not None:
            if n in s.vars:
                return s.vars[n], s
            s = s.parent
        return None, None

    def child(self):
        return Scope(self)


TRANSPARENT = ("Some", "Ok", "Err")


def _steps(via):
    if not via:
        return ()
    if isinstance(via[0], tuple):
        return tuple(via)
    return (tuple(via),)


def bind_pattern(p, src, scope, how, via=None):
    """bind every identifier of pattern p; `src` = (expr, scope the expression lives in) the pattern is matched against; `via` = the path of pattern
    steps from the matched value down to the identifier: ("field", Struct, name) and ("tuple", i)"""
    if p is None:
        return
    via = _steps(via)
    k = p.get("k")
    if k == "p_ident":
        scope.vars[p["n"]] = {"how": how, "src": src, "via": via or None, "mut": p.get("mut")}
        if p.get("sub"):
            bind_pattern(p["sub"], src, scope, how, via)
    elif k == "p_struct":
        for name, sub in p["f"]:
            bind_pattern(sub, src, scope, how, via + (("field", p["p"].rsplit("::", 1)[-1], name),))
    elif k == "p_ts":
        for i, sub in enumerate(p["e"]):
            bind_pattern(sub, src, scope, how, via + (("field", p["p"].rsplit("::", 1)[-1], str(i)),))
    elif k == "p_tuple":
        for i, sub in enumerate(p["e"]):
            bind_pattern(sub, src, scope, how, via + (("tuple", i),))
    elif k == "p_or":
        for c in p["c"]:
            bind_pattern(c, src, scope, how, via)
    elif k in ("p_ref", "p_paren", "p_box"):
        bind_pattern(p.get("p") or p.get("e"), src, scope, how, via)
    else:
        for v in p.values():
            if isinstance(v, dict) and str(v.get("k", "")).startswith("p_"):
                bind_pattern(v, src, scope, how, via)
            elif isinstance(v, list):
                for x in v:
                    if isinstance(x, dict) and str(x.get("k", "")).startswith("p_"):
                        bind_pattern(x, src, scope, how, via)


def scoped_visit(node, scope, on_node):
    """pre-order; on_node(node, scope) sees every expression node with the scope visible at that point"""
    if isinstance(node, list):
        for x in node:
            scoped_visit(x, scope, on_node)
        return
    if not isinstance(node, dict):
        return
    k = node.get("k")
    if k == "block":
        s2 = scope.child()
        for st in node["s"]:
            if isinstance(st, dict) and st.get("k") == "local":
                # every `let` opens a scope of its own for the rest of the block: a scope handed to on_node stays what it was at that point
                # (a later `let` that shadows a name must not change what an earlier use resolves to)
                if st.get("init") is not None:
                    scoped_visit(st["init"], s2, on_node)
                if st.get("else") is not None:
                    scoped_visit(st["else"], s2, on_node)
                s3 = s2.child()
                bind_pattern(st["p"], (st.get("init"), s2), s3, "let")
                s2 = s3
            else:
                scoped_visit(st, s2, on_node)
        return
    if k == "local":
        if node.get("init") is not None:
            scoped_visit(node["init"], scope, on_node)
        if node.get("else") is not None:
            scoped_visit(node["else"], scope, on_node)
        bind_pattern(node["p"], (node.get("init"), scope), scope, "let")
        return
    if k == "while":
        on_node(node, scope)
        s2 = scope.child()
        scoped_visit(node["c"], s2, on_node)
        scoped_visit(node["b"], s2, on_node)
        return
    on_node(node, scope)
    if k == "for":
        scoped_visit(node["e"], scope, on_node)
        s2 = scope.child()
        bind_pattern(node["p"], (node["e"], scope), s2, "iter")
        scoped_visit(node["b"], s2, on_node)
        return
    if k == "match":
        scoped_visit(node["e"], scope, on_node)
        for a in node["arms"]:
            s2 = scope.child()
            bind_pattern(a["p"], (node["e"], scope), s2, "pat")
            if a.get("g") is not None:
                scoped_visit(a["g"], s2, on_node)
            scoped_visit(a["b"], s2, on_node)
        return
    if k == "if":
        s2 = scope.child()
        scoped_visit(node["c"], s2, on_node)
        scoped_visit(node["t"], s2, on_node)
        if node.get("e") is not None:
            scoped_visit(node["e"], scope, on_node)
        return
    if k == "let":
        scoped_visit(node["e"], scope, on_node)
        bind_pattern(node["p"], (node["e"], scope), scope, "pat")
        return
    if k == "closure":
        s2 = scope.child()
        for p in node.get("params", []):
            bind_pattern(p, (None, scope), s2, "param")
        scoped_visit(node["b"], s2, on_node)
        return
    for key, v in node.items():
        if key in ("p",):
            continue
        if isinstance(v, (dict, list)):
            scoped_visit(v, scope, on_node)


class Prov:
    def __init__(self, fn):
        self.fn = fn
        # assignments to plain names, and values fed into a collection through its mutating methods (v.push(x), m.insert(k, x)), anywhere in the
        # function (flow-insensitive; only consulted for `mut` bindings); each with the scope of the site, so that loop variables resolve
        self.assigned = {}
        self.root = Scope()
        for n in fn.param_names():
            self.root.vars[n] = {"how": "fnparam", "src": (None, None), "via": None}

        def collect(x, sc):
            if x.get("k") == "assign" and x["l"].get("k") == "path":
                self.assigned.setdefault(x["l"]["p"], []).append((x["r"], sc))
            if x.get("k") == "bin" and x.get("op", "").endswith("=") and x["op"] not in ("==", "!=", "<=", ">=") and x["l"].get("k") == "path":
                self.assigned.setdefault(x["l"]["p"], []).append((x["r"], sc))
            if x.get("k") == "mcall" and x["m"] in ("push", "push_back", "push_front", "insert", "extend", "append", "push_str") and x["r"].get("k") == "path":
                for a_ in x["a"]:
                    self.assigned.setdefault(x["r"]["p"], []).append((a_, sc))
        scoped_visit(fn.body, self.root, collect)

    def visit(self, on_node):
        scoped_visit(self.fn.body, self.root, on_node)

    def alternatives(self, e, scope, depth=0):
        """the tag sets of the values an expression can be, one per branch: `if`/`match` at the top of the definition chain (through lets, references,
        `.into()`/`.clone()`) are split instead of merged"""
        if e is None or depth > 20:
            return [set()]
        k = e.get("k")
        if k in ("paren", "ref", "un", "cast", "try"):
            return self.alternatives(e["e"], scope, depth + 1)
        if k == "mcall" and e["m"] in ("into", "clone", "as_ref", "to_owned", "unwrap", "expect") and not (e["m"] == "expect" and False):
            return self.alternatives(e["r"], scope, depth + 1)
        if k == "path":
            b, _ = scope.lookup(e["p"]) if scope is not None else (None, None)
            if b is not None and b["how"] == "let" and not b.get("via") and b["src"][0] is not None and not b.get("mut"):
                return self.alternatives(b["src"][0], b["src"][1], depth + 1)
            return [self.tags(e, scope)]
        if k == "if" and e.get("e") is not None:
            return self.alternatives(e["t"], scope, depth + 1) + self.alternatives(e["e"], scope, depth + 1)
        if k == "match":
            out = []
            for a_ in e["arms"]:
                s2 = scope.child() if scope is not None else Scope()
                bind_pattern(a_["p"], (e["e"], scope), s2, "pat")
                out += self.alternatives(a_["b"], s2, depth + 1)
            return out
        if k == "block":
            s2 = scope.child() if scope is not None else Scope()
            last = None
            for st in e["s"]:
                if st.get("k") == "local":
                    s3 = s2.child()
                    bind_pattern(st["p"], (st.get("init"), s2), s3, "let")
                    s2 = s3
                elif st.get("k") == "expr" and not st.get("semi"):
                    last = st["e"]
            return self.alternatives(last, s2, depth + 1) if last is not None else [set()]
        return [self.tags(e, scope)]

    SHAPE_KEEPING = ("get", "get_mut", "copied", "cloned", "clone", "iter", "iter_mut", "into_iter", "next", "pop", "unwrap", "expect", "first", "last", "rev", "peekable", "peek",
                     "as_ref", "as_mut", "to_vec", "to_owned", "unwrap_or_default", "last_mut", "first_mut", "peek_mut", "by_ref", "as_deref", "as_deref_mut", "borrow", "borrow_mut")

    def tags(self, e, scope, seen=None, depth=0, comp=None):
        """comp: when a tuple literal is reached, only its comp-th component is what the value is computed from"""
        seen = seen if seen is not None else set()
        out = set()
        if e is None or depth > 40:
            return out
        k = e.get("k")
        if k == "lit":
            return {"const"}
        if k == "path":
            n = e["p"]
            b, s = scope.lookup(n) if scope is not None else (None, None)
            if b is None:
                return {"name:" + n}
            key = (id(b), comp)
            if key in seen:
                return out
            seen.add(key)
            if b["how"] == "fnparam":
                return {"param:" + n}
            steps = b["via"] or ()
            hard = [st for st in steps if st[0] == "field" and st[1] not in TRANSPARENT]
            if hard:
                # the first step through a struct / enum-variant pattern names the field the value IS
                out.add("field:%s.%s" % (hard[0][1], hard[0][2]))
                return out
            for st in steps:
                if st[0] == "field":
                    out.add("field:%s.%s" % (st[1], st[2]))
            tup = [st[1] for st in steps if st[0] == "tuple"]
            c2 = tup[-1] if tup else comp
            src, sscope = b["src"]
            if b["how"] in ("iter", "pat"):
                out.add("elem")
            out |= self.tags(src, sscope, seen, depth + 1, c2)
            if b.get("mut"):
                for r, rs in self.assigned.get(n, []):
                    out |= self.tags(r, rs, seen, depth + 1, c2)
            return out
        if k == "tuple" and comp is not None and comp < len(e["e"]):
            return self.tags(e["e"][comp], scope, seen, depth + 1, None)
        if k == "mcall":
            out.add("m:" + e["m"])
            keep = comp if e["m"] in self.SHAPE_KEEPING else None
            out |= self.tags(e["r"], scope, seen, depth + 1, keep)
            if e["m"] not in ("to_previous_type_id", "to_type_id") and not (keep is not None):
                for a in e["a"]:
                    out |= self.tags(a, scope, seen, depth + 1)
            return out
        if k == "call":
            fname = canon(e["f"]).rsplit("::", 1)[-1]
            if fname in TRANSPARENT and len(e["a"]) == 1:
                return self.tags(e["a"][0], scope, seen, depth + 1, comp)
            out.add("f:" + fname)
            for a in e["a"]:
                out |= self.tags(a, scope, seen, depth + 1)
            return out
        if k == "field":
            if comp is None and e["m"].isdigit():
                return self.tags(e["e"], scope, seen, depth + 1, int(e["m"]))
            out.add("m:." + e["m"])
            return out | self.tags(e["e"], scope, seen, depth + 1)
        if k == "index":
            return out | {"indexed"} | self.tags(e["e"], scope, seen, depth + 1, comp)
        if k in ("cast", "paren", "ref", "un", "try"):
            return self.tags(e["e"], scope, seen, depth + 1, comp)
        if k == "bin":
            return {"arith"} | self.tags(e["l"], scope, seen, depth + 1) | self.tags(e["r"], scope, seen, depth + 1)
        if k == "macro":
            for a in (e.get("a") or []):
                out |= self.tags(a, scope, seen, depth + 1, comp if e.get("n") == "vec" else None)
            return out
        if k == "closure":
            s2 = scope.child() if scope is not None else Scope()
            for p_ in e.get("params", []):
                bind_pattern(p_, (None, scope), s2, "param")
            return self.tags(e["b"], s2, seen, depth + 1, comp)
        if k == "struct":
            out.add("f:" + e["p"].rsplit("::", 1)[-1])
            for f in e["f"]:
                out |= self.tags(f[1], scope, seen, depth + 1)
            if e.get("rest") is not None:
                out |= self.tags(e["rest"], scope, seen, depth + 1)
            return out
        if k in ("tuple", "array"):
            for x in e["e"]:
                out |= self.tags(x, scope, seen, depth + 1, comp if k == "array" else None)
            return out
        if k == "block":
            s2 = scope.child() if scope is not None else Scope()
            last = None
            for st in e["s"]:
                if st.get("k") == "local":
                    bind_pattern(st["p"], (st.get("init"), s2), s2, "let")
                elif st.get("k") == "expr" and not st.get("semi"):
                    last = st["e"]
            return self.tags(last, s2, seen, depth + 1, comp) if last is not None else out
        if k in ("if", "match"):
            out.add("branch")
            if k == "if":
                out |= self.tags(e["t"], scope, seen, depth + 1, comp)
                if e.get("e") is not None:
                    out |= self.tags(e["e"], scope, seen, depth + 1, comp)
            else:
                for a_ in e["arms"]:
                    s2 = scope.child() if scope is not None else Scope()
                    bind_pattern(a_["p"], (e["e"], scope), s2, "pat")
                    out |= self.tags(a_["b"], s2, seen, depth + 1, comp)
            return out
        return {"expr:" + str(k)}

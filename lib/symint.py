"""Symbolic extension of absint.Interp: linear symbolic numbers, loops, mutation with proper scoping.

Used for the layout rules (C17) and other small arithmetic selection functions: the compiler's own
source (engine B dump) is evaluated over *symbolic* sizes/alignments (atoms such as size(f1)), with
comparisons between symbolic values answered by an explicit finite *ordering oracle* supplied by the
rule (the rule enumerates every weak ordering of the atoms involved).  Nothing of capy is executed and
no solver is involved: values are normal forms `c + sum k_i * atom_i`, equal iff their normal forms are
equal; anything the domain cannot represent raises CannotEstablish and the calling rule fails closed.
"""
from absint import Interp, Obj, Term, Variant, Panic, CannotEstablish, _Return, _Break
from synq import canon


class _Continue(Exception):
    def __init__(self, label):
        self.label = label


class Lin:
    """c + sum coeff * atom   (atoms are hashable: str or Term)"""
    __slots__ = ("c", "t")

    def __init__(self, c=0, t=None):
        self.c = c
        self.t = {a: k for a, k in (t or {}).items() if k != 0}

    @staticmethod
    def atom(a):
        return Lin(0, {a: 1})

    def key(self):
        return (self.c, tuple(sorted(((repr(a), k) for a, k in self.t.items()))))

    def __eq__(self, o):
        o = to_lin(o)
        return o is not None and self.key() == o.key()

    def __ne__(self, o):
        return not self.__eq__(o)

    def __hash__(self):
        return hash(self.key())

    def is_const(self):
        return not self.t

    def single_atom(self):
        if self.c == 0 and len(self.t) == 1:
            (a, k), = self.t.items()
            if k == 1:
                return a
        return None

    def add(self, o, sign=1):
        t = dict(self.t)
        for a, k in o.t.items():
            t[a] = t.get(a, 0) + sign * k
        return norm(Lin(self.c + sign * o.c, t))

    def scale(self, k):
        return norm(Lin(self.c * k, {a: c * k for a, c in self.t.items()}))

    def __repr__(self):
        parts = []
        for a, k in sorted(self.t.items(), key=lambda kv: repr(kv[0])):
            parts.append(("%d*" % k if k != 1 else "") + (a if isinstance(a, str) else repr(a)))
        if self.c or not parts:
            parts.append(str(self.c))
        return " + ".join(parts)


def norm(l):
    """a constant Lin collapses to a python int so that concrete code paths keep working"""
    if isinstance(l, Lin) and l.is_const():
        return l.c
    return l


def to_lin(v):
    if isinstance(v, Lin):
        return v
    if isinstance(v, bool):
        return None
    if isinstance(v, int):
        return Lin(v)
    if isinstance(v, (Term, str)):
        return Lin.atom(v)
    return None


def sym(name):
    return Lin.atom(name)


class Env:
    """lexically scoped environment (assignment updates the defining scope)"""

    def __init__(self, parent=None, init=None):
        self.parent = parent
        self.vars = dict(init or {})

    def child(self):
        return Env(self)

    def __contains__(self, k):
        e = self
        while e is not None:
            if k in e.vars:
                return True
            e = e.parent
        return False

    def __getitem__(self, k):
        e = self
        while e is not None:
            if k in e.vars:
                return e.vars[k]
            e = e.parent
        raise KeyError(k)

    def __setitem__(self, k, v):   # definition (let / pattern binding)
        self.vars[k] = v

    def update(self, other):
        for k in other.keys():
            self.vars[k] = other[k]

    def assign(self, k, v):
        e = self
        while e is not None:
            if k in e.vars:
                e.vars[k] = v
                return
            e = e.parent
        raise CannotEstablish("assignment to unbound name %s" % k)

    def keys(self):
        ks, e = [], self
        while e is not None:
            ks += [k for k in e.vars if k not in ks]
            e = e.parent
        return ks


COMPOUND = {"+=": "+", "-=": "-", "*=": "*", "/=": "/", "%=": "%", "|=": "|", "&=": "&", "<<=": "<<", ">>=": ">>", "^=": "^"}


class SymInterp(Interp):
    """order(l, r) -> -1/0/1 decides comparisons between symbolic values (or raises CannotEstablish)"""

    def __init__(self, order=None, max_iter=64, resolver=None, **kw):
        super().__init__(**kw)
        self.order = order
        self.max_iter = max_iter
        self.resolver = resolver      # name -> SynFn-like (body, param_names) for helper functions to evaluate inline
        self.method_resolver = None   # (recv, method name) -> SynFn-like: small predicates of the receiver's type evaluated inline
        self.inline_depth = 0

    # ---- scoping -----------------------------------------------------------------------------
    def run_fn(self, synfn, env):
        try:
            return self.block(synfn.body, env if isinstance(env, Env) else Env(None, env))
        except _Return as r:
            return r.v

    def block(self, b, env):
        v = None
        env = env.child() if isinstance(env, Env) else Env(None, env)
        for s in b["s"]:
            v = self.stmt(s, env)
        return v

    def stmt(self, s, env):
        if s.get("k") == "const" and s.get("e") is not None:
            # a constant item declared inside a function body
            env[s["name"]] = self.eval(s["e"], env)
            return None
        return super().stmt(s, env)

    def inline(self, f, args, recv=None):
        self.inline_depth += 1
        if self.inline_depth > 16:
            self.inline_depth -= 1
            raise CannotEstablish("inlining depth")
        try:
            names = f.param_names()
            env = {}
            if recv is not None or (names and names[0] == "self"):
                env["self"] = recv
                names = names[1:] if names and names[0] == "self" else names
            for n, a in zip(names, args):
                env[n] = a
            return self.run_fn(f, env)
        finally:
            self.inline_depth -= 1

    def bind(self, p, v, env):
        if p.get("k") == "p_or" and isinstance(env, Env):
            # alternatives bind into a scratch scope; only the names the matching alternative introduced are merged
            # (the base implementation copies every visible variable, which would shadow outer mutable variables)
            for c in p["c"]:
                e2 = Env(env)
                if self.bind(c, v, e2):
                    env.vars.update(e2.vars)
                    return True
            return False
        return super().bind(p, v, env)

    def call_closure(self, clo, args):
        if isinstance(clo, tuple) and clo and clo[0] == "pyfunc":
            return clo[1](*args)
        _, e, cenv = clo
        env = cenv.child() if isinstance(cenv, Env) else Env(None, cenv)
        for p, a in zip(e["params"], args):
            if not self.bind(p, a, env):
                raise CannotEstablish("closure parameter pattern did not match")
        try:
            return self.eval(e["b"], env)
        except _Return as r:
            return r.v

    # ---- expressions -------------------------------------------------------------------------
    def eval(self, e, env):
        k = e["k"]
        if k == "if":
            env2 = env.child()
            if self.cond(e["c"], env2):
                return self.block(e["t"], env2)
            if e.get("e") is not None:
                return self.eval(e["e"], env)
            return None
        if k == "match":
            v = self.eval(e["e"], env)
            for a in e["arms"]:
                env2 = env.child()
                if self.bind(a["p"], v, env2):
                    if a.get("g") is not None and not self.cond(a["g"], env2):
                        continue
                    return self.eval(a["b"], env2)
            raise Panic("no match arm for %r at line %s" % (v, e["ln"]))
        if k == "block":
            if e.get("label"):
                try:
                    return self.block(e, env)
                except _Break as b:
                    if b.label == e["label"]:
                        return b.v
                    raise
            return self.block(e, env)
        if k == "assign":
            if e["l"]["k"] == "path":
                env.assign(e["l"]["p"], self.eval(e["r"], env))
                return None
            if e["l"]["k"] == "field":
                base = self.eval(e["l"]["e"], env)
                if isinstance(base, Obj):
                    base.fields[e["l"]["m"]] = self.eval(e["r"], env)
                    return None
            if e["l"]["k"] == "index":
                base = self.eval(e["l"]["e"], env)
                idx = self.eval(e["l"]["i"], env)
                if isinstance(base, (list, dict)) and isinstance(idx, int):
                    v = self.eval(e["r"], env)
                    if isinstance(base, list) and not (0 <= idx < len(base)):
                        raise Panic("index %d out of bounds (len %d) at line %s" % (idx, len(base), e["ln"]))
                    base[idx] = v
                    return None
            if e["l"]["k"] == "un" and e["l"]["op"] == "*" and e["l"]["e"]["k"] == "path":
                env.assign(e["l"]["e"]["p"], self.eval(e["r"], env))
                return None
            raise CannotEstablish("assignment target %s" % canon(e["l"]))
        if k == "bin" and e["op"] in COMPOUND:
            cur = self.eval(e["l"], env)
            new = self.binop(COMPOUND[e["op"]], cur, self.eval(e["r"], env), e)
            if e["l"]["k"] == "path":
                env.assign(e["l"]["p"], new)
                return None
            if e["l"]["k"] == "field":
                base = self.eval(e["l"]["e"], env)
                if isinstance(base, Obj):
                    base.fields[e["l"]["m"]] = new
                    return None
            if e["l"]["k"] == "un" and e["l"]["op"] == "*" and e["l"]["e"]["k"] == "path":
                env.assign(e["l"]["e"]["p"], new)
                return None
            if e["l"]["k"] == "index":
                base = self.eval(e["l"]["e"], env)
                idx = self.eval(e["l"]["i"], env)
                if isinstance(base, (list, dict)) and isinstance(idx, int):
                    base[idx] = new
                    return None
            raise CannotEstablish("compound assignment target %s" % canon(e["l"]))
        if k == "for":
            it = self.eval(e["e"], env)
            if not isinstance(it, (list, tuple)) or isinstance(it, Term):
                raise CannotEstablish("for over %r" % (it,))
            for item in list(it):
                env2 = env.child()
                if not self.bind(e["p"], item, env2):
                    raise CannotEstablish("for pattern did not match %r" % (item,))
                try:
                    self.block(e["b"], env2)
                except _Break as b:
                    if b.label in (None, e.get("label")):
                        break
                    raise
                except _Continue as c:
                    if c.label in (None, e.get("label")):
                        continue
                    raise
            return None
        if k in ("while", "loop"):
            n = 0
            while True:
                n += 1
                if n > self.max_iter:
                    raise CannotEstablish("loop at line %s exceeds the iteration bound of the abstract evaluation" % e["ln"])
                env2 = env.child()
                if k == "while" and not self.cond(e["c"], env2):
                    return None
                try:
                    self.block(e["b"], env2)
                except _Break as b:
                    if b.label in (None, e.get("label")):
                        return b.v
                    raise
                except _Continue as c:
                    if c.label in (None, e.get("label")):
                        continue
                    raise
        if k == "continue":
            raise _Continue(e.get("label"))
        if k == "call" and e["f"]["k"] == "path" and e["f"]["p"] in env:
            fv = env[e["f"]["p"]]
            if isinstance(fv, tuple) and fv and fv[0] == "closure":
                return self.call_closure(fv, [self.eval(a, env) for a in e["a"]])
            if isinstance(fv, tuple) and fv and fv[0] == "pyfunc":
                return fv[1](*[self.eval(a, env) for a in e["a"]])
        if k == "call" and self.resolver is not None and e["f"]["k"] == "path":
            pth = e["f"]["p"]
            last = pth.rsplit("::", 1)[-1]
            if pth not in self.funcs and last not in self.funcs and not last[:1].isupper():
                f = self.resolver(pth)
                if f is not None:
                    args = [self.eval(a, env) for a in e["a"]]
                    return self.inline(f, args)
        if k == "array":
            return [self.eval(x, env) for x in e["e"]]
        if k == "repeat":
            n = self.eval(e["n"], env)
            if not isinstance(n, int):
                raise CannotEstablish("array repeat count %r" % (n,))
            return [self.eval(e["e"], env) for _ in range(n)]
        if k == "range":
            lo = self.eval(e["lo"], env) if e.get("lo") is not None else 0
            hi = self.eval(e["hi"], env) if e.get("hi") is not None else None
            if isinstance(lo, int) and isinstance(hi, int):
                return list(range(lo, hi + (1 if e.get("incl") else 0)))
            return ("range", lo, hi)
        if k == "index":
            b = self.eval(e["e"], env)
            i = self.eval(e["i"], env)
            if isinstance(b, list) and isinstance(i, int):
                if not (0 <= i < len(b)):
                    raise Panic("index %d out of bounds (len %d) at line %s" % (i, len(b), e["ln"]))
                return b[i]
            if isinstance(b, list) and isinstance(i, tuple) and i and i[0] == "range":
                lo = i[1] if isinstance(i[1], int) else 0
                hi = i[2] if isinstance(i[2], int) else len(b)
                return b[lo:hi]
            if isinstance(b, list) and isinstance(i, list):
                return [b[j] for j in i]
        if k == "closure":
            return ("closure", e, env)
        if k == "paren":
            return self.eval(e["e"], env)
        if k == "macro":
            n = e["name"].rsplit("::", 1)[-1]
            if n == "vec" and n not in self.macros:
                return [self.eval(a, env) for a in e.get("a", [])]
        if k == "un" and e["op"] == "!":
            v = self.eval(e["e"], env)
            if isinstance(v, bool):
                return not v
            if isinstance(v, int):
                return ~v & 0xFFFFFFFF
            return Term("not", v)
        return super().eval(e, env)

    # ---- arithmetic --------------------------------------------------------------------------
    def binop(self, op, l, r, e):
        if isinstance(l, tuple) and isinstance(r, tuple) and not isinstance(l, Term) and not isinstance(r, Term) and len(l) == len(r) \
                and op in ("==", "!=", "<", ">", "<=", ">="):
            # derived Ord / PartialEq on tuples: lexicographic
            c = 0
            for a, b in zip(l, r):
                if self.binop("<", a, b, e):
                    c = -1
                    break
                if self.binop(">", a, b, e):
                    c = 1
                    break
            return {"==": c == 0, "!=": c != 0, "<": c < 0, ">": c > 0, "<=": c <= 0, ">=": c >= 0}[op]
        ll, rl = to_lin(l), to_lin(r)
        symbolic = (isinstance(l, (Lin, Term)) or isinstance(r, (Lin, Term))) and ll is not None and rl is not None
        if not symbolic:
            return super().binop(op, l, r, e)
        if op == "+":
            return ll.add(rl)
        if op == "-":
            return ll.add(rl, -1)
        if op == "*":
            if ll.is_const():
                return rl.scale(ll.c)
            if rl.is_const():
                return ll.scale(rl.c)
            a, b = sorted((ll, rl), key=repr)
            return Lin.atom(Term("mul", a, b))
        if op in ("==", "!=", "<", ">", "<=", ">="):
            if ll == rl:
                c = 0
            else:
                d = ll.add(rl, -1)
                if isinstance(d, int):
                    c = (d > 0) - (d < 0)
                elif self.order is None:
                    raise CannotEstablish("comparison %s between %r and %r needs an ordering oracle (line %s)" % (op, l, r, e.get("ln")))
                else:
                    c = self.order(norm(ll), norm(rl))
            return {"==": c == 0, "!=": c != 0, "<": c < 0, ">": c > 0, "<=": c <= 0, ">=": c >= 0}[op]
        if op in ("/", "%", "&", "|", "^", "<<", ">>"):
            return Lin.atom(Term({"/": "div", "%": "rem", "&": "and", "|": "or", "^": "xor", "<<": "shl", ">>": "shr"}[op], norm(ll), norm(rl)))
        raise CannotEstablish("binary %s on %r, %r (line %s)" % (op, l, r, e.get("ln")))

    def default_method(self, recv, m, args, e):
        if isinstance(recv, Variant) and recv.last in ("Ok", "Err") and m in ("is_ok", "is_err") and not args:
            return (recv.last == "Ok") == (m == "is_ok")
        if self.method_resolver is not None and isinstance(recv, Variant):
            f = self.method_resolver(recv, m)
            if f is not None:
                return self.inline(f, args, recv=recv)
        if isinstance(recv, list) and m == "filter" and len(args) == 1:
            return [x for x in recv if self.call_closure(args[0], [x]) is True]
        if isinstance(recv, list) and m in ("copied", "cloned", "by_ref", "peekable", "rev_iter") and not args:
            return recv
        if isinstance(recv, list) and m == "step_by" and len(args) == 1 and isinstance(args[0], int) and args[0] > 0:
            return recv[::args[0]]
        if isinstance(recv, list) and m == "pop" and not args:
            return recv.pop() if recv else None
        if isinstance(recv, list) and m == "extend" and len(args) == 1 and isinstance(args[0], list):
            recv.extend(args[0])
            return None
        if isinstance(recv, list) and m == "find_map" and len(args) == 1:
            for x in recv:
                v = self.call_closure(args[0], [x])
                if not (v is None or (isinstance(v, Variant) and v.last == "None")):
                    return v
            return None
        if isinstance(recv, list):
            if m in ("iter", "into_iter", "iter_mut", "as_slice", "to_vec", "clone", "collect", "copied", "cloned", "as_ref", "by_ref"):
                return recv if m not in ("to_vec", "clone") else list(recv)
            if m == "len":
                return len(recv)
            if m == "is_empty":
                return not recv
            if m == "push":
                recv.append(args[0])
                return None
            if m == "map":
                return [self.call_closure(args[0], [x]) for x in recv]
            if m == "enumerate":
                return [(i, x) for i, x in enumerate(recv)]
            if m == "rev":
                return list(reversed(recv))
            if m in ("zip", "zip_eq"):
                return list(zip(recv, args[0]))
            if m in ("first", "last"):
                return (recv[0] if m == "first" else recv[-1]) if recv else None
            if m == "get" and len(args) == 1 and isinstance(args[0], int):
                return recv[args[0]] if 0 <= args[0] < len(recv) else None
            if m in ("max", "min") and not args:
                if not recv:
                    return None
                best = recv[0]
                for x in recv[1:]:
                    c = self.binop(">" if m == "max" else "<", x, best, e)
                    if c:
                        best = x
                return best
            if m in ("find", "position") and len(args) == 1:
                for idx, x in enumerate(recv):
                    if self.truth(self.call_closure(args[0], [x]), "closure of .%s()" % m):
                        return x if m == "find" else idx
                return None
            if m in ("any", "all") and len(args) == 1:
                vals = [self.truth(self.call_closure(args[0], [x]), "closure of .%s()" % m) for x in recv]
                return any(vals) if m == "any" else all(vals)
            if m == "contains" and len(args) == 1:
                return any(x == args[0] for x in recv)
            if m == "fold":
                acc = args[0]
                for x in recv:
                    acc = self.call_closure(args[1], [acc, x])
                return acc
            if m == "sum":
                acc = 0
                for x in recv:
                    acc = self.binop("+", acc, x, e)
                return acc
        if m in ("max", "min") and len(args) == 1 and to_lin(recv) is not None and to_lin(args[0]) is not None:
            gt = self.binop(">", recv, args[0], e)
            if m == "max":
                return recv if gt else args[0]
            return args[0] if gt else recv
        if m == "map" and len(args) == 1 and not isinstance(recv, (list, Lin)) and isinstance(args[0], tuple) and args[0] and args[0][0] == "closure":
            # Option::map (Some(x) is represented by x itself)
            if recv is None or (isinstance(recv, Variant) and recv.last == "None"):
                return None
            return self.call_closure(args[0], [recv])
        if isinstance(recv, dict):
            if m == "get":
                return recv.get(args[0])
            if m == "insert":
                old = recv.get(args[0])
                recv[args[0]] = args[1]
                return old
            if m == "contains_key":
                return args[0] in recv
            if m == "len":
                return len(recv)
        if isinstance(recv, set):
            if m == "contains":
                return args[0] in recv
            if m == "insert":
                new = args[0] not in recv
                recv.add(args[0])
                return new
            if m == "len":
                return len(recv)
        if m == "map_or_else" and len(args) == 2:
            if recv is None or (isinstance(recv, Variant) and recv.last == "None"):
                return self.call_closure(args[0], [])
            return self.call_closure(args[1], [recv])
        if m == "map_or" and len(args) == 2:
            if recv is None or (isinstance(recv, Variant) and recv.last == "None"):
                return args[0]
            return self.call_closure(args[1], [recv])
        if m in ("checked_sub", "saturating_sub") and len(args) == 1 and isinstance(recv, int) and isinstance(args[0], int):
            d = recv - args[0]
            if m == "checked_sub":
                return d if d >= 0 else None
            return max(d, 0)
        if m in ("try_into", "try_from"):
            return recv
        if m == "clamp" and len(args) == 2 and all(isinstance(x, int) for x in (recv, args[0], args[1])):
            return max(args[0], min(recv, args[1]))
        if m in ("copied", "cloned") and not args and (recv is None or isinstance(recv, (int, Lin))):
            return recv
        if m in ("unwrap_or", "unwrap_or_default") and recv is not None:
            return recv
        if m == "unwrap_or" and recv is None:
            return args[0]
        return super().default_method(recv, m, args, e)


def weak_orderings(items):
    """all weak orderings (ordered set partitions) of `items`: list of dict item -> rank"""
    items = list(items)
    if not items:
        return [{}]
    out = []
    first, rest = items[0], items[1:]
    for o in weak_orderings(rest):
        nranks = (max(o.values()) + 1) if o else 0
        # tie with an existing rank
        for r in range(nranks):
            d = dict(o)
            d[first] = r
            out.append(d)
        # strictly between / below / above: insert a new rank at position p
        for p in range(nranks + 1):
            d = {k: (v + 1 if v >= p else v) for k, v in o.items()}
            d[first] = p
            out.append(d)
    return out

"""A small scanner for capy source (only what the reflection agreement rules need from core/src/*.capy):
top-level constants `name : T : literal;`, `#builtin("..")` uses with their declared type, struct
member lists, the Type_Info enum (variant, payload struct, discriminant constant), and the
if-chains `discr == X_discriminant { ... X_infos[idx] ... }`."""
import re


def strip_comments(src):
    out = []
    for line in src.splitlines():
        # no string in meta.capy contains `//` outside comments except inside quoted text; handle quotes
        res = ""
        i = 0
        inq = False
        while i < len(line):
            c = line[i]
            if c == '"' and (i == 0 or line[i - 1] != "\\"):
                inq = not inq
            if not inq and line.startswith("//", i):
                break
            res += c
            i += 1
        out.append(res)
    return "\n".join(out)


TOKEN = re.compile(r'\s*(?:("(?:[^"\\]|\\.)*")|([A-Za-z_][A-Za-z0-9_]*)|(0b[01_]+|0x[0-9a-fA-F_]+|\d[\d_]*)|(::|:=|->|=>|<<|>>|&~|==|!=|<=|>=|&&|\|\||[{}()\[\];:,.#|&~^=<>+\-*/%!?`]))')


def tokenize(src):
    src = strip_comments(src)
    pos = 0
    toks = []
    line = 1
    while pos < len(src):
        m = TOKEN.match(src, pos)
        if not m:
            if src[pos:].strip() == "":
                break
            # skip unknown char
            if src[pos] == "\n":
                line += 1
            pos += 1
            continue
        line += src[pos:m.end()].count("\n")
        if m.group(1) is not None:
            toks.append(("str", m.group(1)[1:-1], line))
        elif m.group(2) is not None:
            toks.append(("id", m.group(2), line))
        elif m.group(3) is not None:
            toks.append(("num", m.group(3), line))
        else:
            toks.append(("p", m.group(4), line))
        pos = m.end()
    return toks


def num(v):
    return int(v.replace("_", ""), 0)


class CapyFile:
    def __init__(self, text):
        self.toks = tokenize(text)
        self.consts = {}     # name -> (type, value, line)
        self.builtins = []   # (binding name, declared type tokens, builtin string, line)
        self.structs = {}    # name -> [(field, type string)]
        self.enum_variants = {}  # enum name -> [(variant, [(field,type)] or None, discriminant expr string, line)]
        self._scan()

    def _scan(self):
        t = self.toks
        i = 0
        depth = 0
        n = len(t)
        while i < n:
            k, v, ln = t[i]
            if k == "p" and v in "{([":
                depth += 1
            elif k == "p" and v in "})]":
                depth -= 1
            if depth == 0 and k == "id" and i + 1 < n and t[i + 1][1] in (":", "::"):
                j = self._binding(i)
                if j > i:
                    i = j
                    continue
            i += 1

    def _until(self, i, stops):
        """collect tokens until one of stops at depth 0; returns (tokens, index of stop)"""
        depth = 0
        out = []
        t = self.toks
        while i < len(t):
            k, v, ln = t[i]
            if k == "p" and v in "{([":
                depth += 1
            elif k == "p" and v in "})]":
                if depth == 0:
                    break
                depth -= 1
            if depth == 0 and k == "p" and v in stops:
                break
            out.append(t[i])
            i += 1
        return out, i

    def _until_binding_end(self, i):
        """value tokens of a binding: up to `;` at depth 0, or up to a closing `}` at depth 0 that is
        directly followed by the start of another binding (`name :` / `name ::`)"""
        depth = 0
        out = []
        t = self.toks
        while i < len(t):
            k, v, ln = t[i]
            if k == "p" and v in "{([":
                depth += 1
            elif k == "p" and v in "})]":
                depth -= 1
                if depth == 0 and v == "}" and i + 2 < len(t) and t[i + 1][0] == "id" and t[i + 2][1] in (":", "::"):
                    out.append(t[i])
                    return out, i
            if depth == 0 and k == "p" and v == ";":
                break
            out.append(t[i])
            i += 1
        return out, i

    def _binding(self, i):
        t = self.toks
        name = t[i][1]
        ln = t[i][2]
        i += 1
        ty = []
        if t[i][1] == "::":
            i += 1
        else:
            i += 1  # ':'
            ty, i = self._until(i, (":", "=", ";"))
            if i < len(t) and t[i][1] in (":", "="):
                i += 1
        val, j = self._until_binding_end(i)
        tystr = "".join(x[1] for x in ty)
        # builtin?
        for a in range(len(val) - 3):
            if val[a][1] == "#" and val[a + 1][1] == "builtin" and val[a + 2][1] == "(" and val[a + 3][0] == "str":
                # declared type: explicit annotation, or the lambda signature text before '#'
                sig = "".join(x[1] for x in val[:a])
                self.builtins.append((name, tystr or sig, val[a + 3][1], ln))
        if len(val) == 1 and val[0][0] == "num":
            self.consts[name] = (tystr, num(val[0][1]), ln)
        if val and val[0][1] == "struct":
            self.structs[name] = self._fields(val[1:])
        if val and val[0][1] == "enum":
            self.enum_variants[name] = self._variants(val[1:])
        return j + 1

    def _fields(self, toks):
        """toks = { f: T, g: U, }"""
        assert toks and toks[0][1] == "{", toks[:3]
        out = []
        i = 1
        depth = 0
        cur_name, cur_ty = None, []
        while i < len(toks):
            k, v, ln = toks[i]
            if k == "p" and v in "{([":
                depth += 1
            if k == "p" and v in "})]":
                if depth == 0:
                    break
                depth -= 1
            if depth == 0 and cur_name is None and k == "id" and toks[i + 1][1] == ":":
                cur_name = v
                i += 2
                continue
            if depth == 0 and k == "p" and v == ",":
                if cur_name:
                    out.append((cur_name, "".join(x[1] for x in cur_ty)))
                cur_name, cur_ty = None, []
            else:
                cur_ty.append(toks[i])
            i += 1
        if cur_name:
            out.append((cur_name, "".join(x[1] for x in cur_ty)))
        return out

    def _variants(self, toks):
        assert toks and toks[0][1] == "{"
        out = []
        i = 1
        while i < len(toks):
            k, v, ln = toks[i]
            if k == "p" and v == "}":
                break
            if k == "id":
                name = v
                i += 1
                payload = None
                if toks[i][1] == ":":
                    i += 1
                    if toks[i][1] == "struct":
                        # find matching brace
                        j = i + 1
                        depth = 0
                        while j < len(toks):
                            if toks[j][1] in "{([" and toks[j][0] == "p":
                                depth += 1
                            if toks[j][1] in "})]" and toks[j][0] == "p":
                                depth -= 1
                                if depth == 0:
                                    break
                            j += 1
                        payload = self._fields(toks[i + 1:j + 1])
                        i = j + 1
                    else:
                        ty = []
                        while toks[i][1] not in ("|", ","):
                            ty.append(toks[i][1])
                            i += 1
                        payload = [("", "".join(ty))]
                disc = None
                if toks[i][1] == "|":
                    i += 1
                    d = []
                    while toks[i][1] not in (",", "}"):
                        d.append(toks[i][1])
                        i += 1
                    disc = "".join(d)
                out.append((name, payload, disc, ln))
                if toks[i][1] == ",":
                    i += 1
                continue
            i += 1
        return out

    def function_body(self, name):
        """token list of the body `{...}` of `name :: (..) -> T { ... }`"""
        t = self.toks
        for i in range(len(t) - 2):
            if t[i] [0] == "id" and t[i][1] == name and t[i + 1][1] == "::" and t[i + 2][1] == "(":
                # find first '{' at paren depth 0 after the signature
                j = i + 2
                depth = 0
                while j < len(t):
                    if t[j][1] == "(":
                        depth += 1
                    if t[j][1] == ")":
                        depth -= 1
                    if depth == 0 and t[j][1] == "{":
                        break
                    j += 1
                k = j
                depth = 0
                while k < len(t):
                    if t[k][0] == "p" and t[k][1] == "{":
                        depth += 1
                    if t[k][0] == "p" and t[k][1] == "}":
                        depth -= 1
                        if depth == 0:
                            return t[j:k + 1]
                    k += 1
        return None

"""Rule plumbing: instances, findings, floors, known findings, evidence, replay."""
import hashlib
import json
import os
import sys
import time
import traceback

VERIF = os.path.dirname(os.path.dirname(os.path.abspath(__file__)))


class AnchorLost(Exception):
    """the construct a rule is anchored on could not be located (fail closed)"""


class Rule:
    def __init__(self, rid, text, floor, fn, decides=""):
        self.id, self.text, self.floor, self.fn, self.decides = rid, text, floor, fn, decides


class Run:
    """collects what one rule examined"""

    def __init__(self, prop, rule):
        self.prop, self.rule = prop, rule
        self.instances = []   # dicts: site, what, verdict
        self.findings = []    # dicts

    def ok(self, site, what):
        self.instances.append({"rule": self.rule.id, "site": site, "what": what, "verdict": "ok"})

    def exempt(self, site, what, reason):
        self.instances.append({"rule": self.rule.id, "site": site, "what": what, "verdict": "exempt", "reason": reason})

    def finding(self, function, descriptor, file, line, message, extra=None):
        key = "%s/%s/%s/%s" % (self.prop, self.rule.id, function, descriptor)
        # keys must be unique within a run; add ordinal if repeated
        n = sum(1 for f in self.findings if f["key"] == key or f["key"].startswith(key + "#"))
        if n:
            key = "%s#%d" % (key, n)
        site = "%s:%s" % (file, line)
        f = {"property": self.prop, "rule": self.rule.id, "key": key, "file": file, "line": line,
             "function": function, "message": message, "rule_text": self.rule.text}
        if extra:
            f.update(extra)
        self.findings.append(f)
        self.instances.append({"rule": self.rule.id, "site": site, "what": message, "verdict": "finding", "key": key})

    def check(self, cond, site, what, function, descriptor, file, line, message):
        if cond:
            self.ok(site, what)
        else:
            self.finding(function, descriptor, file, line, message)
        return cond


def load_known():
    p = os.path.join(VERIF, "known_findings.json")
    if not os.path.exists(p):
        return []
    with open(p) as fh:
        return json.load(fh)


def run_property(mod, ctx, tier, seed, replay=None):
    t0 = time.time()
    prop = mod.PROPERTY
    rules = mod.rules(ctx)
    runs = []
    for rule in rules:
        run = Run(prop, rule)
        try:
            rule.fn(ctx, run)
        except (AnchorLost, LookupError) as e:
            run.finding("<anchor>", "anchor-lost", "-", 0,
                        "anchor of %s could not be located: %s (fail closed)" % (rule.id, e))
        except Exception as e:  # a crashing rule must not pass
            tb = traceback.format_exc()
            sys.stderr.write(tb)
            run.finding("<rule>", "rule-crashed", "-", 0, "rule %s crashed: %r (fail closed)" % (rule.id, e))
        examined = len([i for i in run.instances if i["verdict"] != "exempt"])
        if examined < rule.floor and not any(f["key"].endswith("anchor-lost") or f["key"].endswith("rule-crashed") for f in run.findings):
            run.finding("<floor>", "below-floor", "-", 0,
                        "%s examined %d instances, floor is %d: the rule may be passing vacuously (anchor lost?)"
                        % (rule.id, examined, rule.floor))
        runs.append(run)

    known = [k for k in load_known() if k["property"] == prop]
    open_keys = {k["key"]: k for k in known if k.get("status") == "open"}

    violations, known_seen = [], []
    for run in runs:
        for f in run.findings:
            if f["key"] in open_keys:
                known_seen.append((f, open_keys[f["key"]]))
            else:
                violations.append(f)

    # ---- report ------------------------------------------------------------------------------
    print("== %s  tier=%s  (%s)" % (prop, tier, getattr(mod, "TITLE", "")))
    per_rule = {}
    for run in runs:
        ex = len([i for i in run.instances if i["verdict"] != "exempt"])
        okc = len([i for i in run.instances if i["verdict"] == "ok"])
        exm = len([i for i in run.instances if i["verdict"] == "exempt"])
        kn = len([f for f in run.findings if f["key"] in open_keys])
        per_rule[run.rule.id] = {"text": run.rule.text, "examined": ex, "ok": okc, "exempt": exm,
                                 "findings": len(run.findings), "known": kn, "floor": run.rule.floor}
        print("  %-7s examined=%-4d ok=%-4d exempt=%-3d findings=%d (known %d) floor=%d  %s"
              % (run.rule.id, ex, okc, exm, len(run.findings), kn, run.rule.floor, run.rule.text[:90]))
    for f, k in known_seen:
        print("KNOWN-FINDING: property=%s %s [%s] %s:%s %s" % (prop, k.get("what", f["message"]), f["key"], f["file"], f["line"], f["message"][:200]))
    rdir = os.path.join(os.environ.get("VERIF_REPLAY_DIR", os.path.join(VERIF, "replay")), prop)
    for f in violations:
        os.makedirs(rdir, exist_ok=True)
        rp = os.path.join(rdir, hashlib.sha1(f["key"].encode()).hexdigest()[:12] + ".json")
        with open(rp, "w") as fh:
            json.dump(f, fh, indent=1)
        print("  finding: %s:%s in %s — %s [%s]" % (f["file"], f["line"], f["function"], f["message"], f["key"]))
        print("VIOLATION property=%s replay=%s" % (prop, rp))

    if replay:
        want = json.load(open(replay))["key"]
        hit = [f for run in runs for f in run.findings if f["key"] == want]
        print("replay %s: %s" % (want, "still reported: " + hit[0]["message"] if hit else "no longer reported"))

    # ---- evidence ----------------------------------------------------------------------------
    insts = [i for run in runs for i in run.instances]
    nontrivial = {(i["rule"], i["site"], i["what"]) for i in insts if i["verdict"] != "exempt"}
    samples = []
    for run in runs:
        for i in run.instances[:3]:
            samples.append(i)
    for f in violations[:5]:
        samples.append({"violation": f})
    ev = {
        "property_id": prop,
        "tier": tier,
        "seed": seed,
        "level": "other",
        "coverage": {
            "explanation": mod.EXPLANATION,
            "evaluations": len(insts),
            "distinct_nontrivial": len(nontrivial),
            "rule": "one evaluation = one rule instance (a site in /repo's current source matched by a rule's "
                    "site pattern and compared against the rule's oracle); non-trivial = not an exempt/skipped "
                    "site; distinct = distinct (rule, file:line, obligation) triples",
            "samples": samples,
            "obligations": len(insts),
            "discharged": len([i for i in insts if i["verdict"] in ("ok", "exempt")]),
            "rules": per_rule,
            "functions_analysed": ctx.stats().get("functions"),
            "call_sites": ctx.stats().get("call_sites"),
            "tree_hash": ctx.tree_hash,
            "not_decided": getattr(mod, "NOT_DECIDED", []),
            "known_findings_observed": [f["key"] for f, _ in known_seen],
            "exhaustive": True,
        },
        "assumptions": getattr(mod, "ASSUMPTIONS", []),
        "wall_s": round(time.time() - t0 + ctx.build_s, 3),
        "violations": len(violations),
    }
    if hasattr(mod, "extra_evidence"):
        ev["coverage"].update(mod.extra_evidence(ctx, runs))
    if getattr(ctx, "extra_coverage", None):
        ev["coverage"].update(ctx.extra_coverage)
    evdir = os.environ.get("VERIF_EVIDENCE_DIR", os.path.join(VERIF, "evidence"))
    os.makedirs(evdir, exist_ok=True)
    with open(os.path.join(evdir, prop + ".json"), "w") as fh:
        json.dump(ev, fh, indent=1)
    return 1 if violations else 0

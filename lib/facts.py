"""Query layer over the capy-facts MIR dump (engine A)."""
import json
import os
import re
from collections import defaultdict

from build import FACT_FILES


class Call:
    __slots__ = ("fn", "bb", "t")

    def __init__(self, fn, bb, t):
        self.fn, self.bb, self.t = fn, bb, t

    @property
    def callee(self):
        return self.t.get("resolved") or self.t.get("callee") or ""

    @property
    def declared(self):
        return self.t.get("callee") or ""

    @property
    def ln(self):
        return self.t["ln"]

    @property
    def fln(self):
        return self.t.get("fln", self.t["ln"])

    @property
    def file(self):
        return self.t.get("file", self.fn.file)

    @property
    def args(self):
        return self.t["a"]

    @property
    def dest(self):
        return self.t["d"]

    @property
    def exp(self):
        return self.t.get("exp", [])

    @property
    def ga(self):
        return self.t.get("ga", "")

    def name(self):
        return short(self.callee)

    def site(self):
        return "%s:%d" % (self.file, self.ln)

    def __repr__(self):
        return "<call %s @%s bb%d>" % (self.callee, self.site(), self.bb)


def short(path):
    """last path segment without generics"""
    p = re.sub(r"<[^<>]*>", "", path)
    p = re.sub(r"<[^<>]*>", "", p)
    return p.rsplit("::", 1)[-1]


def strip_generics(path):
    prev = None
    while prev != path:
        prev = path
        path = re.sub(r"::<[^<>]*>", "", path)
    return path


class Fn:
    def __init__(self, crate, d):
        self.crate = crate
        self.d = d
        self.path = d["path"]
        self.norm = strip_generics(self.path)
        self.file = d["file"]
        self.lo, self.hi = d["lo"], d["hi"]
        self.kind = d["kind"]
        self.parent = d.get("parent")
        self.blocks = d["blocks"]
        self.locals = d["locals"]
        self.idom = d["idom"]
        self._defs = None
        self._succ = None
        self._pred = None
        self._depth = None

    def __repr__(self):
        return "<fn %s>" % self.path

    # ---- CFG -------------------------------------------------------------------------------
    @property
    def succ(self):
        if self._succ is None:
            self._succ = [list(b["t"]["t"]) for b in self.blocks]
        return self._succ

    @property
    def pred(self):
        if self._pred is None:
            p = [[] for _ in self.blocks]
            for i, ss in enumerate(self.succ):
                for s in ss:
                    p[s].append(i)
            self._pred = p
        return self._pred

    def dominates(self, a, b):
        """does block a dominate block b (rustc's dominator tree, includes unwind edges)"""
        if a == b:
            return True
        x = b
        seen = 0
        while x != -1 and seen < len(self.idom) + 1:
            x = self.idom[x]
            if x == a:
                return True
            if x == 0 and a != 0:
                return False
            seen += 1
        return False

    def reachable_from(self, start, avoid=()):
        """blocks reachable from `start` (inclusive) along normal edges without entering `avoid`"""
        avoid = set(avoid)
        seen = set()
        st = [start]
        while st:
            x = st.pop()
            if x in seen or x in avoid:
                continue
            seen.add(x)
            st.extend(self.succ[x])
        return seen

    def can_reach(self, a, b, avoid=()):
        """is there a path from the *end* of block a to the start of block b avoiding blocks"""
        avoid = set(avoid)
        seen = set()
        st = list(self.succ[a])
        while st:
            x = st.pop()
            if x in seen or x in avoid:
                continue
            if x == b:
                return True
            seen.add(x)
            st.extend(self.succ[x])
        return False

    def exits(self):
        return [i for i, b in enumerate(self.blocks) if b["t"]["k"] == "return"]

    def loops(self):
        """natural loops: list of (header, frozenset(blocks)) from back edges u->h where h dominates u"""
        out = {}
        for u, ss in enumerate(self.succ):
            if self.blocks[u].get("cleanup"):
                continue
            for h in ss:
                if self.dominates(h, u):
                    body = {h, u}
                    st = [u]
                    while st:
                        x = st.pop()
                        if x == h:
                            continue
                        for p in self.pred[x]:
                            if p not in body:
                                body.add(p)
                                st.append(p)
                    out.setdefault(h, set()).update(body)
        return [(h, frozenset(b)) for h, b in sorted(out.items())]

    def controlling_switches(self, bb, limit=6):
        """switch blocks D (nearest first) that dominate bb and from which bb is reachable through some but not all successors"""
        out = []
        x = bb
        steps = 0
        while x not in (-1, None) and steps < 200 and len(out) < limit:
            d = self.idom[x]
            if d is None or d < 0 or d == x:
                break
            t = self.blocks[d]["t"]
            if t["k"] == "switch":
                reach = [s for s in self.succ[d] if s == bb or self.can_reach(s, bb) or s == bb]
                if 0 < len(set(reach)) < len(set(self.succ[d])):
                    out.append(d)
            x = d
            steps += 1
        return out

    def innermost_loops(self):
        ls = self.loops()
        heads = {h for h, _ in ls}
        return [(h, b) for h, b in ls if not ((heads - {h}) & b)]

    def calls_in(self, blocks):
        for i in sorted(blocks):
            t = self.blocks[i]["t"]
            if t["k"] == "call" and not self.blocks[i].get("cleanup"):
                yield Call(self, i, t)

    def postdominated_by_any(self, start, targets):
        """every path from block `start` to a return passes through one of `targets` (blocks)"""
        targets = set(targets)
        seen = set()
        st = [start]
        while st:
            x = st.pop()
            if x in seen or x in targets:
                continue
            seen.add(x)
            t = self.blocks[x]["t"]
            if t["k"] == "return":
                return False
            st.extend(self.succ[x])
        return True

    # ---- calls -----------------------------------------------------------------------------
    def calls(self):
        for i, b in enumerate(self.blocks):
            if b.get("cleanup"):
                continue
            t = b["t"]
            if t["k"] == "call":
                yield Call(self, i, t)

    def calls_to(self, *names):
        """calls whose resolved callee's last segment is one of names (or full-path regex with /../)"""
        out = []
        for c in self.calls():
            cal = c.callee
            for n in names:
                if n.startswith("/"):
                    if re.search(n[1:-1], cal):
                        out.append(c)
                        break
                elif short(cal) == n:
                    out.append(c)
                    break
        return out

    def blocks_in_lines(self, lo, hi):
        """blocks that have a statement or terminator whose (callsite) line lies within [lo,hi]"""
        out = set()
        for i, b in enumerate(self.blocks):
            if b.get("cleanup"):
                continue
            t = b["t"]
            if t.get("file", self.file) == self.file and lo <= t["ln"] <= hi and t["k"] in ("call", "switch", "assert", "return"):
                out.add(i)
                continue
            for s in b["s"]:
                if s.get("file", self.file) == self.file and lo <= s["ln"] <= hi:
                    out.add(i)
                    break
        return out


    # ---- branch conditions ------------------------------------------------------------------
    def switch_operand(self, d, depth=8):
        """def-use chain of the value switch block d branches on"""
        t = self.blocks[d]["t"]
        if t["k"] != "switch":
            return None
        return self.chain_operand(t["o"], depth)

    def switch_sides(self, d, bb):
        """labels ('0','1',..,'otherwise') of the successors of switch d from which bb is reachable without passing d again (or that are bb)"""
        t = self.blocks[d]["t"]
        vals = list(t.get("vals", []))
        labels = vals + ["otherwise"] * (len(t["t"]) - len(vals))
        out = []
        for lab, s in zip(labels, t["t"]):
            if s == bb or self.can_reach(s, bb, avoid=[d]):
                out.append(lab)
        return out

    def conditions_of(self, bb, limit=8):
        """control dependence, loop-aware: [(switch block, chain of its operand, sides taken towards bb)] for the switches that dominate bb
        and decide whether bb is reached"""
        out = []
        x = bb
        steps = 0
        while x not in (-1, None) and steps < 400 and len(out) < limit:
            d = self.idom[x]
            if d is None or d < 0 or d == x:
                break
            t = self.blocks[d]["t"]
            if t["k"] == "switch":
                sides = self.switch_sides(d, bb)
                n_real = len([s for s in t["t"] if self.blocks[s]["t"]["k"] != "unreachable"])
                if 0 < len(sides) < n_real or (0 < len(sides) < len(t["t"]) and n_real == len(t["t"])):
                    out.append((d, self.switch_operand(d), sides))
            x = d
            steps += 1
        return out

    def loop_exit_edges(self, h, body):
        """edges (u, v) leaving the natural loop, ignoring cleanup and unreachable targets"""
        out = []
        for u in body:
            for v in self.succ[u]:
                if v not in body and not self.blocks[v].get("cleanup") and self.blocks[v]["t"]["k"] != "unreachable":
                    out.append((u, v))
        return out

    def field_updates(self, field):
        """read-modify-write updates of a field: [(bb, ln, op, constant or None, base chain)] for `x.field op= c`"""
        out = []
        for bi, b in enumerate(self.blocks):
            if b.get("cleanup"):
                continue
            for s in b["s"]:
                if len(s["p"]) > 1 and s["p"][-1] == "." + field:
                    ch = self.chain_rvalue(s["rv"], 6, frozenset(), s["ln"])
                    op, const = None, None
                    for n in walk_chain(ch):
                        if n.get("kind") == "bin":
                            op = n["op"].replace("WithOverflow", "")
                            for side in (n["l"], n["r"]):
                                if side.get("kind") == "scalar":
                                    const = side["value"]
                            break
                    out.append((bi, s["ln"], op, const, self.chain_place(s["p"][:-1], 8)))
        return out

    # ---- def tables ------------------------------------------------------------------------
    @property
    def defs(self):
        """local -> list of ('assign', bb, idx, stmt) | ('call', bb, term) for whole-local writes;
        partial writes (with projection) are under key (local,'partial')"""
        if self._defs is None:
            d = defaultdict(list)
            for bi, b in enumerate(self.blocks):
                for si, s in enumerate(b["s"]):
                    p = s["p"]
                    if len(p) == 1:
                        d[p[0]].append(("assign", bi, si, s))
                    else:
                        d[(p[0], "partial")].append(("assign", bi, si, s))
                t = b["t"]
                if t["k"] == "call":
                    p = t["d"]
                    if len(p) == 1:
                        d[p[0]].append(("call", bi, t))
                    else:
                        d[(p[0], "partial")].append(("call", bi, t))
            self._defs = d
        return self._defs

    def local_name(self, l):
        return self.locals[l].get("name")

    def local_ty(self, l):
        return self.locals[l]["ty"]

    def is_arg(self, l):
        return bool(self.locals[l].get("arg"))

    # ---- def-use chains --------------------------------------------------------------------
    def chain_operand(self, o, depth=10, seen=None):
        if "k" in o:
            k = o["k"]
            if "fn" in k:
                return {"kind": "fnref", "path": k["fn"]}
            if "const" in k:
                return {"kind": "const", "path": k["const"], "ty": k.get("ty")}
            if "int" in k:
                return {"kind": "scalar", "value": k["int"], "ty": k["ty"]}
            if "enum" in k:
                return {"kind": "enum", "path": k["enum"]}
            if "str" in k:
                return {"kind": "str", "value": k["str"]}
            if "zst" in k:
                return {"kind": "zst", "ty": k["zst"]}
            return {"kind": "unknown"}
        p = o.get("c") or o.get("m")
        return self.chain_place(p, depth, seen)

    def chain_place(self, p, depth=10, seen=None):
        base = self.chain_local(p[0], depth, seen)
        if len(p) == 1:
            return base
        return {"kind": "place", "base": base, "proj": p[1:]}

    def chain_local(self, l, depth=10, seen=None):
        seen = seen or frozenset()
        name = self.local_name(l)
        if self.is_arg(l):
            return {"kind": "param", "index": l, "name": name, "ty": self.local_ty(l)}
        if depth <= 0 or l in seen:
            return {"kind": "cut", "local": l, "name": name}
        ds = self.defs.get(l, [])
        seen = seen | {l}
        if not ds:
            return {"kind": "undef", "local": l, "name": name, "ty": self.local_ty(l)}
        outs = [self._chain_def(d, depth - 1, seen) for d in ds]
        if len(outs) == 1:
            r = outs[0]
            if name and isinstance(r, dict):
                r = dict(r)
                r.setdefault("var", name)
            return r
        return {"kind": "phi", "name": name, "local": l, "opts": outs}

    def _chain_def(self, d, depth, seen):
        if d[0] == "call":
            t = d[2]
            return {"kind": "call", "callee": t.get("resolved") or t.get("callee") or "",
                    "declared": t.get("callee") or "", "ga": t.get("ga", ""),
                    "args": [self.chain_operand(a, depth, seen) for a in t["a"]], "ln": t["ln"], "bb": d[1]}
        s = d[3]
        return self.chain_rvalue(s["rv"], depth, seen, s["ln"])

    def chain_rvalue(self, rv, depth, seen, ln=None):
        k = rv["k"]
        if k == "use":
            return self.chain_operand(rv["o"], depth, seen)
        if k in ("ref", "rawptr"):
            return {"kind": "ref", "mut": rv.get("mut", False), "of": self.chain_place(rv["p"], depth, seen)}
        if k == "cast":
            return {"kind": "cast", "ty": rv["ty"], "ck": rv["ck"], "of": self.chain_operand(rv["o"], depth, seen)}
        if k == "bin":
            return {"kind": "bin", "op": rv["op"], "l": self.chain_operand(rv["a"], depth, seen),
                    "r": self.chain_operand(rv["b"], depth, seen)}
        if k == "un":
            return {"kind": "un", "op": rv["op"], "of": self.chain_operand(rv["o"], depth, seen)}
        if k == "discr":
            return {"kind": "discr", "of": self.chain_place(rv["p"], depth, seen)}
        if k == "agg":
            return {"kind": "agg", "ak": rv["ak"], "path": rv["path"], "fields": rv["fields"],
                    "args": [self.chain_operand(a, depth, seen) for a in rv["o"]]}
        if k == "repeat":
            return {"kind": "repeat", "of": self.chain_operand(rv["o"], depth, seen)}
        return {"kind": "unknown", "rv": k}


def walk_chain(c):
    """yield every node of a chain tree"""
    st = [c]
    while st:
        x = st.pop()
        if isinstance(x, dict):
            yield x
            for v in x.values():
                if isinstance(v, (dict, list)):
                    st.append(v)
        elif isinstance(x, list):
            st.extend(x)


def chain_calls(c, name=None):
    """call nodes in the chain (optionally those whose callee's last segment is `name`)"""
    return [n for n in walk_chain(c) if n.get("kind") == "call" and (name is None or short(n["callee"]) == name)]


def chain_has_call(c, *names):
    return any(n.get("kind") == "call" and short(n["callee"]) in names for n in walk_chain(c))


def chain_consts(c):
    return [n["path"] for n in walk_chain(c) if n.get("kind") in ("const", "enum")]


def show_chain(c, depth=6):
    """compact one-line rendering for reports"""
    if not isinstance(c, dict):
        return str(c)
    if depth <= 0:
        return "…"
    k = c.get("kind")
    if k == "call":
        return "%s(%s)" % (short(c["callee"]), ", ".join(show_chain(a, depth - 1) for a in c["args"]))
    if k == "const":
        return short(c["path"])
    if k == "enum":
        return "::".join(c["path"].split("::")[-2:])
    if k == "scalar":
        return str(c["value"])
    if k == "str":
        return json.dumps(c["value"])
    if k == "param":
        return "<param %s>" % c.get("name")
    if k == "place":
        return show_chain(c["base"], depth - 1) + "".join(c["proj"])
    if k == "ref":
        return "&" + show_chain(c["of"], depth - 1)
    if k == "cast":
        return "(%s as %s)" % (show_chain(c["of"], depth - 1), c["ty"].rsplit("::", 1)[-1])
    if k == "bin":
        return "(%s %s %s)" % (show_chain(c["l"], depth - 1), c["op"], show_chain(c["r"], depth - 1))
    if k == "un":
        return "%s(%s)" % (c["op"], show_chain(c["of"], depth - 1))
    if k == "phi":
        return "phi[%s](%s)" % (c.get("name"), " | ".join(show_chain(o, depth - 1) for o in c["opts"][:4]))
    if k == "agg":
        return "%s{%s}" % (short(c["path"]) if c["path"] else c["ak"], ", ".join(show_chain(a, depth - 1) for a in c["args"]))
    if k == "discr":
        return "discr(%s)" % show_chain(c["of"], depth - 1)
    if k in ("cut", "undef"):
        return "<%s %s>" % (k, c.get("name") or c.get("local"))
    return "<%s>" % k


class Facts:
    def __init__(self, fdir):
        self.dir = fdir
        self.crates = {}
        self.fns = []
        self.by_path = {}
        self.by_norm = defaultdict(list)
        self.by_short = defaultdict(list)
        self.adts = {}
        for crate, fname in FACT_FILES.items():
            with open(os.path.join(fdir, fname)) as fh:
                d = json.load(fh)
            self.crates[crate] = d
            for fd in d["fns"]:
                fn = Fn(crate, fd)
                self.fns.append(fn)
                self.by_path[fn.path] = fn
                self.by_norm[fn.norm].append(fn)
                self.by_short[short(fn.norm)].append(fn)
            for a in d["adts"]:
                self.adts[a["path"]] = a
        self._closures = None
        self._cg = None
        self._impls = None

    def fn(self, suffix, crate=None):
        """the unique non-closure fn whose generics-stripped path ends with `suffix`"""
        c = self.find(suffix, crate)
        if len(c) != 1:
            raise LookupError("fn %r: %d candidates %s" % (suffix, len(c), [f.path for f in c][:5]))
        return c[0]

    def find(self, suffix, crate=None):
        out = []
        for fn in self.by_short.get(short(suffix), []):
            if fn.kind != "fn":
                continue
            if crate and fn.crate != crate:
                continue
            n = fn.norm
            if n == suffix or n.endswith("::" + suffix):
                out.append(fn)
        return out

    def closures_of(self, fn):
        if self._closures is None:
            m = defaultdict(list)
            for f in self.fns:
                if f.kind == "closure" and f.parent:
                    m[f.parent].append(f)
            self._closures = m
        return self._closures.get(fn.path, [])

    def with_closures(self, fn):
        return [fn] + self.closures_of(fn)

    def adt(self, suffix):
        c = [a for p, a in self.adts.items() if p == suffix or p.endswith("::" + suffix)]
        if len(c) != 1:
            raise LookupError("adt %r: %d candidates" % (suffix, len(c)))
        return c[0]

    # ---- call graph --------------------------------------------------------------------------
    def impls_of(self, trait_item):
        if self._impls is None:
            m = defaultdict(list)
            for f in self.fns:
                ti = f.d.get("trait_item")
                if ti:
                    m[strip_generics(ti)].append(f)
            self._impls = m
        return self._impls.get(strip_generics(trait_item), [])

    def callgraph(self):
        """fn path -> set of callee fn paths (local bodies only).  Edges: resolved direct calls;
        closures are attributed to their creator (creating a closure = may call it); function
        items used as values (fn pointers) = may call; virtual/unresolved trait calls = every
        local impl of that trait item."""
        if self._cg is not None:
            return self._cg
        cg = defaultdict(set)
        for f in self.fns:
            if f.kind == "closure" and f.parent and f.parent in self.by_path:
                cg[f.parent].add(f.path)
            for b in f.blocks:
                t = b["t"]
                if t["k"] == "call":
                    cal = t.get("resolved") or t.get("callee")
                    if cal:
                        tgt = self._local(cal)
                        if tgt:
                            for x in tgt:
                                cg[f.path].add(x.path)
                        decl = t.get("callee")
                        if (t.get("virtual") or not tgt) and decl:
                            for im in self.impls_of(decl):
                                cg[f.path].add(im.path)
                    for a in t["a"]:
                        self._fnref(f, a, cg)
                for s in b["s"]:
                    rv = s["rv"]
                    if rv["k"] == "agg" and rv["ak"] == "closure":
                        for x in self._local(rv["path"]) or []:
                            cg[f.path].add(x.path)
                    for o in self._rv_operands(rv):
                        self._fnref(f, o, cg)
        self._cg = cg
        return cg

    def _rv_operands(self, rv):
        for key in ("o", "a", "b"):
            v = rv.get(key)
            if isinstance(v, dict):
                yield v
            elif isinstance(v, list):
                for x in v:
                    yield x

    def _fnref(self, f, o, cg):
        k = o.get("k") if isinstance(o, dict) else None
        if isinstance(k, dict) and "fn" in k:
            for x in self._local(k["fn"]) or []:
                cg[f.path].add(x.path)
            for im in self.impls_of(k["fn"]):
                cg[f.path].add(im.path)

    def _local(self, path):
        if path in self.by_path:
            return [self.by_path[path]]
        return self.by_norm.get(strip_generics(path)) or None

    def reachable(self, roots):
        cg = self.callgraph()
        seen = {}
        st = [(r, None) for r in roots]
        while st:
            x, frm = st.pop()
            if x in seen:
                continue
            seen[x] = frm
            for y in cg.get(x, ()):
                if y not in seen:
                    st.append((y, x))
        return seen

    def path_to(self, reach, target):
        out = [target]
        while reach.get(out[-1]) is not None:
            out.append(reach[out[-1]])
        return list(reversed(out))

"""Structured path walker over the syn dump: typestate / pairing rules.

walk(block, state, step) enumerates the abstract paths through a block.  `step(node, state)` is
called for every *atomic* node in evaluation order (calls, method calls, macros, assignments,
compound assignments, struct literals ...) and returns the new state (or the same state).  States must
be hashable.  Control flow: if/else and match fork, `?` and let-else fork into an early exit, loops are
taken zero or one time (the state reaching the back edge is joined with the state leaving the loop),
closures are not entered.  Result: set of (exit, label, state) with exit in
{'fall','return','break','continue','panic'}.
"""
from synq import canon

ATOMIC = ("call", "mcall", "macro", "assign", "struct", "path", "lit", "field", "index")


class Walker:
    def __init__(self, step, enter_closures=False, max_states=20000):
        self.step = step
        self.enter_closures = enter_closures
        self.max_states = max_states

    def block(self, b, states):
        """states: set of state ; returns (fall_states, exits) where exits = set of (kind,label,state)"""
        exits = set()
        cur = set(states)
        for s in b["s"]:
            if not cur:
                break
            cur, ex = self.stmt(s, cur)
            exits |= ex
        return cur, exits

    def stmt(self, s, states):
        k = s["k"]
        if k == "local":
            if s.get("init") is None:
                return states, set()
            cur, ex = self.expr(s["init"], states)
            if s.get("else") is not None:
                c2, ex2 = self.expr(s["else"], cur)
                ex |= ex2
                # the else block diverges; its fall-through (if any) is ignored
            return cur, ex
        if k == "expr":
            return self.expr(s["e"], states)
        return states, set()

    def seq(self, exprs, states):
        exits = set()
        cur = states
        for e in exprs:
            if e is None or not cur:
                continue
            cur, ex = self.expr(e, cur)
            exits |= ex
        return cur, exits

    def apply(self, node, states):
        out = set()
        for st in states:
            r = self.step(node, st)
            out.add(st if r is None else r)
        if len(out) > self.max_states:
            raise RuntimeError("state explosion")
        return out

    def expr(self, e, states):
        if e is None or not isinstance(e, dict):
            return states, set()
        k = e.get("k")
        if k == "block":
            cur, ex = self.block(e, states)
            if e.get("label"):
                mine = {x for x in ex if x[0] == "break" and x[1] == e["label"]}
                ex -= mine
                cur = cur | {x[2] for x in mine}
            return cur, ex
        if k == "if":
            ct, cf, ex = self.split(e["c"], states)
            t, ex1 = self.block(e["t"], ct)
            if e.get("e") is not None:
                f, ex2 = self.expr(e["e"], cf)
            else:
                f, ex2 = cf, set()
            return t | f, ex | ex1 | ex2
        if k == "match":
            c, ex = self.expr(e["e"], states)
            out = set()
            for arm in e["arms"]:
                a = c
                if arm.get("g") is not None:
                    a, exg = self.expr(arm["g"], a)
                    ex |= exg
                r, exa = self.expr(arm["b"], a)
                out |= r
                ex |= exa
            return out, ex
        if k in ("loop", "while", "for"):
            ex = set()
            cur = states
            out_false = set()
            if k == "while":
                cur, cf0, ex0 = self.split(e["c"], cur)
                out_false |= cf0
                ex |= ex0
            if k == "for":
                cur, ex0 = self.expr(e["e"], cur)
                ex |= ex0
            body, exb = self.block(e["b"], cur)
            # second pass so that state produced by one iteration flows into the next
            again = body | {x[2] for x in exb if x[0] == "continue" and x[1] in (None, e.get("label"))}
            if k == "while":
                # the condition is evaluated again before every further iteration
                again, cf1, ex1 = self.split(e["c"], again)
                out_false |= cf1
                ex |= ex1
            body2, exb2 = self.block(e["b"], again)
            exb |= exb2
            body |= body2
            label = e.get("label")
            brk = {x for x in exb if x[0] == "break" and x[1] in (None, label)}
            cont = {x for x in exb if x[0] == "continue" and x[1] in (None, label)}
            rest = exb - brk - cont
            after = {x[2] for x in brk}
            if k == "while":
                # the loop is left after the condition was evaluated (and found false)
                after |= out_false
            elif k != "loop":
                after |= cur | body | {x[2] for x in cont}
            return after, ex | rest
        if k == "return":
            cur, ex = self.expr(e.get("e"), states)
            return set(), ex | {("return", None, st) for st in cur}
        if k == "break":
            cur, ex = self.expr(e.get("e"), states)
            return set(), ex | {("break", e.get("label"), st) for st in cur}
        if k == "continue":
            return set(), {("continue", e.get("label"), st) for st in states}
        if k == "try":
            cur, ex = self.expr(e["e"], states)
            return cur, ex | {("return", "?", st) for st in cur}
        if k == "closure":
            if self.enter_closures:
                cur, ex = self.expr(e["b"], states)
                return states | cur, set()
            return states, set()
        if k == "macro":
            n = e["name"].rsplit("::", 1)[-1]
            cur, ex = self.seq(e.get("a") or [], states) if isinstance(e.get("a"), list) else (states, set())
            cur = self.apply(e, cur)
            if n in ("unreachable", "panic", "todo", "unimplemented"):
                return set(), ex | {("panic", n, st) for st in cur}
            return cur, ex
        if k == "call":
            cur, ex = self.seq([e["f"]] + e["a"], states)
            return self.apply(e, cur), ex
        if k == "mcall":
            cur, ex = self.seq([e["r"]] + e["a"], states)
            return self.apply(e, cur), ex
        if k == "assign":
            cur, ex = self.seq([e["r"]], states)
            return self.apply(e, cur), ex
        if k == "bin":
            if e["op"] in ("&&", "||"):
                l, ex = self.expr(e["l"], states)
                r, ex2 = self.expr(e["r"], l)
                return l | r, ex | ex2
            cur, ex = self.seq([e["l"], e["r"]], states)
            if e["op"].endswith("=") and e["op"] not in ("==", "!=", "<=", ">="):
                cur = self.apply(e, cur)
            return cur, ex
        if k == "let":
            cur, ex = self.expr(e["e"], states)
            return cur, ex
        if k == "struct":
            cur, ex = self.seq([f[1] for f in e["f"]] + [e.get("rest")], states)
            return self.apply(e, cur), ex
        if k in ("un", "ref", "cast", "field"):
            cur, ex = self.expr(e["e"], states)
            if k == "field":
                cur = self.apply(e, cur)
            return cur, ex
        if k == "index":
            return self.seq([e["e"], e["i"]], states)
        if k in ("tuple", "array"):
            return self.seq(e["e"], states)
        if k == "repeat":
            return self.seq([e["e"], e["n"]], states)
        if k == "range":
            return self.seq([e.get("lo"), e.get("hi")], states)
        if k == "path":
            return self.apply(e, states), set()
        return states, set()

    def cond(self, c, states):
        return self.expr(c, states)

    def split(self, c, states):
        """states when the condition holds / does not hold: in `a && b` the then-side has evaluated both operands"""
        if isinstance(c, dict) and c.get("k") == "bin" and c.get("op") in ("&&", "||"):
            ta, fa, ex = self.split(c["l"], states)
            if c["op"] == "&&":
                tb, fb, ex2 = self.split(c["r"], ta)
                return tb, fa | fb, ex | ex2
            tb, fb, ex2 = self.split(c["r"], fa)
            return ta | tb, fb, ex | ex2
        if isinstance(c, dict) and c.get("k") == "un" and c.get("op") == "!":
            t, f, ex = self.split(c["e"], states)
            return f, t, ex
        if isinstance(c, dict) and c.get("k") == "paren":
            return self.split(c["e"], states)
        cur, ex = self.expr(c, states)
        return cur, cur, ex


def run(block, init, step, enter_closures=False):
    w = Walker(step, enter_closures)
    fall, exits = w.block(block, {init})
    return fall, exits

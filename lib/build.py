"""Build / refresh the two fact bases from the *current* working tree of the repo.

engine A: capy-facts (rustc_private driver)  -> build/facts[-<tag>]/<crate>.json
engine B: capy-syn   (syn dumper)            -> build/syn[-<tag>].json

Both are keyed by a content hash of the analysed tree; a fact base is reused only when the hash of
the tree it was built from equals the hash of the tree now (so every check run analyses /repo as it
is at that moment).  A lock file serialises concurrent builders.
"""
import fcntl
import glob
import hashlib
import json
import os
import shutil
import subprocess
import sys
import time

VERIF = os.path.dirname(os.path.dirname(os.path.abspath(__file__)))
BUILD = os.path.join(VERIF, "build")
REPO = os.environ.get("CAPY_REPO", "/repo")

WORKSPACE_CRATES = [
    "ast", "capy", "capy_macros", "codegen", "debug", "diagnostics", "hir", "hir_ty", "interner",
    "lexer", "line_index", "parser", "syntax", "test_utils", "token", "topo", "uid_gen",
]
# fact file name per crate (capy is a binary crate)
FACT_FILES = {c: (c + ("-bin" if c == "capy" else "") + ".json") for c in WORKSPACE_CRATES}


def log(msg):
    print("[build] " + msg, file=sys.stderr, flush=True)


def tree_files(repo):
    out = []
    for pat in ("crates/*/Cargo.toml", "Cargo.toml", "Cargo.lock", "tokenizer.txt", "rust-toolchain.toml"):
        out += glob.glob(os.path.join(repo, pat))
    for root in ("crates", "core"):
        for d, dirs, files in os.walk(os.path.join(repo, root)):
            dirs[:] = [x for x in dirs if x not in ("target", ".git")]
            for f in files:
                if f.endswith((".rs", ".capy", ".txt", ".toml")):
                    out.append(os.path.join(d, f))
    return sorted(set(out))


def tree_hash(repo=None):
    repo = repo or REPO
    h = hashlib.sha256()
    for f in tree_files(repo):
        h.update(os.path.relpath(f, repo).encode())
        h.update(b"\0")
        with open(f, "rb") as fh:
            h.update(hashlib.sha256(fh.read()).digest())
    return h.hexdigest()


def rust_sources(repo=None):
    """non-test rust sources of the workspace crates (test modules inside files are kept; the
    rules skip `#[cfg(test)]` modules themselves)"""
    repo = repo or REPO
    out = []
    for d, dirs, files in os.walk(os.path.join(repo, "crates")):
        dirs[:] = [x for x in dirs if x not in ("target", "tests", "fuzz")]
        for f in files:
            if f.endswith(".rs") and f != "tests.rs":
                out.append(os.path.join(d, f))
    return sorted(out)


class Lock:
    def __init__(self, name):
        os.makedirs(BUILD, exist_ok=True)
        self.path = os.path.join(BUILD, name + ".lock")

    def __enter__(self):
        self.fh = open(self.path, "w")
        fcntl.flock(self.fh, fcntl.LOCK_EX)
        return self

    def __exit__(self, *a):
        fcntl.flock(self.fh, fcntl.LOCK_UN)
        self.fh.close()


def nightly_sysroot():
    return subprocess.check_output(["rustc", "+nightly", "--print", "sysroot"], text=True).strip()


def ensure_tools():
    """build the two engines if their binaries are missing or older than their sources"""
    with Lock("tools"):
        for name, tgt in (("capy-syn", "syn-target"), ("capy-facts", "facts-target")):
            src = os.path.join(VERIF, "engines", name, "src", "main.rs")
            binp = os.path.join(BUILD, tgt, "release", name)
            if os.path.exists(binp) and os.path.getmtime(binp) >= os.path.getmtime(src):
                continue
            log("building engine %s" % name)
            env = dict(os.environ, CARGO_TARGET_DIR=os.path.join(BUILD, tgt), CARGO_NET_OFFLINE="true")
            env.pop("RUSTC_WORKSPACE_WRAPPER", None)
            env.pop("RUSTFLAGS", None)
            r = subprocess.run(["cargo", "build", "--release", "--offline"],
                               cwd=os.path.join(VERIF, "engines", name), env=env,
                               stdout=subprocess.PIPE, stderr=subprocess.STDOUT, text=True)
            if r.returncode != 0:
                sys.stderr.write(r.stdout)
                raise SystemExit("engine build failed: " + name)
    return (os.path.join(BUILD, "syn-target", "release", "capy-syn"),
            os.path.join(BUILD, "facts-target", "release", "capy-facts"))


def tag_for(repo):
    return "" if os.path.realpath(repo) == "/repo" else "-" + hashlib.sha1(os.path.realpath(repo).encode()).hexdigest()[:10]


def ensure_syn(repo=None):
    repo = repo or REPO
    synbin, _ = ensure_tools()
    out = os.path.join(BUILD, "syn%s.json" % tag_for(repo))
    stamp = out + ".stamp"
    with Lock("syn" + tag_for(repo)):
        th = tree_hash(repo)
        if os.path.exists(out) and os.path.exists(stamp) and open(stamp).read() == th:
            return out, th
        files = rust_sources(repo)
        r = subprocess.run([synbin, out] + files, stdout=subprocess.PIPE, stderr=subprocess.PIPE, text=True)
        if r.returncode != 0:
            sys.stderr.write(r.stderr)
            raise SystemExit("capy-syn failed (source does not parse?)")
        open(stamp, "w").write(th)
    return out, th


def ensure_facts(repo=None):
    """run the driver over the workspace unless facts for exactly this tree already exist"""
    repo = repo or REPO
    _, drv = ensure_tools()
    tag = tag_for(repo)
    fdir = os.path.join(BUILD, "facts" + tag)
    stamp = os.path.join(fdir, "STAMP")
    with Lock("facts"):
        th = tree_hash(repo)
        if os.path.exists(stamp) and open(stamp).read() == th and all(
                os.path.exists(os.path.join(fdir, f)) for f in FACT_FILES.values()):
            return fdir, th
        t0 = time.time()
        if os.path.isdir(fdir):
            shutil.rmtree(fdir)
        os.makedirs(fdir)
        target = os.path.join(BUILD, "nightly-target")
        # cargo's freshness cache would skip the wrapper for unchanged members: drop the members'
        # fingerprints (dependencies stay cached)
        fp = os.path.join(target, "debug", ".fingerprint")
        if os.path.isdir(fp):
            for d in os.listdir(fp):
                base = d.rsplit("-", 1)[0]
                if base.replace("-", "_") in WORKSPACE_CRATES:
                    shutil.rmtree(os.path.join(fp, d), ignore_errors=True)
        env = dict(os.environ)
        env.update({
            "LD_LIBRARY_PATH": os.path.join(nightly_sysroot(), "lib"),
            "RUSTFLAGS": "-Zmir-opt-level=0 -Awarnings",
            "RUSTC_WORKSPACE_WRAPPER": drv,
            "CAPY_FACTS_DIR": fdir,
            "CAPY_FACTS_ROOT": os.path.realpath(repo),
            "CARGO_TARGET_DIR": target,
            "CARGO_NET_OFFLINE": "true",
        })
        log("running capy-facts over %s (cargo +nightly check --workspace)" % repo)
        r = subprocess.run(["cargo", "+nightly", "check", "--offline", "--workspace"], cwd=repo, env=env,
                           stdout=subprocess.PIPE, stderr=subprocess.STDOUT, text=True)
        if r.returncode != 0:
            sys.stderr.write(r.stdout[-6000:])
            raise SystemExit("cargo check under the driver failed: the tree does not type-check")
        missing = [f for f in FACT_FILES.values() if not os.path.exists(os.path.join(fdir, f))]
        if missing:
            raise SystemExit("driver produced no facts for: %s (fail closed)" % missing)
        if tree_hash(repo) != th:
            raise SystemExit("tree changed while facts were being built; rerun")
        open(stamp, "w").write(th)
        log("facts built in %.1fs" % (time.time() - t0))
    return fdir, th


if __name__ == "__main__":
    ensure_tools()
    if len(sys.argv) > 1 and sys.argv[1] == "all":
        print(ensure_syn())
        print(ensure_facts())

"""Two-way validation of the rules (thorough tier): stored single-site mutants of /repo must be reported.

A mutant is a unified diff under /verif/mutants/<prop>/<name>.diff with a sidecar <name>.json
{"expect": "<substring of a finding key>", "what": "..."}.  Each is applied to a scratch copy of /repo's
current working tree (outside /repo and /verif, removed afterwards together with its fact files) and
the property's quick check is run on the copy.  Nothing of capy is executed: the check of the mutated
copy is the same static analysis.  A mutant that is not reported is a SELFTEST-MISS (recorded in the
evidence; it is not a violation of the property on /repo).  Mutants whose diff no longer applies are
recorded as stale.
"""
import glob
import hashlib
import json
import os
import shutil
import subprocess
import sys
import tempfile

VERIF = os.path.dirname(os.path.dirname(os.path.abspath(__file__)))


def copy_repo(dst):
    src = os.environ.get("CAPY_REPO", "/repo")
    subprocess.check_call(["rsync", "-a", "--exclude", "target", "--exclude", ".git", "--exclude", "out", src + "/", dst + "/"])


def cleanup(tmp):
    tag = "-" + hashlib.sha1(os.path.realpath(tmp).encode()).hexdigest()[:10]
    shutil.rmtree(tmp, ignore_errors=True)
    b = os.path.join(VERIF, "build")
    shutil.rmtree(os.path.join(b, "facts" + tag), ignore_errors=True)
    for f in glob.glob(os.path.join(b, "syn%s.json*" % tag)) + glob.glob(os.path.join(b, "syn%s.lock" % tag)):
        try:
            os.remove(f)
        except OSError:
            pass


def run_one(prop, diff, expect, benign=False):
    tmp = tempfile.mkdtemp(prefix="capy-mut-", dir="/tmp")
    evd = tempfile.mkdtemp(prefix="capy-mut-ev-", dir="/tmp")
    try:
        copy_repo(tmp)
        r = subprocess.run(["git", "apply", "--unsafe-paths", "--directory", tmp, diff], cwd="/", stdout=subprocess.PIPE, stderr=subprocess.STDOUT, text=True)
        if r.returncode != 0:
            r = subprocess.run(["patch", "-p1", "-s", "-d", tmp, "-i", diff], stdout=subprocess.PIPE, stderr=subprocess.STDOUT, text=True)
            if r.returncode != 0:
                return "stale", r.stdout[-300:]
        env = dict(os.environ, CAPY_REPO=tmp, VERIF_EVIDENCE_DIR=evd, VERIF_REPLAY_DIR=os.path.join(evd, "replay"), VERIF_TIER="quick")
        r = subprocess.run([sys.executable, os.path.join(VERIF, "check"), prop, "--tier", "quick"], env=env, stdout=subprocess.PIPE, stderr=subprocess.STDOUT, text=True)
        out = r.stdout
        if benign:
            # behaviour-preserving rewrite: the rules must stay silent
            if r.returncode == 0:
                return "silent-ok", ""
            return "false-alarm", "\n".join(l for l in out.splitlines() if "finding:" in l)[:600]
        exps = expect if isinstance(expect, (list, tuple)) else [expect]
        hit = [l for l in out.splitlines() if "finding:" in l and any(x in l for x in exps)]
        if r.returncode == 1 and hit:
            return "detected", hit[0].strip()[:300]
        if r.returncode not in (0, 1):
            return "error", out[-400:]
        return "missed", "\n".join(l for l in out.splitlines() if "finding:" in l)[:400]
    finally:
        cleanup(tmp)
        shutil.rmtree(evd, ignore_errors=True)


def run_mutants(prop):
    d = os.path.join(VERIF, "mutants", prop)
    results = []
    for diff in sorted(glob.glob(os.path.join(d, "*.diff"))):
        meta = {}
        side = diff[:-5] + ".json"
        if os.path.exists(side):
            meta = json.load(open(side))
        status, detail = run_one(prop, diff, meta.get("expect", ""), bool(meta.get("benign")))
        results.append({"mutant": os.path.relpath(diff, VERIF), "expect": meta.get("expect"), "what": meta.get("what"), "status": status, "detail": detail})
        print("  mutant %-40s %s" % (os.path.basename(diff), status), flush=True)
        if status not in ("detected", "silent-ok"):
            print("    " + detail.replace("\n", "\n    "))
    # the kept seeded changes of this property (written by sub-agents that saw only the property text; each confirmed to compile, pass the
    # repository's tests and change behaviour): every one must be reported
    for sd in sorted(glob.glob(os.path.join(VERIF, "seeded", prop + "-*"))):
        diff = os.path.join(sd, "patch.diff")
        if not os.path.exists(diff):
            continue
        meta = json.load(open(os.path.join(sd, "meta.json"))) if os.path.exists(os.path.join(sd, "meta.json")) else {}
        status, detail = run_one(prop, diff, meta.get("expect_key", ""))
        results.append({"mutant": os.path.relpath(diff, VERIF), "expect": meta.get("expect_key", "(any finding)"), "what": meta.get("breaks"), "status": status, "detail": detail})
        print("  seeded %-40s %s" % (os.path.basename(sd), status), flush=True)
        if status != "detected":
            print("    " + detail.replace("\n", "\n    "))
    return results

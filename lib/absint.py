"""Abstract evaluation of small *selection functions* of the compiler over a finite abstract domain.

The compiler decides which Cranelift instruction / constant / diagnostic to use in small pure
functions built from `if`, `match`, `let`, comparisons and builder calls.  This module walks the
syntax tree of such a function (engine B dump) with every input drawn from a finite abstract
domain (e.g. float?, signed?, bit width) and returns, per input, the *term* the function would
build (`fcvt_from_sint(F32, ireduce(I32, val))`), i.e. the leaves of its decision tree.  Nothing of
capy is executed; unknown constructs raise CannotEstablish and the calling rule fails closed.
"""
from synq import canon, or_alternatives


class CannotEstablish(Exception):
    pass


class Panic(Exception):
    def __init__(self, what):
        self.what = what


class _Return(Exception):
    def __init__(self, v):
        self.v = v


class _Break(Exception):
    def __init__(self, label, v):
        self.label, self.v = label, v


class Obj:
    """symbolic record with known fields"""

    def __init__(self, name, /, **fields):
        self.name = name
        self.fields = fields

    def __repr__(self):
        return "%s{%s}" % (self.name, ",".join("%s=%r" % kv for kv in sorted(self.fields.items())))


class Term(tuple):
    """an opaque built term: (op, args...)"""

    def __new__(cls, op, *args):
        return tuple.__new__(cls, (op,) + args)

    @property
    def op(self):
        return self[0]

    @property
    def args(self):
        return self[1:]

    def __repr__(self):
        return "%s(%s)" % (self[0], ", ".join(repr(a) for a in self[1:]))


class Variant:
    """enum value: path + payload"""

    def __init__(self, path, payload=None):
        self.path = path
        self.payload = payload or {}

    @property
    def last(self):
        return self.path.rsplit("::", 1)[-1]

    def __eq__(self, o):
        return isinstance(o, Variant) and o.last == self.last and o.payload == self.payload

    def __hash__(self):
        return hash(self.last)

    def __repr__(self):
        if self.payload:
            return "%s%r" % (self.last, self.payload)
        return self.last


ORD = {-1: Variant("Ordering::Less"), 0: Variant("Ordering::Equal"), 1: Variant("Ordering::Greater")}


class Interp:
    def __init__(self, methods=None, funcs=None, consts=None, macros=None, fields=None):
        self.methods = methods or {}   # name -> f(interp, recv, args)
        self.funcs = funcs or {}       # path last seg or full -> f(interp, args)
        self.consts = consts or {}     # path -> value
        self.macros = macros or {}
        self.fields = fields or {}
        self.trace = []

    # ---- entry -----------------------------------------------------------------------------
    def run_fn(self, synfn, env):
        try:
            return self.block(synfn.body, dict(env))
        except _Return as r:
            return r.v

    def block(self, b, env):
        v = None
        env = dict(env)
        for s in b["s"]:
            v = self.stmt(s, env)
        return v

    def stmt(self, s, env):
        k = s["k"]
        if k == "local":
            if s.get("init") is None:
                v = None
            else:
                v = self.eval(s["init"], env)
            if not self.bind(s["p"], v, env):
                if s.get("else") is not None:
                    self.eval(s["else"], env)
                    raise CannotEstablish("let-else fell through at line %s" % s["ln"])
                raise CannotEstablish("refutable let without else, line %s" % s["ln"])
            return None
        if k == "expr":
            v = self.eval(s["e"], env)
            return None if s.get("semi") else v
        if k in ("fn", "use", "const", "struct_def", "enum", "impl", "item_macro"):
            return None
        raise CannotEstablish("statement kind %s" % k)

    # ---- patterns --------------------------------------------------------------------------
    def bind(self, p, v, env):
        k = p["k"]
        if k == "p_wild":
            return True
        if k == "p_ident":
            n = p["n"]
            if n[:1].isupper() and not p.get("sub"):
                if n == "None":
                    return v is None or (isinstance(v, Variant) and v.last == "None")
                if v is None:
                    return False
                if not isinstance(v, Variant):
                    raise CannotEstablish("unit-variant pattern %s against %r" % (n, v))
                return v.last == n
            if p.get("sub") and not self.bind(p["sub"], v, env):
                return False
            env[n] = v
            return True
        if k == "p_path":
            last = p["p"].rsplit("::", 1)[-1]
            if last == "None" and (v is None or isinstance(v, Variant)):
                return v is None or v.last == "None"
            if p["p"] in self.consts:
                return v == self.consts[p["p"]]
            from synq import int_value
            iv = int_value({"k": "path", "p": p["p"]})
            if iv is not None and isinstance(v, int):
                return v == iv
            if isinstance(v, Variant):
                return v.last == last
            if isinstance(v, bool):
                return False
            raise CannotEstablish("path pattern %s against %r" % (p["p"], v))
        if k == "p_lit":
            lit = p["v"]
            if lit in ("true", "false"):
                if not isinstance(v, bool):
                    raise CannotEstablish("bool pattern against %r" % (v,))
                return v == (lit == "true")
            try:
                iv = int(lit.replace("_", ""), 0)
            except ValueError:
                if lit.startswith('"'):
                    return v == lit[1:-1]
                if lit.startswith("'"):
                    return v == lit[1:-1]
                raise CannotEstablish("literal pattern %s" % lit)
            if not isinstance(v, int):
                raise CannotEstablish("int pattern %s against %r" % (lit, v))
            return v == iv
        if k == "p_tuple":
            if not isinstance(v, tuple) or isinstance(v, Term) or len(v) != len(p["e"]):
                raise CannotEstablish("tuple pattern against %r" % (v,))
            return all(self.bind(pe, ve, env) for pe, ve in zip(p["e"], v))
        if k == "p_or":
            for c in p["c"]:
                e2 = dict(env)
                if self.bind(c, v, e2):
                    env.update(e2)
                    return True
            return False
        if k == "p_ref":
            return self.bind(p["e"], v, env)
        if k == "p_ts":
            last = p["p"].rsplit("::", 1)[-1]
            if last == "Some":
                if v is None:
                    return False
                if isinstance(v, Variant) and v.last == "None":
                    return False
                if isinstance(v, Variant) and v.last == "Some":
                    return self.bind(p["e"][0], v.payload.get("0"), env)
                return self.bind(p["e"][0], v, env)
            if isinstance(v, Variant):
                if v.last != last:
                    return False
                for i, pe in enumerate(p["e"]):
                    if pe["k"] == "p_rest":
                        break
                    if not self.bind(pe, v.payload.get(str(i)), env):
                        return False
                return True
            raise CannotEstablish("tuple-struct pattern %s against %r" % (p["p"], v))
        if k == "p_struct":
            last = p["p"].rsplit("::", 1)[-1]
            if isinstance(v, Variant):
                if v.last != last:
                    return False
                for name, fp in p["f"]:
                    if not self.bind(fp, v.payload.get(name), env):
                        return False
                return True
            if isinstance(v, Obj):
                for name, fp in p["f"]:
                    if not self.bind(fp, v.fields.get(name), env):
                        return False
                return True
            raise CannotEstablish("struct pattern %s against %r" % (p["p"], v))
        if k == "p_range":
            txt = p["v"]
            if "..=" in txt:
                lo, hi = txt.split("..=")
                return int(lo or 0) <= v <= int(hi)
            raise CannotEstablish("range pattern %s" % txt)
        raise CannotEstablish("pattern kind %s" % k)

    # ---- expressions -----------------------------------------------------------------------
    def truth(self, v, what):
        if isinstance(v, bool):
            return v
        raise CannotEstablish("condition is not decided by the abstract input: %s = %r" % (what, v))

    def eval(self, e, env):
        k = e["k"]
        if k == "lit":
            t = e["t"]
            if t == "int":
                from synq import int_value
                return int_value(e)
            if t == "bool":
                return e["v"] == "true"
            if t in ("str", "char"):
                return e["v"]
            if t == "float":
                return float(e["v"].rstrip("f3264_"))
            return e["v"]
        if k == "path":
            p = e["p"]
            if p in env:
                return env[p]
            if p in self.consts:
                return self.consts[p]
            last = p.rsplit("::", 1)[-1]
            from synq import int_value
            iv = int_value(e)
            if iv is not None:
                return iv
            if "::" in p or last[:1].isupper():
                return Variant(p)
            raise CannotEstablish("unbound name %s" % p)
        if k == "field":
            b = self.eval(e["e"], env)
            m = e["m"]
            if isinstance(b, Obj):
                if m in b.fields:
                    return b.fields[m]
                raise CannotEstablish("field %s of %r not modelled" % (m, b))
            if isinstance(b, tuple) and not isinstance(b, Term) and m.isdigit():
                return b[int(m)]
            if isinstance(b, Variant) and m in b.payload:
                return b.payload[m]
            if m in self.fields:
                return self.fields[m](self, b)
            raise CannotEstablish("field %s of %r" % (m, b))
        if k == "mcall":
            recv = self.eval(e["r"], env)
            args = [self.eval(a, env) for a in e["a"]]
            m = e["m"]
            if m in self.methods:
                r = self.methods[m](self, recv, args)
                if r is not NotImplemented:
                    return r
            return self.default_method(recv, m, args, e)
        if k == "call":
            f = e["f"]
            args = [self.eval(a, env) for a in e["a"]]
            if f["k"] == "path":
                p = f["p"]
                last = p.rsplit("::", 1)[-1]
                if p in self.funcs:
                    return self.funcs[p](self, args)
                if last in self.funcs:
                    return self.funcs[last](self, args)
                if last == "Some":
                    return args[0]
                if last[:1].isupper():
                    return Variant(p, {str(i): a for i, a in enumerate(args)})
                raise CannotEstablish("call to %s not modelled" % p)
            raise CannotEstablish("indirect call")
        if k == "bin":
            op = e["op"]
            if op == "&&":
                l = self.truth(self.eval(e["l"], env), canon(e["l"]))
                if not l:
                    return False
                return self.truth(self.eval(e["r"], env), canon(e["r"]))
            if op == "||":
                l = self.truth(self.eval(e["l"], env), canon(e["l"]))
                if l:
                    return True
                return self.truth(self.eval(e["r"], env), canon(e["r"]))
            l, r = self.eval(e["l"], env), self.eval(e["r"], env)
            return self.binop(op, l, r, e)
        if k == "un":
            v = self.eval(e["e"], env)
            if e["op"] == "!":
                if isinstance(v, bool):
                    return not v
                raise CannotEstablish("! of %r" % (v,))
            if e["op"] == "-":
                if isinstance(v, (int, float)):
                    return -v
                return Term("neg", v)
            if e["op"] == "*":
                return v
            raise CannotEstablish("unary %s" % e["op"])
        if k == "ref":
            return self.eval(e["e"], env)
        if k == "cast":
            v = self.eval(e["e"], env)
            if isinstance(v, bool):
                v = int(v)
            if isinstance(v, int):
                bits = {"u8": 8, "u16": 16, "u32": 32, "u64": 64, "u128": 128, "usize": 64}
                sb = {"i8": 8, "i16": 16, "i32": 32, "i64": 64, "i128": 128, "isize": 64}
                t = e["ty"]
                if t in bits:
                    return v & ((1 << bits[t]) - 1)
                if t in sb:
                    b = sb[t]
                    v &= (1 << b) - 1
                    return v - (1 << b) if v >> (b - 1) else v
                if t in ("f32", "f64"):
                    return float(v)
            return Term("as_" + e["ty"], v)
        if k == "if":
            c = e["c"]
            env2 = dict(env)
            if self.cond(c, env2):
                return self.block(e["t"], env2)
            if e.get("e") is not None:
                return self.eval(e["e"], env)
            return None
        if k == "match":
            v = self.eval(e["e"], env)
            for a in e["arms"]:
                env2 = dict(env)
                if self.bind(a["p"], v, env2):
                    if a.get("g") is not None and not self.cond(a["g"], env2):
                        continue
                    return self.eval(a["b"], env2)
            raise Panic("no match arm for %r at line %s" % (v, e["ln"]))
        if k == "block":
            if e.get("label"):
                try:
                    return self.block(e, env)
                except _Break as b:
                    if b.label == e["label"]:
                        return b.v
                    raise
            return self.block(e, env)
        if k == "tuple":
            return tuple(self.eval(x, env) for x in e["e"])
        if k == "return":
            raise _Return(self.eval(e["e"], env) if e.get("e") else None)
        if k == "break":
            raise _Break(e.get("label"), self.eval(e["e"], env) if e.get("e") else None)
        if k == "macro":
            n = e["name"].rsplit("::", 1)[-1]
            if n in self.macros:
                return self.macros[n](self, e, env)
            if n in ("unreachable", "todo", "unimplemented", "panic"):
                raise Panic("%s!() at line %s" % (n, e["ln"]))
            if n == "matches":
                v = self.eval(e["e"], env)
                env2 = dict(env)
                if self.bind(e["p"], v, env2):
                    if e.get("g") is not None:
                        return self.cond(e["g"], env2)
                    return True
                return False
            if n in ("assert", "debug_assert", "assert_eq", "debug_assert_eq", "debug", "println", "eprintln"):
                return None
            raise CannotEstablish("macro %s!" % n)
        if k == "struct":
            return Obj(e["p"], **{f[0]: self.eval(f[1], env) for f in e["f"]})
        if k == "try":
            return self.eval(e["e"], env)
        if k == "closure":
            return ("closure", e, env)
        if k == "let":
            raise CannotEstablish("let outside condition")
        if k == "assign":
            if e["l"]["k"] == "path":
                # assignment to a local: rebind in env (caller's env is shared only inside a block)
                env[e["l"]["p"]] = self.eval(e["r"], env)
                return None
            raise CannotEstablish("assignment to non-local")
        if k == "index":
            b = self.eval(e["e"], env)
            i = self.eval(e["i"], env)
            if isinstance(b, (list, tuple, dict)) and not isinstance(b, Term):
                return b[i]
            return Term("index", b, i)
        raise CannotEstablish("expression kind %s at line %s" % (k, e.get("ln")))

    def cond(self, c, env):
        """evaluate a condition, supporting `let` chains; binds into env"""
        if c["k"] == "let":
            v = self.eval(c["e"], env)
            return self.bind(c["p"], v, env)
        if c["k"] == "bin" and c["op"] == "&&":
            return self.cond(c["l"], env) and self.cond(c["r"], env)
        return self.truth(self.eval(c, env), canon(c))

    def binop(self, op, l, r, e):
        num = (int, float)
        if isinstance(l, bool) and isinstance(r, bool) and op in ("==", "!=", "&", "|", "^"):
            return {"==": l == r, "!=": l != r, "&": l and r, "|": l or r, "^": l != r}[op]
        if isinstance(l, num) and isinstance(r, num) and not isinstance(l, bool) and not isinstance(r, bool):
            if op in ("==", "!=", "<", ">", "<=", ">="):
                return {"==": l == r, "!=": l != r, "<": l < r, ">": l > r, "<=": l <= r, ">=": l >= r}[op]
            if op == "/":
                return l // r if isinstance(l, int) and isinstance(r, int) else l / r
            return {"+": lambda: l + r, "-": lambda: l - r, "*": lambda: l * r, "<<": lambda: l << r,
                    ">>": lambda: l >> r, "|": lambda: l | r, "&": lambda: l & r, "%": lambda: l % r,
                    "^": lambda: l ^ r}[op]()
        if op in ("==", "!="):
            if isinstance(l, (Variant, str)) and isinstance(r, (Variant, str)):
                return (l == r) == (op == "==")
            if isinstance(l, Term) and isinstance(r, Term) and l == r:
                return op == "=="
        raise CannotEstablish("binary %s on %r, %r (line %s)" % (op, l, r, e.get("ln")))

    def default_method(self, recv, m, args, e):
        if m == "cmp":
            l, r = recv, args[0]
            if isinstance(l, (int, float)) and isinstance(r, (int, float)):
                return ORD[(l > r) - (l < r)]
            raise CannotEstablish("cmp on %r, %r" % (l, r))
        if m in ("clone", "into", "as_ref", "to_owned", "unwrap", "expect", "borrow", "deref", "copied"):
            return recv
        if m == "is_some":
            return recv is not None and not (isinstance(recv, Variant) and recv.last == "None")
        if m == "is_none":
            return recv is None or (isinstance(recv, Variant) and recv.last == "None")
        if m in ("min", "max") and isinstance(recv, (int, float)) and isinstance(args[0], (int, float)):
            return min(recv, args[0]) if m == "min" else max(recv, args[0])
        if m == "pow" and isinstance(recv, int):
            return recv ** args[0]
        raise CannotEstablish("method .%s on %r (line %s)" % (m, recv, e.get("ln")))

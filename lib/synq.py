"""Query layer over the capy-syn syntax dump (engine B)."""
import json
import os


class SynFn:
    def __init__(self, file, qual, node, impl_ty=None, trait=None, in_test=False):
        self.file = file          # repo-relative
        self.qual = qual          # e.g. "FunctionCompiler::compile_stmt" or "cast_num"
        self.node = node
        self.name = node["name"]
        self.impl_ty = impl_ty
        self.trait = trait
        self.in_test = in_test
        self.ln = node["ln"]
        self.end = node["end"]
        self.body = node.get("b")
        self.params = node.get("params", [])

    def param_names(self):
        out = []
        for p in self.params:
            pat = p["p"]
            out.append(pat.get("n") if pat.get("k") == "p_ident" else None)
        return out

    def site(self, ln=None):
        return "%s:%d" % (self.file, ln or self.ln)

    def __repr__(self):
        return "<synfn %s %s:%d>" % (self.qual, self.file, self.ln)


def impl_base(ty):
    """'FunctionCompiler<'_>' -> 'FunctionCompiler'"""
    t = ty.split("<", 1)[0].strip()
    return t.rsplit("::", 1)[-1].lstrip("&").strip()


class Syn:
    def __init__(self, path, repo):
        with open(path) as fh:
            raw = json.load(fh)
        self.repo = os.path.realpath(repo)
        self.files = {}
        for f, v in raw.items():
            rel = os.path.relpath(os.path.realpath(f), self.repo)
            self.files[rel] = v
        self.fns = []
        self.items = []  # (file, item, in_test)
        for rel, v in self.files.items():
            self._collect(rel, v["items"], None, None, False)

    def _collect(self, rel, items, impl_ty, trait, in_test):
        for it in items or []:
            k = it.get("k")
            test_here = in_test or any("cfg(test)" in a or a == "test" for a in it.get("attrs", []))
            if k == "fn":
                qual = (impl_ty + "::" if impl_ty else "") + it["name"]
                self.fns.append(SynFn(rel, qual, it, impl_ty, trait, test_here))
                # nested fns inside bodies
                for n in walk(it.get("b")):
                    if isinstance(n, dict) and n.get("k") == "fn" and n is not it:
                        self.fns.append(SynFn(rel, it["name"] + "::" + n["name"], n, None, None, test_here))
            elif k == "impl":
                self._collect(rel, it["items"], impl_base(it["ty"]), it.get("trait"), test_here)
                self.items.append((rel, it, test_here))
            elif k == "mod":
                self._collect(rel, it.get("items"), None, None, test_here)
            elif k == "trait":
                self._collect(rel, it["items"], it["name"], None, test_here)
                self.items.append((rel, it, test_here))
            else:
                self.items.append((rel, it, test_here))

    def fn(self, qual, file=None):
        c = self.find(qual, file)
        if len(c) != 1:
            raise LookupError("syn fn %r (file=%s): %d candidates %s" % (qual, file, len(c), c[:4]))
        return c[0]

    def find(self, qual, file=None):
        out = []
        for f in self.fns:
            if f.in_test:
                continue
            if file and not f.file.endswith(file):
                continue
            if f.qual == qual or (("::" not in qual) and f.name == qual and f.impl_ty is None) or \
                    (("::" not in qual) and f.name == qual and file):
                out.append(f)
        # prefer exact qual matches
        ex = [f for f in out if f.qual == qual]
        return ex or out

    def fns_in(self, file_suffix):
        return [f for f in self.fns if f.file.endswith(file_suffix) and not f.in_test]

    def item(self, kind, name, file=None):
        c = [(f, it) for f, it, t in self.items if it.get("k") == kind and (it.get("name") == name or it.get("ident") == name)
             and not t and (file is None or f.endswith(file))]
        if len(c) != 1:
            raise LookupError("syn item %s %r: %d candidates" % (kind, name, len(c)))
        return c[0]

    def items_of(self, kind, file=None):
        return [(f, it) for f, it, t in self.items if it.get("k") == kind and not t and (file is None or f.endswith(file))]


def walk(n):
    """pre-order walk over all dict nodes"""
    st = [n]
    while st:
        x = st.pop()
        if isinstance(x, dict):
            yield x
            for v in reversed(list(x.values())):
                if isinstance(v, (dict, list)):
                    st.append(v)
        elif isinstance(x, list):
            for v in reversed(x):
                if isinstance(v, (dict, list)):
                    st.append(v)


def walk_no_closures(n):
    """walk that does not descend into closures or nested fn items"""
    st = [n]
    first = True
    while st:
        x = st.pop()
        if isinstance(x, dict):
            if not first and x.get("k") in ("closure", "fn"):
                continue
            first = False
            yield x
            for v in reversed(list(x.values())):
                if isinstance(v, (dict, list)):
                    st.append(v)
        elif isinstance(x, list):
            for v in reversed(x):
                if isinstance(v, (dict, list)):
                    st.append(v)


def find_all(n, pred):
    return [x for x in walk(n) if pred(x)]


def kind(n, k):
    return isinstance(n, dict) and n.get("k") == k


def is_path(n, p=None):
    return kind(n, "path") and (p is None or n["p"] == p or n["p"].endswith("::" + p))


def mcalls(n, name=None):
    return [x for x in walk(n) if x.get("k") == "mcall" and (name is None or x["m"] == name)]


def calls(n, name=None):
    """free/assoc function calls `f(..)`; name matches last path segment"""
    out = []
    for x in walk(n):
        if x.get("k") == "call" and kind(x["f"], "path"):
            if name is None or x["f"]["p"].rsplit("::", 1)[-1] == name:
                out.append(x)
    return out


def macros(n, name=None):
    return [x for x in walk(n) if x.get("k") == "macro" and (name is None or x["name"] == name)]


def matches_on(n, pred=None):
    return [x for x in walk(n) if x.get("k") == "match" and (pred is None or pred(x))]


def canon(n):
    """canonical one-line spelling of an expression / pattern node"""
    if n is None:
        return ""
    if isinstance(n, str):
        return n
    if isinstance(n, list):
        return ", ".join(canon(x) for x in n)
    k = n.get("k")
    if k == "lit":
        if n["t"] == "str":
            return json.dumps(n["v"])
        if n["t"] == "char":
            return "'" + n["v"] + "'"
        return str(n["v"])
    if k == "path":
        return n["p"]
    if k == "call":
        return "%s(%s)" % (canon(n["f"]), canon(n["a"]))
    if k == "mcall":
        return "%s.%s(%s)" % (canon(n["r"]), n["m"], canon(n["a"]))
    if k == "bin":
        if n["op"].endswith("=") and n["op"] not in ("==", "!=", "<=", ">="):
            return "%s %s %s" % (canon(n["l"]), n["op"], canon(n["r"]))
        return "(%s %s %s)" % (canon(n["l"]), n["op"], canon(n["r"]))
    if k == "un":
        return "%s%s" % (n["op"], canon(n["e"]))
    if k == "ref":
        return "&%s%s" % ("mut " if n["mut"] else "", canon(n["e"]))
    if k == "field":
        return "%s.%s" % (canon(n["e"]), n["m"])
    if k == "index":
        return "%s[%s]" % (canon(n["e"]), canon(n["i"]))
    if k == "cast":
        return "(%s as %s)" % (canon(n["e"]), n["ty"])
    if k == "try":
        return canon(n["e"]) + "?"
    if k == "tuple":
        return "(%s)" % canon(n["e"])
    if k == "array":
        return "[%s]" % canon(n["e"])
    if k == "struct":
        return "%s{%s}" % (n["p"], ", ".join("%s: %s" % (f[0], canon(f[1])) for f in n["f"]))
    if k == "macro":
        return "%s!(%s)" % (n["name"], n["tokens"])
    if k == "if":
        return "if %s {%s}%s" % (canon(n["c"]), canon(n["t"]), (" else " + canon(n["e"])) if n.get("e") else "")
    if k == "let":
        return "let %s = %s" % (canon(n["p"]), canon(n["e"]))
    if k == "block":
        return "{ " + "; ".join(canon(s) for s in n["s"]) + " }"
    if k == "expr":
        return canon(n["e"]) + (";" if n.get("semi") else "")
    if k == "local":
        return "let %s = %s%s" % (canon(n["p"]), canon(n.get("init")), (" else " + canon(n["else"])) if n.get("else") else "")
    if k == "return":
        return "return %s" % canon(n.get("e"))
    if k == "break":
        return "break %s %s" % (n.get("label") or "", canon(n.get("e")))
    if k == "continue":
        return "continue %s" % (n.get("label") or "")
    if k == "assign":
        return "%s = %s" % (canon(n["l"]), canon(n["r"]))
    if k == "match":
        return "match %s { %s }" % (canon(n["e"]), " ".join(
            "%s%s => %s," % (canon(a["p"]), (" if " + canon(a["g"])) if a.get("g") else "", canon(a["b"])) for a in n["arms"]))
    if k == "closure":
        return "|%s| %s" % (canon(n["params"]), canon(n["b"]))
    if k == "range":
        return "%s..%s%s" % (canon(n.get("lo")), "=" if n.get("incl") else "", canon(n.get("hi")))
    if k in ("loop",):
        return "loop " + canon(n["b"])
    if k == "while":
        return "while %s %s" % (canon(n["c"]), canon(n["b"]))
    if k == "for":
        return "for %s in %s %s" % (canon(n["p"]), canon(n["e"]), canon(n["b"]))
    if k == "repeat":
        return "[%s; %s]" % (canon(n["e"]), canon(n["n"]))
    # patterns
    if k == "p_ident":
        s = ("ref " if n.get("by_ref") else "") + ("mut " if n.get("mut") else "") + n["n"]
        if n.get("sub"):
            s += " @ " + canon(n["sub"])
        return s
    if k == "p_path":
        return n["p"]
    if k == "p_ts":
        return "%s(%s)" % (n["p"], canon(n["e"]))
    if k == "p_struct":
        return "%s{%s%s}" % (n["p"], ", ".join("%s: %s" % (f[0], canon(f[1])) for f in n["f"]), ", .." if n.get("rest") else "")
    if k == "p_tuple":
        return "(%s)" % canon(n["e"])
    if k == "p_or":
        return " | ".join(canon(c) for c in n["c"])
    if k == "p_lit":
        return n["v"]
    if k == "p_wild":
        return "_"
    if k == "p_ref":
        return "&" + canon(n["e"])
    if k == "p_rest":
        return ".."
    if k == "p_range":
        return n["v"]
    if k == "p_slice":
        return "[%s]" % canon(n["e"])
    return "<%s>" % k


def or_alternatives(p):
    """expand top-level or-patterns"""
    if p.get("k") == "p_or":
        out = []
        for c in p["c"]:
            out += or_alternatives(c)
        return out
    return [p]


def pat_head(p):
    """the enum-variant path a pattern tests at its top level (or '_' / binding name)"""
    k = p.get("k")
    if k in ("p_path", "p_ts", "p_struct"):
        return p["p"]
    if k == "p_ident":
        if p.get("sub"):
            return pat_head(p["sub"])
        # an identifier pattern that is really a unit variant / const is indistinguishable in
        # syntax; by convention upper-case initial = path
        return p["n"] if p["n"][:1].isupper() else "_"
    if k == "p_wild":
        return "_"
    if k == "p_ref":
        return pat_head(p["e"])
    if k == "p_lit":
        return p["v"]
    if k == "p_tuple":
        return "(" + ", ".join(pat_head(e) for e in p["e"]) + ")"
    if k == "p_range":
        return p["v"]
    return "?"


def last_seg(path):
    return path.rsplit("::", 1)[-1]


def match_table(m):
    """list of (head, pattern-node, guard, body, arm) with or-patterns expanded"""
    out = []
    for a in m["arms"]:
        for alt in or_alternatives(a["p"]):
            out.append((pat_head(alt), alt, a.get("g"), a["b"], a))
    return out


def find_arm(m, variant):
    """arms of match m whose pattern head's last segment is `variant`"""
    return [t for t in match_table(m) if last_seg(t[0]) == variant]


def stmts_of(b):
    if b is None:
        return []
    if b.get("k") == "block":
        return b["s"]
    return [{"k": "expr", "e": b, "semi": False, "ln": b.get("ln", 0)}]


def strip_block(e):
    """`{ x }` -> x"""
    while isinstance(e, dict) and e.get("k") == "block" and len(e["s"]) == 1 and e["s"][0].get("k") == "expr" and not e["s"][0].get("semi"):
        e = e["s"][0]["e"]
    return e


def int_value(n):
    """evaluate a literal integer expression (with `as`, MAX constants, shifts, + - * |) or None"""
    if n is None:
        return None
    k = n.get("k")
    if k == "lit" and n["t"] == "int":
        v = n["v"].replace("_", "")
        for suf in ("u8", "u16", "u32", "u64", "u128", "usize", "i8", "i16", "i32", "i64", "i128", "isize"):
            if v.endswith(suf) and not v.startswith("0x"):
                v = v[: -len(suf)]
                break
            if v.endswith(suf) and v.startswith("0x") and suf[0] in "ui" and not all(c in "0123456789abcdefABCDEF" for c in v[2:]):
                v = v[: -len(suf)]
                break
        try:
            return int(v, 0)
        except ValueError:
            return None
    if k == "cast":
        v = int_value(n["e"])
        if v is None:
            return None
        bits = {"u8": 8, "u16": 16, "u32": 32, "u64": 64, "u128": 128, "usize": 64}
        sbits = {"i8": 8, "i16": 16, "i32": 32, "i64": 64, "i128": 128, "isize": 64}
        t = n["ty"]
        if t in bits:
            return v & ((1 << bits[t]) - 1)
        if t in sbits:
            b = sbits[t]
            v &= (1 << b) - 1
            return v - (1 << b) if v >> (b - 1) else v
        return None
    if k == "path":
        p = n["p"]
        tbl = {}
        for w in (8, 16, 32, 64, 128):
            tbl["u%d::MAX" % w] = (1 << w) - 1
            tbl["i%d::MAX" % w] = (1 << (w - 1)) - 1
            tbl["i%d::MIN" % w] = -(1 << (w - 1))
            tbl["u%d::MIN" % w] = 0
            tbl["u%d::BITS" % w] = w
            tbl["i%d::BITS" % w] = w
        tbl["usize::MAX"] = (1 << 64) - 1
        tbl["isize::MAX"] = (1 << 63) - 1
        return tbl.get(p)
    if k == "bin":
        a, b = int_value(n["l"]), int_value(n["r"])
        if a is None or b is None:
            return None
        op = n["op"]
        try:
            return {"+": a + b, "-": a - b, "*": a * b, "<<": a << b, ">>": a >> b, "|": a | b, "&": a & b,
                    "/": a // b if b else None, "^": a ^ b}.get(op)
        except Exception:
            return None
    if k == "un" and n["op"] == "-":
        v = int_value(n["e"])
        return -v if v is not None else None
    if k == "un" and n["op"] == "!":
        return None
    if k == "mcall" and n["m"] == "pow" and len(n["a"]) == 1:
        a, b = int_value(n["r"]), int_value(n["a"][0])
        if a is not None and b is not None:
            return a ** b
    return None

"""Parser progress analysis (R23.a / R06.a): abstract interpretation of the hand-written parser.

Question decided: can a loop of the parser complete an iteration without consuming a token?

Method.  While no token is consumed the current (non-trivia) token does not change, so the
no-progress behaviour decomposes pointwise over the current token t in K ∪ {EOF}.  For every
grammar function / Parser method f, every *context* ctx (concrete values of its TokenSet /
TokenKind / bool parameters, discovered by a fixpoint over all call sites starting from the
grammar entry points) and every token t we compute the summary
    S(f, ctx, t) = set of abstract return values of the paths through f that consume nothing
(least fixpoint; `bump()` kills a path).  Conditions on the current token (`at`, `at_set`,
`at_eof`, `kind()` matches, `TokenSet::contains`) are evaluated exactly; every other condition
(`at_ahead`, node kinds, text comparisons, ...) forks both ways; Option-valued results are tracked
as some/none so that `if let Some(..) = parse_x()` / `?` / `.is_none()` correlate with progress.
A loop is reported when for some reachable ctx and some t its back edge is reachable from its head
without consuming: the parser would spin forever on that token.
"""
import re
import synq
from synq import canon, walk

UNK = "UNK"
SOME = ("opt", "some")
NONE = ("opt", "none")

NATIVE_NEUTRAL = {
    "skip_trivia", "start", "text", "previous_token_range", "previous_token_kind", "mark_old_unexpected", "mark_old_missing",
    "expected_syntax_name", "clear_expected_syntaxes", "peek_raw", "at_raw",
}


class CannotEstablish(Exception):
    pass


class Analyzer:
    def __init__(self, syn, tokenizer_text):
        self.syn = syn
        self.tokens = self._tokens(tokenizer_text)
        self.trivia = {"Whitespace", "CommentLeader", "CommentContents"}
        self.K = [t for t in self.tokens if t not in self.trivia] + ["<EOF>"]
        self.ALL = frozenset(t for t in self.tokens)
        self.fns = {}
        self.consts = {}
        self._load()
        self.summ = {}
        # tokens whose membership in a TokenSet is queried independently of the current token
        self.Q = frozenset(n["a"][0]["p"].split("::")[-1] for f in self.fns.values() for n in walk(f.body)
                           if n.get("k") == "mcall" and n["m"] == "contains" and len(n["a"]) == 1 and n["a"][0].get("k") == "path"
                           and n["a"][0]["p"].startswith("TokenKind::"))
        self.contexts = {}     # (fname, ctxkey) -> provenance (caller fname, caller ctxkey, line) or None
        self.changed = False
        self.notes = []
        self.edges = {}        # (f, pctx, t) -> callees entered without having consumed a token
        self.cur_key = None

    @staticmethod
    def _tokens(text):
        out = []
        for line in text.splitlines():
            line = line.strip()
            m = re.match(r"^(_{0,2}\w+?)\s*(=|\|=>)", line)
            if not m or line.startswith("//"):
                continue
            name = m.group(1)
            if name.startswith("__"):
                continue
            out.append(name.lstrip("_"))
        return out

    def _load(self):
        syn = self.syn
        for f in syn.fns:
            if f.in_test or f.body is None:
                continue
            if f.file.endswith(("parser/src/grammar.rs", "parser/src/grammar/expr.rs", "parser/src/grammar/stmt.rs")):
                names = f.param_names()
                if names and names[0] == "p":
                    self.fns[f.name] = f
            elif f.file.endswith("parser/src/parser.rs") and f.impl_ty == "Parser":
                self.fns["Parser::" + f.name] = f
        # module-level consts
        for file, it in syn.items_of("const"):
            if "parser/src" in file and "TokenSet" in it.get("ty", ""):
                self.consts[it["name"]] = it["e"]

    # ---- token sets ---------------------------------------------------------------------------
    def tokenset(self, e, env):
        """evaluate a TokenSet expression to a frozenset or UNK"""
        k = e.get("k")
        if k == "path":
            p = e["p"]
            last = p.rsplit("::", 1)[-1]
            if p in env:
                v = env[p]
                return v[1] if isinstance(v, tuple) and v[0] == "set" else UNK
            if p == "TokenSet::NONE":
                return frozenset()
            if p == "TokenSet::ALL":
                return self.ALL
            if last in env and isinstance(env[last], tuple) and env[last][0] == "set":
                return env[last][1]
            if last in self.consts:
                return self.tokenset(self.consts[last], {})
            return UNK
        if k == "call" and canon(e["f"]) == "TokenSet::new":
            arr = e["a"][0]
            if arr["k"] == "array":
                out = set()
                for x in arr["e"]:
                    if x["k"] == "path" and x["p"].startswith("TokenKind::"):
                        out.add(x["p"].split("::")[-1])
                    else:
                        return UNK
                return frozenset(out)
            return UNK
        if k == "mcall" and e["m"] == "union":
            a, b = self.tokenset(e["r"], env), self.tokenset(e["a"][0], env)
            if a is UNK or b is UNK:
                return UNK
            return a | b
        if k == "mcall" and e["m"] == "without":
            a = self.tokenset(e["r"], env)
            kk = e["a"][0]
            if a is UNK or kk["k"] != "path":
                return UNK
            return a - {kk["p"].split("::")[-1]}
        return UNK

    # ---- contexts ------------------------------------------------------------------------------
    def ctx_of_args(self, fname, args, env, self_call=False):
        """abstract parameter values for a call to fname with syntactic args evaluated in env"""
        f = self.fns[fname]
        names = f.param_names()
        tys = [p["ty"] for p in f.params]
        vals = []
        offset = 1  # skip p / self
        for i in range(offset, len(names)):
            ai = i - offset
            if ai >= len(args):
                vals.append((names[i], UNK))
                continue
            a = args[ai]
            ty = tys[i]
            if "TokenSet" in ty:
                s = self.tokenset(a, env)
                vals.append((names[i], ("set", s) if s is not UNK else UNK))
            elif "TokenKind" in ty:
                if a["k"] == "path" and a["p"].startswith("TokenKind::"):
                    vals.append((names[i], ("kind", a["p"].split("::")[-1])))
                elif a["k"] == "path" and a["p"] in env and isinstance(env[a["p"]], tuple) and env[a["p"]][0] == "kind":
                    vals.append((names[i], env[a["p"]]))
                else:
                    vals.append((names[i], UNK))
            elif ty == "bool":
                if a["k"] == "lit" and a["t"] == "bool":
                    vals.append((names[i], a["v"] == "true"))
                elif a["k"] == "path" and isinstance(env.get(a["p"]), bool):
                    vals.append((names[i], env[a["p"]]))
                else:
                    vals.append((names[i], UNK))
            else:
                vals.append((names[i], UNK))
        return tuple(vals)

    def discover(self, roots):
        work = []
        for r in roots:
            ck = self.ctx_of_args(r, [], {})
            self.contexts[(r, ck)] = None
            work.append((r, ck))
        while work:
            fname, ck = work.pop()
            f = self.fns[fname]
            env = dict(ck)
            # local consts
            for n in walk(f.body):
                if n.get("k") == "const" and "TokenSet" in n.get("ty", ""):
                    s = self.tokenset(n["e"], env)
                    if s is not UNK:
                        env[n["name"]] = ("set", s)
            for n in walk(f.body):
                callee, args = self.callee_of(n)
                if callee is None:
                    continue
                # bool params that are UNK in the caller fork into both values
                ck2 = self.ctx_of_args(callee, args, env)
                for ck3 in self.expand_unknown_bools(callee, ck2):
                    if (callee, ck3) not in self.contexts:
                        self.contexts[(callee, ck3)] = (fname, ck, n["ln"])
                        work.append((callee, ck3))

    def expand_unknown_bools(self, fname, ck):
        f = self.fns[fname]
        tys = {p["p"].get("n"): p["ty"] for p in f.params}
        outs = [()]
        for name, v in ck:
            if v is UNK and tys.get(name) == "bool":
                outs = [o + ((name, b),) for o in outs for b in (True, False)]
            else:
                outs = [o + ((name, v),) for o in outs]
        return outs

    def callee_of(self, n):
        """(fname, args) if node n is a call to a grammar function or Parser method, else (None, None)"""
        k = n.get("k")
        if k == "call" and n["f"].get("k") == "path":
            name = n["f"]["p"].rsplit("::", 1)[-1]
            if name in self.fns and n["a"] and canon(n["a"][0]) == "p":
                return name, n["a"][1:]
        if k == "mcall" and canon(n["r"]) in ("p", "self"):
            name = "Parser::" + n["m"]
            if name in self.fns and n["m"] not in NATIVE_NEUTRAL and n["m"] not in ("at", "at_set", "at_eof", "kind", "peek", "bump", "at_ahead", "at_eof_ahead", "parse"):
                return name, n["a"]
        return None, None

    # ---- summaries -----------------------------------------------------------------------------
    def proj(self, ck, t):
        """project a context onto what can be observed while the current token is t: membership of t
        and of the tokens in Q (union / without / contains commute with this projection)"""
        keep = self.Q | {t}
        return tuple((n, ("set", v[1] & keep) if isinstance(v, tuple) and v and v[0] == "set" else v) for n, v in ck)

    def summary(self, fname, ck, t):
        key = (fname, self.proj(ck, t), t)
        if key in self.summ:
            return self.summ[key]
        self.summ[key] = frozenset()
        self.pending.add(key)
        self.changed = True
        return self.summ[key]

    def compute_all(self):
        """least fixpoint of S, independently per current token, over projected contexts"""
        rounds = 0
        self.sample = {}
        for t in self.K:
            self.pending = set()
            for (fname, ck) in self.contexts:
                key = (fname, self.proj(ck, t), t)
                self.sample.setdefault(key, ck)
                if key not in self.summ:
                    self.summ[key] = frozenset()
                    self.pending.add(key)
            keys = [k for k in self.summ if k[2] == t]
            while True:
                rounds += 1
                self.changed = False
                for key in keys:
                    self.cur_key = key
                    new = self.run_function(key[0], key[1], t)
                    old = self.summ[key]
                    if not new <= old:
                        self.summ[key] = frozenset(new | old)
                        self.changed = True
                if self.pending - set(keys):
                    keys = [k for k in self.summ if k[2] == t]
                    self.changed = True
                if not self.changed or rounds > 5000:
                    break
        return rounds

    def base_env(self, f, ck):
        env = dict(ck)
        for n in walk(f.body):
            if n.get("k") == "const" and "TokenSet" in n.get("ty", ""):
                s = self.tokenset(n["e"], env)
                if s is not UNK:
                    env[n["name"]] = ("set", s)
        return env

    def run_function(self, fname, ck, t):
        f = self.fns[fname]
        env = self.base_env(f, ck)
        self.cur_fn = fname
        outs = self.block(f.body, env, t)
        rets = set()
        for tag, val, _ in outs:
            if tag in ("norm", "ret"):
                rets.add(self.retval(val))
        return frozenset(rets)

    @staticmethod
    def retval(v):
        if v == SOME or v == NONE:
            return v
        if isinstance(v, bool):
            return v
        return UNK

    # ---- interpreter (no-progress paths only) ----------------------------------------------------
    def freeze(self, env):
        return tuple(sorted((k, v) for k, v in env.items() if not (isinstance(v, tuple) and v and v[0] == "set" and False)))

    def dedupe(self, outs):
        seen = set()
        res = []
        for tag, val, env in outs:
            try:
                key = (tag, val, tuple(sorted(env.items(), key=lambda kv: kv[0])))
                hash(key)
            except TypeError:
                key = (tag, repr(val), repr(sorted(env.items())))
            if key not in seen:
                seen.add(key)
                res.append((tag, val, env))
        if len(res) > 4000:
            raise CannotEstablish("path explosion in %s" % self.cur_fn)
        return res

    def block(self, b, env, t):
        """returns outcomes: ('norm', value, env) | ('ret', value, env) | ('brk', (label, value), env) | ('cont', label, env)"""
        states = [("norm", None, dict(env))]
        stmts = b["s"]
        for i, s in enumerate(stmts):
            nxt = []
            for tag, val, e in states:
                if tag != "norm":
                    nxt.append((tag, val, e))
                    continue
                nxt.extend(self.stmt(s, e, t))
            states = self.dedupe(nxt)
            if not states:
                return []
        # block value = value of last expr statement without semicolon, else None
        last = stmts[-1] if stmts else None
        if last is None or not (last["k"] == "expr" and not last.get("semi")):
            states = [(tag, (None if tag == "norm" else val), e) for tag, val, e in states]
        return states

    def stmt(self, s, env, t):
        k = s["k"]
        if k == "local":
            if s.get("init") is None:
                return [("norm", None, env)]
            outs = []
            for tag, val, e in self.ev(s["init"], env, t):
                if tag != "val":
                    outs.append((tag, val, e))
                    continue
                if s.get("else") is not None:
                    # let PAT = init else { diverge }
                    pat = s["p"]
                    m = self.pat_match(pat, val)
                    if m is not False:
                        e2 = dict(e)
                        self.bind(pat, val, e2)
                        outs.append(("norm", None, e2))
                    if m is not True:
                        for tag2, val2, e3 in self.ev(s["else"], e, t):
                            if tag2 == "val":
                                continue  # else-block must diverge
                            outs.append((tag2, val2, e3))
                else:
                    e2 = dict(e)
                    self.bind(s["p"], val, e2)
                    outs.append(("norm", None, e2))
            return outs
        if k == "expr":
            outs = []
            for tag, val, e in self.ev(s["e"], env, t):
                if tag == "val":
                    outs.append(("norm", val, e))
                else:
                    outs.append((tag, val, e))
            return outs
        return [("norm", None, env)]

    def bind(self, pat, val, env):
        k = pat.get("k")
        if k == "p_ident":
            env[pat["n"]] = val if self.hashable(val) else UNK
        elif k == "p_tuple":
            for pe in pat["e"]:
                self.bind(pe, UNK, env)
        elif k == "p_ts" and synq.last_seg(pat["p"]) == "Some":
            for pe in pat["e"]:
                inner = UNK
                if isinstance(val, tuple) and val and val[0] == "optkind":
                    inner = ("kind", val[1])
                self.bind(pe, inner, env)

    @staticmethod
    def hashable(v):
        try:
            hash(v)
            return True
        except TypeError:
            return False

    def pat_match(self, pat, val):
        """True / False / None(unknown) : does val match pat"""
        k = pat.get("k")
        if k == "p_wild" or (k == "p_ident" and not pat["n"][:1].isupper()):
            return True
        if k == "p_ts" and synq.last_seg(pat["p"]) == "Some":
            if val == SOME:
                return True
            if val == NONE:
                return False
            if isinstance(val, tuple) and val and val[0] == "optkind":
                if val[1] == "<EOF>":
                    return False
                inner = pat["e"][0]
                if inner["k"] == "p_path":
                    return inner["p"].split("::")[-1] == val[1]
                if inner["k"] == "p_or":
                    return any(c["k"] == "p_path" and c["p"].split("::")[-1] == val[1] for c in inner["c"])
                return True
            return None
        if k in ("p_path", "p_ident") and synq.last_seg(pat.get("p", pat.get("n", ""))) == "None":
            if val == NONE:
                return True
            if val == SOME:
                return False
            if isinstance(val, tuple) and val and val[0] == "optkind":
                return val[1] == "<EOF>"
            return None
        if k == "p_path" and pat["p"].startswith("TokenKind::") and isinstance(val, tuple) and val[0] == "kind":
            return pat["p"].split("::")[-1] == val[1]
        if k == "p_or":
            rs = [self.pat_match(c, val) for c in pat["c"]]
            if any(r is True for r in rs):
                return True
            if all(r is False for r in rs):
                return False
            return None
        if k == "p_lit" and pat["v"] in ("true", "false") and isinstance(val, bool):
            return val == (pat["v"] == "true")
        return None

    def truth(self, v):
        if isinstance(v, bool):
            return [v]
        return [True, False]

    def ev_seq(self, exprs, env, t):
        """evaluate expressions left to right; returns list of ('val', [values], env) or control outcomes"""
        states = [("val", [], env)]
        for x in exprs:
            nxt = []
            for tag, vals, e in states:
                if tag != "val":
                    nxt.append((tag, vals, e))
                    continue
                for tag2, v2, e2 in self.ev(x, e, t):
                    if tag2 == "val":
                        nxt.append(("val", vals + [v2], e2))
                    else:
                        nxt.append((tag2, v2, e2))
            states = nxt
        return states

    def cond(self, c, env, t):
        """outcomes ('val', bool, env) for a condition incl. let-chains"""
        if c["k"] == "let":
            outs = []
            for tag, val, e in self.ev(c["e"], env, t):
                if tag != "val":
                    outs.append((tag, val, e))
                    continue
                m = self.pat_match(c["p"], val)
                if m is not False:
                    e2 = dict(e)
                    self.bind(c["p"], val, e2)
                    outs.append(("val", True, e2))
                if m is not True:
                    outs.append(("val", False, e))
            return outs
        if c["k"] == "bin" and c["op"] == "&&":
            outs = []
            for tag, val, e in self.cond(c["l"], env, t):
                if tag != "val":
                    outs.append((tag, val, e))
                elif val is False:
                    outs.append(("val", False, e))
                else:
                    outs.extend(self.cond(c["r"], e, t))
            return outs
        outs = []
        for tag, val, e in self.ev(c, env, t):
            if tag != "val":
                outs.append((tag, val, e))
            else:
                for b in self.truth(val):
                    outs.append(("val", b, e))
        return outs

    def ev(self, e, env, t):
        k = e.get("k")
        V = lambda v, en=env: [("val", v, en)]
        if k == "lit":
            if e["t"] == "bool":
                return V(e["v"] == "true")
            return V(UNK)
        if k == "path":
            p = e["p"]
            if p in env:
                return V(env[p])
            if p.startswith("TokenKind::"):
                return V(("kind", p.split("::")[-1]))
            s = self.tokenset(e, env)
            if s is not UNK:
                return V(("set", s))
            if p == "None":
                return V(NONE)
            return V(UNK)
        if k == "macro":
            n = e["name"].rsplit("::", 1)[-1]
            if n in ("assert", "debug_assert", "assert_eq", "debug_assert_eq"):
                return V(None)
            if n in ("unreachable", "panic", "todo", "unimplemented"):
                return []
            if n == "matches":
                outs = []
                for tag, val, en in self.ev(e["e"], env, t):
                    if tag != "val":
                        outs.append((tag, val, en))
                        continue
                    m = self.pat_match(e["p"], val)
                    if e.get("g") is not None:
                        m = None if m is not False else False
                    for b in ([m] if m is not None else [True, False]):
                        outs.append(("val", b, en))
                return outs
            return V(UNK)
        if k == "un":
            outs = []
            for tag, val, en in self.ev(e["e"], env, t):
                if tag != "val":
                    outs.append((tag, val, en))
                elif e["op"] == "!" and isinstance(val, bool):
                    outs.append(("val", not val, en))
                else:
                    outs.append(("val", UNK if e["op"] == "!" else val, en))
            return outs
        if k == "bin":
            op = e["op"]
            if op in ("&&", "||"):
                outs = []
                for tag, lv, en in self.ev(e["l"], env, t):
                    if tag != "val":
                        outs.append((tag, lv, en))
                        continue
                    for lb in self.truth(lv):
                        if (op == "&&" and not lb) or (op == "||" and lb):
                            outs.append(("val", lb if isinstance(lv, bool) else lb, en))
                        else:
                            for tag2, rv, en2 in self.ev(e["r"], en, t):
                                if tag2 != "val":
                                    outs.append((tag2, rv, en2))
                                else:
                                    outs.append(("val", rv if isinstance(rv, bool) else UNK, en2))
                return self.dedupe(outs)
            outs = []
            for tag, vals, en in self.ev_seq([e["l"], e["r"]], env, t):
                if tag != "val":
                    outs.append((tag, vals, en))
                    continue
                lv, rv = vals
                if op in ("==", "!=") and isinstance(lv, tuple) and isinstance(rv, tuple) and lv[0] == "kind" and rv[0] == "kind":
                    outs.append(("val", (lv[1] == rv[1]) == (op == "=="), en))
                else:
                    outs.append(("val", UNK, en))
            return outs
        if k == "ref" or k == "cast" or k == "try_dummy":
            return self.ev(e["e"], env, t)
        if k == "try":
            outs = []
            for tag, val, en in self.ev(e["e"], env, t):
                if tag != "val":
                    outs.append((tag, val, en))
                elif val == NONE:
                    outs.append(("ret", NONE, en))
                elif val == SOME:
                    outs.append(("val", UNK, en))
                else:
                    outs.append(("ret", NONE, en))
                    outs.append(("val", UNK, en))
            return outs
        if k == "if":
            outs = []
            for tag, cv, en in self.cond(e["c"], env, t):
                if tag != "val":
                    outs.append((tag, cv, en))
                elif cv:
                    for tg, v, e2 in self.block(e["t"], en, t):
                        outs.append(("val" if tg == "norm" else tg, v, self.pop_scope(e2, en)))
                elif e.get("e") is not None:
                    for tg, v, e2 in self.ev(e["e"], en, t):
                        outs.append((tg, v, e2))
                else:
                    outs.append(("val", None, en))
            return self.dedupe(outs)
        if k == "block":
            outs = []
            for tg, v, e2 in self.block(e, env, t):
                if tg == "norm":
                    outs.append(("val", v, self.pop_scope(e2, env)))
                elif tg == "brk" and e.get("label") and v[0] == e["label"]:
                    outs.append(("val", v[1], self.pop_scope(e2, env)))
                else:
                    outs.append((tg, v, e2))
            return outs
        if k == "match":
            outs = []
            for tag, sv, en in self.ev(e["e"], env, t):
                if tag != "val":
                    outs.append((tag, sv, en))
                    continue
                pending = [en]
                for arm in e["arms"]:
                    m = self.pat_match(arm["p"], sv)
                    if m is False:
                        continue
                    e2 = dict(en)
                    self.bind(arm["p"], sv, e2)
                    if arm.get("g") is not None:
                        for tg, gv, e3 in self.cond(arm["g"], e2, t):
                            if tg != "val":
                                outs.append((tg, gv, e3))
                            elif gv:
                                outs.extend(self.ev(arm["b"], e3, t))
                        # guard may fail: fall through to later arms
                        continue
                    outs.extend(self.ev(arm["b"], e2, t))
                    if m is True:
                        break
            return self.dedupe(outs)
        if k == "return":
            if e.get("e") is None:
                return [("ret", None, env)]
            outs = []
            for tag, val, en in self.ev(e["e"], env, t):
                outs.append(("ret", val, en) if tag == "val" else (tag, val, en))
            return outs
        if k == "break":
            if e.get("e") is None:
                return [("brk", (e.get("label"), None), env)]
            outs = []
            for tag, val, en in self.ev(e["e"], env, t):
                outs.append(("brk", (e.get("label"), val), en) if tag == "val" else (tag, val, en))
            return outs
        if k == "continue":
            return [("cont", e.get("label"), env)]
        if k in ("loop", "while"):
            return self.loop(e, env, t, record=False)
        if k == "for":
            outs = [("val", None, env)]
            for tg, v, e2 in self.block(e["b"], env, t):
                if tg in ("norm", "cont"):
                    outs.append(("val", None, env))
                elif tg == "brk" and v[0] is None:
                    outs.append(("val", None, env))
                else:
                    outs.append((tg, v, e2))
            return self.dedupe(outs)
        if k == "assign":
            outs = []
            if canon(e["l"]).endswith(".token_idx"):
                raise CannotEstablish("write to token_idx outside a recognised look-ahead region (line %s)" % e["ln"])
            for tag, val, en in self.ev(e["r"], env, t):
                if tag != "val":
                    outs.append((tag, val, en))
                    continue
                e2 = dict(en)
                if e["l"]["k"] == "path":
                    e2[e["l"]["p"]] = val if self.hashable(val) else UNK
                outs.append(("val", None, e2))
            return outs
        if k == "call":
            return self.call(e, env, t)
        if k == "mcall":
            return self.mcall(e, env, t)
        if k == "tuple" or k == "array":
            outs = []
            for tag, vals, en in self.ev_seq(e["e"], env, t):
                outs.append(("val", UNK, en) if tag == "val" else (tag, vals, en))
            return outs
        if k == "struct":
            outs = []
            for tag, vals, en in self.ev_seq([f[1] for f in e["f"]], env, t):
                outs.append(("val", UNK, en) if tag == "val" else (tag, vals, en))
            return outs
        if k in ("field", "index"):
            outs = []
            for tag, val, en in self.ev(e["e"], env, t):
                outs.append(("val", UNK, en) if tag == "val" else (tag, val, en))
            return outs
        if k == "closure":
            self.check_closure_neutral(e)
            return V(UNK)
        if k == "let":
            return self.cond(e, env, t)
        if k == "range":
            return V(UNK)
        return V(UNK)

    def pop_scope(self, inner, outer):
        """variables declared in an inner block disappear; assignments to outer variables persist"""
        return {k: inner.get(k, v) for k, v in outer.items()}

    def check_closure_neutral(self, c):
        for n in walk(c["b"]):
            callee, _ = self.callee_of(n)
            if callee is not None or (n.get("k") == "mcall" and n["m"] == "bump"):
                raise CannotEstablish("closure at line %s calls a parser function; closures are not interpreted" % c["ln"])

    def loop(self, e, env, t, record):
        """one abstract iteration of loop e from its head with current token t on no-progress paths.
        returns outcomes after the loop ('val') / propagated control; paths that reach the back edge are
        returned separately when record=True."""
        label = e.get("label")
        outs = []
        back = []
        if e["k"] == "while":
            starts = []
            for tag, cv, en in self.cond(e["c"], env, t):
                if tag != "val":
                    outs.append((tag, cv, en))
                elif cv:
                    starts.append(en)
                else:
                    outs.append(("val", None, self.pop_scope(en, env)))
        else:
            starts = [env]
        for st in starts:
            for tg, v, e2 in self.block(e["b"], st, t):
                if tg == "norm":
                    back.append(e2)
                elif tg == "cont" and (v is None or v == label):
                    back.append(e2)
                elif tg == "brk" and (v[0] is None or v[0] == label):
                    outs.append(("val", v[1], self.pop_scope(e2, env)))
                else:
                    outs.append((tg, v, e2))
        outs = self.dedupe(outs)
        if record:
            return outs, back
        # when met inside a function summary: a spinning path is reported by the per-loop analysis;
        # it never returns, so it contributes no outcome here.
        return outs

    def call(self, e, env, t):
        f = e["f"]
        args = e["a"]
        if f.get("k") == "path":
            name = f["p"].rsplit("::", 1)[-1]
            if name in self.fns and args and canon(args[0]) == "p":
                return self.invoke(name, args[1:], env, t, e)
            if f["p"] in ("Some",):
                outs = []
                for tag, vals, en in self.ev_seq(args, env, t):
                    outs.append(("val", SOME, en) if tag == "val" else (tag, vals, en))
                return outs
        outs = []
        for tag, vals, en in self.ev_seq(args, env, t):
            outs.append(("val", UNK, en) if tag == "val" else (tag, vals, en))
        return outs

    def invoke(self, fname, args, env, t, node):
        # evaluate argument expressions for effects first (they may contain calls)
        outs = []
        for tag, vals, en in self.ev_seq(args, env, t):
            if tag != "val":
                outs.append((tag, vals, en))
                continue
            ck = self.ctx_of_args(fname, args, en)
            for ck2 in self.expand_unknown_bools(fname, ck):
                if getattr(self, "cur_key", None) is not None:
                    self.edges.setdefault(self.cur_key, set()).add((fname, self.proj(ck2, t), t))
                for rv in self.summary(fname, ck2, t):
                    outs.append(("val", rv, en))
        return self.dedupe(outs)

    def mcall(self, e, env, t):
        recv = canon(e["r"])
        m = e["m"]
        args = e["a"]
        V = lambda v: [("val", v, env)]
        if recv in ("p", "self"):
            if m == "bump":
                return []
            if m == "at" and len(args) == 1:
                kv = self.kind_of(args[0], env)
                if kv is UNK:
                    return V(UNK)
                return V(t == kv)
            if m == "at_set" and len(args) == 1:
                s = self.tokenset(args[0], env)
                if s is UNK:
                    return V(UNK)
                return V(t in s)
            if m == "at_eof":
                return V(t == "<EOF>")
            if m == "at_default_recovery_set" and "Parser::at_default_recovery_set" not in self.fns:
                return V(UNK)
            if m in ("kind", "peek"):
                return V(("optkind", t))
            if m in ("at_ahead", "at_eof_ahead"):
                return V(UNK)
            if m in NATIVE_NEUTRAL:
                return V(UNK)
            name = "Parser::" + m
            if name in self.fns:
                return self.invoke(name, args, env, t, e)
            return V(UNK)
        # methods on other receivers
        if m == "contains" and len(args) == 1:
            s = self.tokenset(e["r"], env)
            kv = self.kind_of(args[0], env)
            if s is not UNK and kv is not UNK:
                return V(kv in s)
            return V(UNK)
        # Option combinators on tracked option-ness
        outs = []
        for tag, rv, en in self.ev(e["r"], env, t):
            if tag != "val":
                outs.append((tag, rv, en))
                continue
            for a in args:
                if a.get("k") == "closure":
                    self.check_closure_neutral(a)
            sub = [a for a in args if a.get("k") != "closure"]
            for tag2, vals, en2 in self.ev_seq(sub, en, t):
                if tag2 != "val":
                    outs.append((tag2, vals, en2))
                    continue
                if m == "is_some":
                    outs.append(("val", True if rv == SOME else False if rv == NONE else UNK, en2))
                elif m == "is_none":
                    outs.append(("val", False if rv == SOME else True if rv == NONE else UNK, en2))
                elif m == "is_some_and":
                    outs.append(("val", False if rv == NONE else UNK, en2))
                elif m in ("map", "or_else", "and_then", "or"):
                    outs.append(("val", rv if (m == "map" and rv in (SOME, NONE)) else UNK, en2))
                else:
                    outs.append(("val", UNK, en2))
        return self.dedupe(outs)

    def kind_of(self, a, env):
        if a["k"] == "path" and a["p"].startswith("TokenKind::"):
            return a["p"].split("::")[-1]
        if a["k"] == "path" and isinstance(env.get(a["p"]), tuple) and env[a["p"]][0] == "kind":
            return env[a["p"]][1]
        return UNK

    # ---- loops ---------------------------------------------------------------------------------
    def loops_of(self, f):
        """loops of f in source order, skipping those inside a look-ahead region (block writing token_idx)"""
        out = []
        regions = self.lookahead_regions(f)
        for n in walk(f.body):
            if n.get("k") in ("loop", "while"):
                inside = any(r["ln"] <= n["ln"] <= r["end"] for r in regions)
                out.append((n, inside))
        return out

    def lookahead_regions(self, f):
        regs = []
        for n in walk(f.body):
            if n.get("k") == "block" and n.get("label"):
                if any(x.get("k") in ("assign", "bin") and ".token_idx" in canon(x.get("l")) and x.get("k") == "assign" or
                       (x.get("k") == "bin" and x.get("op") in ("+=", "-=") and ".token_idx" in canon(x.get("l"))) for x in walk(n)):
                    regs.append(n)
        return regs

    def check_loops(self):
        """returns (examined, findings) ; finding = dict(fn, ordinal, line, tokens, ctx, chain)"""
        examined, findings = [], []
        by_fn = {}
        for (fname, ck) in self.contexts:
            by_fn.setdefault(fname, []).append(ck)
        for fname, cks in sorted(by_fn.items()):
            f = self.fns[fname]
            loops = self.loops_of(f)
            ordinal = 0
            for node, in_lookahead in loops:
                this = ordinal
                ordinal += 1
                if in_lookahead:
                    examined.append((fname, this, node["ln"], "lookahead"))
                    continue
                bad = {}
                self.cur_fn = fname
                for t in self.K:
                    seen = set()
                    for ck in cks:
                        pck = self.proj(ck, t)
                        if pck in seen:
                            continue
                        seen.add(pck)
                        env = self.base_env(f, pck)
                        self.cur_key = None
                        outs, back = self.loop(node, env, t, record=True)
                        if back:
                            bad.setdefault(t, []).append(ck)
                examined.append((fname, this, node["ln"], "ok" if not bad else "spins"))
                if bad:
                    findings.append({"fn": fname, "ordinal": this, "line": node["ln"], "file": f.file,
                                     "tokens": sorted(bad), "ctx": {t: cks_[0] for t, cks_ in bad.items()}})
        return examined, findings

    def chain(self, fname, ck, limit=8):
        out = []
        cur = (fname, ck)
        while cur in self.contexts and self.contexts[cur] is not None and len(out) < limit:
            caller, cck, ln = self.contexts[cur]
            out.append("%s (line %s)" % (caller, ln))
            if cck is None:
                break
            cur = (caller, cck)
        return out


# statement-level interpreter special case: a labelled look-ahead block ----------------------------
_orig_ev = Analyzer.ev


def _ev_with_lookahead(self, e, env, t):
    if e.get("k") == "block" and e.get("label"):
        writes = [x for x in walk(e) if (x.get("k") == "assign" and ".token_idx" in canon(x["l"])) or
                  (x.get("k") == "bin" and x.get("op") in ("+=", "-=") and ".token_idx" in canon(x["l"]))]
        if writes:
            # opaque look-ahead region: the position is restored on every exit (checked by R23.c),
            # so the current token after the region is still t.  Exits: fall through, or any `return <expr>`.
            outs = [("val", None, env)]
            for r in [x for x in walk(e) if x.get("k") == "return"]:
                if r.get("e") is None:
                    outs.append(("ret", None, env))
                else:
                    for tag, val, en in _orig_ev(self, r["e"], env, t):
                        outs.append(("ret", val, en) if tag == "val" else (tag, val, en))
            return self.dedupe(outs)
    return _orig_ev(self, e, env, t)


Analyzer.ev = _ev_with_lookahead


def recursion_cycles(an):
    """cycles in the graph 'g is entered from f without a token having been consumed since f was entered'.
    Such a cycle is unbounded recursion on one token (left recursion)."""
    import sys
    sys.setrecursionlimit(10000)
    graph = an.edges
    index, low, onst, st, out = {}, {}, set(), [], []
    counter = [0]

    def strong(v):
        index[v] = low[v] = counter[0]
        counter[0] += 1
        st.append(v)
        onst.add(v)
        for w in graph.get(v, ()):
            if w not in index:
                strong(w)
                low[v] = min(low[v], low[w])
            elif w in onst:
                low[v] = min(low[v], index[w])
        if low[v] == index[v]:
            comp = []
            while True:
                w = st.pop()
                onst.discard(w)
                comp.append(w)
                if w == v:
                    break
            if len(comp) > 1 or v in graph.get(v, ()):
                out.append(comp)
    for v in list(graph):
        if v not in index:
            strong(v)
    return out

"""Token-knowledge typestate over the hand-written parser (R23.g): can an `assert!` about the current token fail?

The grammar functions state their dispatch contract as `assert!(p.at(K))` at entry; the caller is expected to have looked.  This module decides,
from the source, that every such assertion holds on every path for every input: a forward analysis keeps the set of (current token, next token)
pairs that are possible at each point.

    state     = set of pairs (t, n), t in K ∪ {<EOF>}, n in the classes of tokens that at_ahead(1, ..) asks about ∪ {<other>, <EOF>}
    refine    : p.at(K), p.at_set(S), p.at_eof(), p.at_ahead(1, S), p.at_eof_ahead(1), matches!(p.peek()/p.kind(), ..), `match p.peek() { .. }`
                arms, bool locals bound to such conditions (valid until the cursor moves), !, &&, ||
    cursor    : every Parser method that may bump (derived from Parser's own source), every call that is handed the parser, every assignment to
                p.token_idx moves the cursor: the state becomes ALL.  `let s = p.token_idx; .. p.token_idx = s;` restores the state of the `let`.
    loops     : conservative - the state at a loop head, and after a loop or a labelled block that is broken out of, is ALL.
    contract  : pre(f) = the entry pairs for which no assertion of f fails before f's first cursor move (assume/guarantee: computed as a greatest
                fixpoint over all grammar functions); every call site must establish state ⊆ pre(callee); entry points must have pre = ALL.
"""
import synq
from synq import canon, walk

EOF = "<EOF>"
OTHER = "<other>"


class TokState:
    __slots__ = ("pairs", "ver", "entry")

    def __init__(self, pairs, ver, entry):
        self.pairs, self.ver, self.entry = pairs, ver, entry


class Analysis:
    def __init__(self, syn, analyzer):
        """analyzer: progress.Analyzer (token universe, token-set constants, grammar functions)"""
        self.syn = syn
        self.A = analyzer
        self.K = list(analyzer.K)
        self.fns = {n: f for n, f in analyzer.fns.items() if not n.startswith("Parser::")}
        self.pm = {n.split("::", 1)[1]: f for n, f in analyzer.fns.items() if n.startswith("Parser::")}
        # Parser methods that may move the cursor past a non-trivia token
        self.may_bump = {"bump"}
        changed = True
        while changed:
            changed = False
            for name, f in self.pm.items():
                cs = {n["m"] for n in walk(f.body) if n.get("k") == "mcall" and canon(n["r"]) == "self"}
                if name not in self.may_bump and cs & self.may_bump:
                    self.may_bump.add(name)
                    changed = True
        # next-token classes: the tokens some at_ahead(1, ..) asks about
        asked = set()
        for f in self.fns.values():
            env = self.A.base_env(f, ())
            for n in walk(f.body):
                if n.get("k") == "mcall" and n["m"] == "at_ahead" and len(n["a"]) == 2 and synq.int_value(n["a"][0]) == 1:
                    s = self.A.tokenset(n["a"][1], env)
                    if s != "UNK":
                        asked |= set(s)
        self.N = sorted(asked) + [OTHER, EOF]
        self.ALL = frozenset((t, n) for t in self.K for n in self.N if not (t == EOF and n != EOF))
        self.pre = {n: self.ALL for n in self.fns}
        self.ver = 0
        self.findings = []      # (fname, line, what)
        self.decided = {}       # (fname, line) -> text of an assertion that was evaluated as a token condition
        self.opaque = {}        # (fname, line) -> assertion with atoms this analysis does not understand
        self.report = False
        self.n_calls = 0
        self.n_bumps = 0
        self.inl = []           # Parser methods being walked inline
        self.lbreaks = {}       # label -> stack of lists of states at `break 'label`
        self.kinds = {}         # (fname, line) -> kind of the requirement a finding is about
        self.depth = 0
        self.rets = []

    # ---- helpers -------------------------------------------------------------------------------------------------------------
    def fresh(self):
        self.ver += 1
        return self.ver

    def all_state(self):
        return TokState(self.ALL, self.fresh(), False)

    def join(self, a, b):
        if a is None:
            return b
        if b is None:
            return a
        if a.ver == b.ver:
            return TokState(a.pairs | b.pairs, a.ver, a.entry and b.entry)
        return TokState(a.pairs | b.pairs, self.fresh(), a.entry and b.entry and False)

    def ncls(self, tok):
        return tok if tok in self.N else OTHER

    def after_bump(self, st):
        """the token that was next is current now; nothing is known about the one after it"""
        nxt = {x[1] for x in st.pairs if x[0] != EOF}
        cur = set()
        for n in nxt:
            if n == EOF:
                cur.add(EOF)
            elif n == OTHER:
                cur |= {t for t in self.K if t != EOF and self.ncls(t) == OTHER}
            else:
                cur.add(n)
        return TokState(frozenset((t, n) for t in cur for n in self.N if not (t == EOF and n != EOF)), self.fresh(), False)

    # ---- conditions ----------------------------------------------------------------------------------------------------------
    def refine(self, c, st, env, fenv):
        """(pairs where c holds, pairs where c does not hold, understood)"""
        P = st.pairs
        k = c.get("k")
        if k == "paren":
            return self.refine(c["e"], st, env, fenv)
        if k == "un" and c.get("op") == "!":
            t, f, u = self.refine(c["e"], st, env, fenv)
            return f, t, u
        if k == "bin" and c.get("op") in ("&&", "||"):
            lt, lf, lu = self.refine(c["l"], st, env, fenv)
            if c["op"] == "&&":
                rt, rf, ru = self.refine(c["r"], TokState(lt, st.ver, st.entry), env, fenv)
                return rt, lf | rf, lu and ru
            rt, rf, ru = self.refine(c["r"], TokState(lf, st.ver, st.entry), env, fenv)
            return lt | rt, rf, lu and ru
        if k == "lit" and c.get("t") == "bool":
            return (P, frozenset(), True) if c["v"] == "true" else (frozenset(), P, True)
        if k == "path" and c["p"] in env:
            b = env[c["p"]]
            if b[0] == "cond" and b[2] == st.ver:
                return self.refine(b[1], st, env, fenv)
            return P, P, False
        if k == "mcall" and canon(c["r"]) in ("p", "self"):
            m, a = c["m"], c["a"]
            if m == "at" and len(a) == 1 and a[0].get("k") == "path":
                kk = None
                if a[0]["p"].startswith("TokenKind::"):
                    kk = a[0]["p"].split("::")[-1]
                elif isinstance(fenv.get(a[0]["p"]), tuple) and fenv[a[0]["p"]][0] == "kind":
                    kk = fenv[a[0]["p"]][1]
                if kk is not None:
                    t = frozenset(x for x in P if x[0] == kk)
                    return t, P - t, True
            if m == "at_raw" and len(a) == 1 and a[0].get("k") == "path" and a[0]["p"].startswith("TokenKind::"):
                # the raw current token (trivia included) is K: then the current token is K; if it is not, nothing is learnt (trivia may stand before a K)
                kk = a[0]["p"].split("::")[-1]
                if kk in self.K:
                    return frozenset(x for x in P if x[0] == kk), P, True
                return P, P, False
            if m == "at_set" and len(a) == 1:
                s = self.A.tokenset(a[0], fenv)
                if s != "UNK":
                    t = frozenset(x for x in P if x[0] in s)
                    return t, P - t, True
            if m == "at_default_recovery_set" and not a and "DEFAULT_RECOVERY_SET" in self.A.consts:
                s = self.A.tokenset(self.A.consts["DEFAULT_RECOVERY_SET"], {})
                if s != "UNK":
                    t = frozenset(x for x in P if x[0] in s)
                    return t, P - t, True
            if m == "at_eof" and not a:
                t = frozenset(x for x in P if x[0] == EOF)
                return t, P - t, True
            if m == "at_ahead" and len(a) == 2 and synq.int_value(a[0]) == 1:
                s = self.A.tokenset(a[1], fenv)
                if s != "UNK" and all(x in self.N for x in s):
                    t = frozenset(x for x in P if x[1] in s)
                    return t, P - t, True
            if m == "at_eof_ahead" and len(a) == 1 and synq.int_value(a[0]) == 1:
                t = frozenset(x for x in P if x[1] == EOF)
                return t, P - t, True
        if k == "macro" and c.get("name", "").rsplit("::", 1)[-1] == "matches" and c.get("e") is not None and canon(c["e"]) in ("p.peek()", "p.kind()") and c.get("g") is None:
            t = self.pat_pairs(c["p"], P)
            if t is not None:
                return t, P - t, True
        return P, P, False

    def pat_pairs(self, pat, P):
        """pairs of P whose current token matches an Option<TokenKind> pattern; None when the pattern is not understood"""
        k = pat.get("k")
        if k == "p_wild" or (k == "p_ident" and not pat["n"][:1].isupper()):
            return P
        if k == "p_or":
            out = frozenset()
            for c in pat["c"]:
                r = self.pat_pairs(c, P)
                if r is None:
                    return None
                out |= r
            return out
        if k in ("p_path", "p_ident") and synq.last_seg(pat.get("p", pat.get("n", ""))) == "None":
            return frozenset(x for x in P if x[0] == EOF)
        if k == "p_ts" and synq.last_seg(pat["p"]) == "Some" and len(pat["e"]) == 1:
            inner = pat["e"][0]
            nonEOF = frozenset(x for x in P if x[0] != EOF)
            if inner.get("k") == "p_wild" or (inner.get("k") == "p_ident" and not inner["n"][:1].isupper()):
                return nonEOF
            kinds = self.kinds_of(inner)
            if kinds is None:
                return None
            return frozenset(x for x in nonEOF if x[0] in kinds)
        return None

    def kinds_of(self, pat):
        k = pat.get("k")
        if k == "p_path" and pat["p"].startswith("TokenKind::"):
            return {pat["p"].split("::")[-1]}
        if k == "p_or":
            out = set()
            for c in pat["c"]:
                r = self.kinds_of(c)
                if r is None:
                    return None
                out |= r
            return out
        return None

    # ---- effects -------------------------------------------------------------------------------------------------------------
    def moves_cursor(self, e):
        """does evaluating expression e (without entering grammar calls, which are handled by the walker) possibly move the cursor?"""
        for n in walk(e):
            if n.get("k") == "mcall" and canon(n["r"]) in ("p", "self") and n["m"] in self.may_bump:
                return True
        return False

    # ---- walker --------------------------------------------------------------------------------------------------------------
    def run_fn(self, fname):
        f = self.fns[fname]
        self.cur = fname
        self.fenv = self.A.base_env(f, ())
        self.excluded = set()
        st = TokState(self.pre[fname], self.fresh(), True)
        self.block(f.body, st, {})
        return self.pre[fname] - frozenset(self.excluded)

    def fail(self, st, bad, ln, what, kind="assert"):
        """pairs `bad` of the state violate a requirement at line ln"""
        if not bad:
            return
        if st.entry:
            self.excluded |= set(bad)
        elif self.report:
            toks = sorted({x[0] for x in bad})
            nx = sorted({x[1] for x in bad})
            where = "Parser::" + self.inl[-1] if self.inl else self.cur
            if self.inl:
                what = "%s (entered from %s)" % (what, self.cur)
                if (where, ln) in self.kinds:
                    return      # one report per site of a Parser method, not one per call site
            self.kinds[(where, ln)] = kind
            self.findings.append((where, ln, "%s; the current token may be %s%s" % (what, ", ".join(toks[:6]) + (" .. (%d kinds)" % len(toks) if len(toks) > 6 else ""),
                                                                                    "" if set(nx) >= set(self.N) - {EOF} else " followed by " + ", ".join(nx[:4]))))

    def block(self, b, st, env):
        env = dict(env)
        for s in b["s"]:
            if st is None or not st.pairs:
                return None     # no token pair reaches this point
            st = self.stmt(s, st, env)
        return st

    def stmt(self, s, st, env):
        k = s["k"]
        if k == "local":
            init = s.get("init")
            if init is None:
                return st
            pat = s["p"]
            name = pat.get("n") if pat.get("k") == "p_ident" else None
            if name and canon(init) in ("p.token_idx", "self.token_idx"):
                env[name] = ("cursor", st)
                return st
            if s.get("else") is not None and canon(init) in ("p.peek()", "p.kind()"):
                some = self.pat_pairs(pat, st.pairs)
                if some is not None:
                    self.expr(s["else"], TokState(st.pairs - some, st.ver, st.entry), env)
                    return TokState(some, st.ver, st.entry)
            st2 = self.expr(init, st, env)
            if s.get("else") is not None and st2 is not None:
                self.expr(s["else"], st2, env)
            if name and st2 is not None:
                _, _, und = self.refine(init, st2, env, self.fenv)
                if und and st2.ver == st.ver:
                    env[name] = ("cond", init, st2.ver)
                else:
                    env.pop(name, None)
            return st2
        if k == "expr":
            return self.expr(s["e"], st, env)
        return st

    def seq(self, es, st, env):
        for e in es:
            if st is None:
                return None
            if e is not None:
                st = self.expr(e, st, env)
        return st

    def expr(self, e, st, env):
        if st is None or e is None or not isinstance(e, dict):
            return st
        k = e.get("k")
        if k == "block":
            if e.get("label"):
                # the state behind a labelled block joins the state at its end with the states at every `break 'label`
                self.lbreaks.setdefault(e["label"], []).append([])
                out = self.block(e, st, env)
                for s_ in self.lbreaks[e["label"]].pop():
                    out = self.join(out, s_)
                return out
            return self.block(e, st, env)
        if k == "if":
            c = e["c"]
            if c.get("k") == "let":
                st1 = self.expr(c["e"], st, env)
                if st1 is None:
                    return None
                if canon(c["e"]) in ("p.peek()", "p.kind()"):
                    m = self.pat_pairs(c["p"], st1.pairs)
                    tt = TokState(m if m is not None else st1.pairs, st1.ver, st1.entry)
                    ff = TokState(st1.pairs - m if m is not None else st1.pairs, st1.ver, st1.entry)
                else:
                    tt = ff = st1
            else:
                st1 = self.cond_effects(c, st, env)
                if st1 is None:
                    return None
                t, f, _ = self.refine(c, st1, env, self.fenv)
                if st1.ver != st.ver:
                    t = f = st1.pairs
                tt, ff = TokState(t, st1.ver, st1.entry), TokState(f, st1.ver, st1.entry)
            a = self.block(e["t"], tt, env)
            b = self.expr(e["e"], ff, env) if e.get("e") is not None else ff
            return self.join(a, b)
        if k == "match":
            st1 = self.expr(e["e"], st, env)
            if st1 is None:
                return None
            on_tok = canon(e["e"]) in ("p.peek()", "p.kind()")
            remaining = st1.pairs
            out = None
            for arm in e["arms"]:
                cur = remaining
                if on_tok:
                    m = self.pat_pairs(arm["p"], remaining)
                    if m is not None:
                        cur = m
                ast = TokState(cur, st1.ver, st1.entry)
                if arm.get("g") is not None:
                    ast2 = self.cond_effects(arm["g"], ast, env)
                    if ast2 is None:
                        continue
                    gt, gf, gu = self.refine(arm["g"], ast2, env, self.fenv)
                    if ast2.ver != ast.ver:
                        gt = gf = ast2.pairs
                    body_st = TokState(gt, ast2.ver, ast2.entry)
                    if on_tok and m is not None and gu:
                        remaining = (remaining - cur) | gf
                else:
                    body_st = ast
                    if on_tok and m is not None:
                        remaining = remaining - cur
                out = self.join(out, self.expr(arm["b"], body_st, dict(env)))
            return out
        if k in ("loop", "while", "for"):
            head = self.all_state()
            if k == "while":
                c = e["c"]
                if c.get("k") != "let":
                    h2 = self.cond_effects(c, head, env)
                    if h2 is not None:
                        t, f, _ = self.refine(c, h2, env, self.fenv)
                        head = TokState(t if h2.ver == head.ver else h2.pairs, h2.ver, False)
                else:
                    self.expr(c["e"], head, env)
            if k == "for":
                self.expr(e["e"], st, env)
            self.block(e["b"], head, dict(env))
            return self.all_state()
        if k in ("return", "break"):
            st1 = self.expr(e.get("e"), st, env)
            if k == "return" and self.depth > 0 and st1 is not None:
                self.rets.append(st1)
            if k == "break" and e.get("label") and self.lbreaks.get(e["label"]) and st1 is not None:
                self.lbreaks[e["label"]][-1].append(st1)
            return None
        if k == "continue":
            return None
        if k == "try":
            return self.expr(e["e"], st, env)
        if k == "closure":
            inner = self.expr(e["b"], st, dict(env))
            return self.join(st, inner)
        if k == "macro":
            n = e["name"].rsplit("::", 1)[-1]
            args = e.get("a") if isinstance(e.get("a"), list) else []
            if n in ("assert", "debug_assert") and args:
                st1 = self.cond_effects(args[0], st, env)
                if st1 is None:
                    return None
                t, f, und = self.refine(args[0], st1, env, self.fenv)
                key = (self.cur, e["ln"])
                if und and st1.ver == st.ver:
                    self.decided[key] = canon(args[0])
                    self.fail(st1, f, e["ln"], "assert!(%s) can fail" % canon(args[0])[:60])
                    return TokState(t, st1.ver, st1.entry)
                self.opaque[key] = "%s!(%s)" % (n, canon(args[0])[:80])
                return st1
            if n in ("assert_eq", "assert_ne", "debug_assert_eq", "debug_assert_ne"):
                self.opaque[(self.cur, e["ln"])] = "%s!(%s)" % (n, ", ".join(canon(a)[:40] for a in args[:2]))
                return self.seq(args, st, env)
            if n in ("unreachable", "panic", "todo", "unimplemented"):
                self.opaque[(self.cur, e["ln"])] = "%s!(..)" % n
                if self.report and not st.entry:
                    pass
                return None
            return self.seq(args, st, env)
        if k == "call":
            st1 = self.seq(e["a"], st, env)
            if st1 is None:
                return None
            name = e["f"]["p"].rsplit("::", 1)[-1] if e["f"].get("k") == "path" else None
            if name in self.fns and e["a"] and canon(e["a"][0]) == "p":
                self.n_calls += 1
                bad = st1.pairs - self.pre[name]
                self.fail(st1, bad, e["ln"], "%s is entered where its entry assertion (%s) is not established" % (name, self.contract_text(name)))
                return self.all_state()
            if any(canon(a) == "p" for a in e["a"]):
                return self.all_state()
            return st1
        if k == "mcall":
            st1 = self.seq([e["r"]] + e["a"], st, env)
            if st1 is None:
                return None
            if canon(e["r"]) in ("p", "self") and e["m"] in self.may_bump:
                if e["m"] == "bump":
                    # the cursor never moves past the end of the input: bump() needs a current token
                    self.n_bumps += 1
                    self.fail(st1, frozenset(x for x in st1.pairs if x[0] == EOF), e["ln"], "bump() is reached where the input may be at its end", kind="bump-at-eof")
                    return self.after_bump(st1)
                if e["m"] not in self.pm or self.depth > 6:
                    return self.all_state()
                return self.inline(self.pm[e["m"]], e["a"], st1)
            return st1
        if k == "assign" or (k == "bin" and e.get("op", "").endswith("=") and e["op"] not in ("==", "!=", "<=", ">=")):
            lhs = e["l"]
            st1 = self.expr(e["r"], st, env)
            if st1 is None:
                return None
            if canon(lhs) in ("p.token_idx", "self.token_idx"):
                r = e["r"]
                if k == "assign" and r.get("k") == "path" and env.get(r["p"], (None,))[0] == "cursor":
                    # the cursor is put back where it was: the same token is current again (and the conditions bound before are valid again)
                    saved = env[r["p"]][1]
                    return TokState(saved.pairs, saved.ver, saved.entry)
                return self.all_state()
            if lhs.get("k") == "path":
                env.pop(lhs["p"], None)
            return st1
        if k == "bin":
            if e["op"] in ("&&", "||"):
                st1 = self.expr(e["l"], st, env)
                st2 = self.expr(e["r"], st1, env)
                return self.join(st1, st2)
            return self.seq([e["l"], e["r"]], st, env)
        if k == "let":
            return self.expr(e["e"], st, env)
        if k == "struct":
            return self.seq([f[1] for f in e["f"]] + [e.get("rest")], st, env)
        if k in ("un", "ref", "cast", "field", "paren"):
            return self.expr(e["e"], st, env)
        if k == "index":
            return self.seq([e["e"], e["i"]], st, env)
        if k in ("tuple", "array"):
            return self.seq(e["e"], st, env)
        if k == "range":
            return self.seq([e.get("lo"), e.get("hi")], st, env)
        return st

    def inline(self, f, args, st):
        """a Parser method that may bump, entered in state st: its own conditions decide whether it does (expect_with_no_skip / error_with_no_skip
        never skip a token they do not expect).  Parameters of token-set / token-kind type are bound to the caller's values."""
        names = f.param_names()
        new_env = {}
        for i, a in enumerate(args):
            pn = names[i + 1] if i + 1 < len(names) else None
            if pn is None:
                continue
            ty = f.params[i + 1].get("ty", "")
            if "TokenSet" in ty:
                sset = self.A.tokenset(a, self.fenv)
                if sset != "UNK":
                    new_env[pn] = ("set", sset)
            elif "TokenKind" in ty and a.get("k") == "path":
                if a["p"].startswith("TokenKind::"):
                    new_env[pn] = ("kind", a["p"].split("::")[-1])
                elif isinstance(self.fenv.get(a["p"]), tuple) and self.fenv[a["p"]][0] == "kind":
                    new_env[pn] = self.fenv[a["p"]]
        saved_fenv, saved_rets = self.fenv, self.rets
        self.fenv, self.rets = dict(self.A.base_env(f, ()), **new_env), []
        self.depth += 1
        self.inl.append(f.qual.rsplit("::", 1)[-1])
        try:
            out = self.block(f.body, st, {})
            for r in self.rets:
                out = self.join(out, r)
        finally:
            self.inl.pop()
            self.depth -= 1
            self.fenv, self.rets = saved_fenv, saved_rets
        return out if out is not None else self.all_state()

    def cond_effects(self, c, st, env):
        """the state after the condition's own calls (a condition that bumps loses the knowledge)"""
        if self.moves_cursor(c) or any(n.get("k") == "call" and any(canon(a) == "p" for a in n["a"]) for n in walk(c)):
            return self.expr(c, st, env)
        return st

    def contract_text(self, name):
        own = [v for (fn, ln), v in sorted(self.decided.items()) if fn == name]
        return own[0][:70] if own else "of a function it enters first"

    # ---- driver --------------------------------------------------------------------------------------------------------------
    def solve(self):
        rounds = 0
        while True:
            rounds += 1
            changed = False
            for name in self.fns:
                new = self.run_fn(name)
                if new != self.pre[name]:
                    self.pre[name] = new
                    changed = True
            if not changed or rounds > 50:
                break
        self.report = True
        self.findings = []
        self.kinds = {}
        self.n_calls = 0
        self.n_bumps = 0
        for name in self.fns:
            self.run_fn(name)
        return rounds

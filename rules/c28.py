"""C28 — imports resolve to the right files and each file is compiled once (DESIGN §3 C28)."""
from core import Rule
import synq
from synq import canon, walk
import facts as FA
from facts import short, strip_generics, show_chain, walk_chain, chain_calls

PROPERTY = "C28"
TITLE = "Imports resolve to the right files and each file is compiled once"
NEEDS = ("syn", "facts")
TECHNIQUE = "static analysis: guard-precedes-registration on the structured syntax of lower_import, who-may-call on the fake file system switch, dominance of the seen-check before parsing in the import worklist"
EXPLANATION = (
    "(a) in Ctx::lower_import every registration `imports.insert(f)` is preceded, on its path, by the complete list of guards, "
    "each of the shape `if <test> { report <its own diagnostic>; return Missing }`: for #import the `.capy` suffix, resolution as "
    "cwd/importing-file/../p cleaned, is_file(), and inside mod_dir or cwd; for #mod the alphanumeric test, <mod_dir>/<m>/src is a "
    "directory, <mod_dir>/<m>/src/mod.capy is a file; (b) engine A who-may-call: hir::lower is called with the real file system "
    "(fake_file_system = false) by every non-test caller, so the file-system guards are live; (c) engine A on compile_file: in "
    "the import worklist the `source_files.contains_key(&file)` test dominates SourceFile::parse inside the loop, the parsed file "
    "is inserted under source_file.module, and the worklist is fed by build_bodies' imports, so each reachable file is parsed "
    "once even with cycles.")
NOT_DECIDED = [
    "SubDir::is_sub_dir_of / PathClean on all paths (value-level path arithmetic, symlinks)",
    "that `file.name` resolves to that file's own definition (member lookup through Ty::File in hir_ty)",
]
ASSUMPTIONS = ["FileName interning makes equal cleaned paths equal keys"]

B = "hir/src/body.rs"


def guards_before(fn_body, target):
    """guards (cond, diag kinds, returns_missing) that precede `target` in its enclosing blocks"""
    out = []
    for blk in [b for b in walk(fn_body) if b.get("k") == "block" and any(x is target for x in walk(b))]:
        for s in blk["s"]:
            if any(x is target for x in walk(s)):
                break
            if s["k"] == "expr" and s["e"].get("k") == "if":
                iff = s["e"]
                t = canon(iff["t"])
                kinds = [synq.last_seg(x["p"]) for x in walk(iff["t"]) if x.get("k") in ("struct", "path") and "LoweringDiagnosticKind::" in x.get("p", "")]
                out.append((canon(iff["c"]), kinds, "return Expr::Missing" in t, s["ln"], iff["c"]))
            if s["k"] == "local" and s.get("init") is not None and s["init"].get("k") == "if":
                # guards inside `let file = if !fake { ... guards ...; file } else { .. }`
                inner = s["init"]["t"]
                for s2 in inner["s"]:
                    if s2["k"] == "expr" and s2["e"].get("k") == "if":
                        iff = s2["e"]
                        kinds = [synq.last_seg(x["p"]) for x in walk(iff["t"]) if x.get("k") in ("struct", "path") and "LoweringDiagnosticKind::" in x.get("p", "")]
                        out.append((canon(iff["c"]), kinds, "return Expr::Missing" in canon(iff["t"]), s2["ln"], iff["c"]))
    return out


def conjuncts(c):
    """operands of a top-level chain of && (parentheses stripped)"""
    while c.get("k") == "paren":
        c = c["e"]
    if c.get("k") == "bin" and c["op"] == "&&":
        return conjuncts(c["l"]) + conjuncts(c["r"])
    return [c]


def only_and(c):
    """the guard condition is a conjunction of negated tests (a disjunct would make the guard fire more often, a missing negation less)"""
    return all(x.get("k") == "un" and x["op"] == "!" for x in conjuncts(c))


def neg_mcalls(c):
    """method calls that appear directly under a `!` conjunct of the condition"""
    out = []
    for x in conjuncts(c):
        if x.get("k") == "un" and x["op"] == "!":
            e = x["e"]
            while e.get("k") == "paren":
                e = e["e"]
            if e.get("k") == "mcall":
                out.append(e)
    return out


def lit_str(n):
    return n.get("v") if n.get("k") == "lit" else None


def arg_root(m):
    """what an is_sub_dir_of argument is derived from: `mod_dir` (field/var) or `current_dir` (call)"""
    t = canon(m["a"][0]) if m["a"] else ""
    if "current_dir" in t:
        return "current_dir"
    if "mod_dir" in t:
        return "mod_dir"
    return t


def mchain(n):
    """(base expression, [(method, args)...]) of a receiver chain a.m1(..).m2(..)"""
    ms = []
    while n.get("k") == "mcall":
        ms.append((n["m"], n["a"]))
        n = n["r"]
    return n, list(reversed(ms))


def capy_suffix_guard(g):
    """the guard in front of an #import: evaluated on sample import strings, it fires exactly for those that do not end in `.capy` - whatever it is written
    with (ends_with, strip_suffix, a path's extension ..)"""
    from symint import SymInterp
    from absint import Panic, CannotEstablish, Variant

    class PI(SymInterp):
        def default_method(self, recv, m, args, e):
            if isinstance(recv, str):
                if m == "ends_with":
                    return recv.endswith(args[0])
                if m == "starts_with":
                    return recv.startswith(args[0])
                if m == "strip_suffix":
                    return recv[:-len(args[0])] if args[0] and recv.endswith(args[0]) else None
                if m in ("as_str", "as_ref", "to_string", "to_owned", "clone", "to_str", "to_string_lossy", "as_os_str"):
                    return recv
                if m == "len":
                    return len(recv.encode())
                if m == "extension":
                    # std::path::Path::extension: of the last component (trailing separators and `/.` are ignored); none for a dot file
                    comps = [c for c in recv.split("/") if c not in ("", ".")]
                    if not comps or comps[-1] == "..":
                        return None
                    name = comps[-1]
                    if name.startswith(".") and name.count(".") == 1:
                        return None
                    return name.rsplit(".", 1)[1] if "." in name else None
                if m == "to_lowercase":
                    return recv.lower()
            if m in ("is_some_and", "map_or") and (recv is None or isinstance(recv, str)):
                if m == "is_some_and":
                    return False if recv is None else self.call_closure(args[0], [recv])
                return args[0] if recv is None else self.call_closure(args[1], [recv])
            if m in ("is_some", "is_none"):
                return (recv is not None) == (m == "is_some")
            if m == "unwrap_or" and len(args) == 1:
                return args[0] if recv is None else recv
            return super().default_method(recv, m, args, e)

        def binop(self, op, l, r, e):
            if op in ("==", "!=") and (l is None or r is None):
                return (l is r) == (op == "==")
            if op in ("==", "!=") and isinstance(l, str) and isinstance(r, str):
                return (l == r) == (op == "==")
            return super().binop(op, l, r, e)
    free = sorted({x["p"] for x in walk(g) if x.get("k") == "path" and "::" not in x["p"] and x["p"][0].islower()})
    samples = ["a.capy", "lib/greet.capy", "a.cap", "a.txt", "capy", "lib/greet.capy/", "x.capy/.", "x.capy//", "lib/.capy", ".capy", "a.CAPY", "a.capy.txt", "dir.capy/file"]
    for smp in samples:
        it = PI(funcs={"Path::new": lambda i, a: a[0], "std::path::Path::new": lambda i, a: a[0], "Some": lambda i, a: a[0]})
        try:
            fired = it.eval(g, {v: smp for v in free})
        except (Panic, CannotEstablish, KeyError, TypeError, AttributeError):
            return False
        if fired is not (not smp.endswith(".capy")):
            return False
    return True


def r28a(ctx, run):
    f = ctx.syn.fn("Ctx::lower_import", B)
    F = "Ctx::lower_import"
    inserts = [c for c in synq.mcalls(f.body, "insert") if canon(c["r"]) == "self.bodies.imports"]
    if len(inserts) != 2:
        raise LookupError("imports.insert sites in lower_import: %d" % len(inserts))
    mod_ins = [c for c in inserts if any(b.get("k") == "if" and canon(b["c"]) == "is_mod" and any(x is c for x in walk(b["t"])) for b in walk(f.body))]
    imp_ins = [c for c in inserts if c not in mod_ins]
    if len(mod_ins) != 1 or len(imp_ins) != 1:
        raise LookupError("cannot tell the #mod and #import registrations apart")
    need_mod = [
        ("alphanumeric name", lambda g: any(m["m"] == "all" and any(x.get("k") == "mcall" and x["m"] == "is_ascii_alphanumeric" for x in walk(m)) for m in neg_mcalls(g)) and only_and(g), "ModMustBeAlphanumeric"),
        ("<mod_dir>/<m>/src is a directory", lambda g: any(m["m"] == "is_dir" for m in neg_mcalls(g)) and only_and(g), "ModDoesNotExist"),
        ("<mod_dir>/<m>/src/mod.capy is a file", lambda g: any(m["m"] == "is_file" for m in neg_mcalls(g)) and only_and(g), "ModDoesNotContainModFile"),
    ]
    need_imp = [
        ("`.capy` suffix", capy_suffix_guard, "ImportMustEndInDotCapy"),
        ("resolved path is a file", lambda g: any(m["m"] == "is_file" for m in neg_mcalls(g)) and only_and(g), "ImportDoesNotExist"),
        ("inside mod_dir or cwd", lambda g: sorted(arg_root(m) for m in neg_mcalls(g) if m["m"] == "is_sub_dir_of") == ["current_dir", "mod_dir"] and only_and(g), "ImportOutsideCWD"),
    ]
    for ins, need, which in ((mod_ins[0], need_mod, "#mod"), (imp_ins[0], need_imp, "#import")):
        gs = guards_before(f.body, ins)
        for name, pred, diag in need:
            hit = [g for g in gs if pred(g[4])]
            good = len(hit) >= 1 and diag in hit[0][1] and hit[0][2]
            run.check(good, f.site(hit[0][3] if hit else ins["ln"]), "%s: guard `%s` precedes registration, reports %s and returns Missing" % (which, name, diag), F,
                      "guard:%s:%s" % (which, diag), f.file, hit[0][3] if hit else ins["ln"],
                      "%s registration at line %d is not preceded by the guard `%s` (-> %s, return Missing): files that must be rejected are imported" % (which, ins["ln"], name, diag))
        # common guards: argument count, string argument, escape errors
        common = [g for g in gs if "DirectiveMismatchedArgCount" in g[1]] and [g for g in gs if g[0] == "(self.diagnostics.len() != old_diags_len)"]
        run.check(bool(common), f.site(), "%s: argument shape checked before anything else" % which, F, "shape:" + which, f.file, f.ln, "argument count / literal errors must stop the import")
    # path construction (structural: receiver chains of the `let` initialisers, not their text)
    lets = {}
    for x in walk(f.body):
        if x.get("k") == "local" and x.get("init") is not None and x["p"].get("k") == "p_ident":
            lets.setdefault(x["p"]["n"], []).append(x["init"])

    def chain_of(var):
        return [mchain(i) for i in lets.get(var, [])]

    def is_join_chain(ch, base_pred, joins, clean):
        base, ms = ch
        while ms and ms[0][0] in ("unwrap", "expect"):
            ms = ms[1:]
        names = [m for m, _ in ms]
        want = ["join"] * len(joins) + (["clean"] if clean else [])
        if names != want or not base_pred(base):
            return False
        return all(j(args) for j, (_, args) in zip(joins, ms))

    lit = lambda v: (lambda args: len(args) == 1 and lit_str(args[0]) == v)
    var = lambda v: (lambda args: len(args) == 1 and canon(args[0]).lstrip("&") in (v, "self." + v))
    ok_folder = any(is_join_chain(c, lambda b: canon(b) == "self.mod_dir", [var("file"), lit("src")], False) for c in chain_of("mod_folder_path"))
    ok_file = any(is_join_chain(c, lambda b: canon(b) == "mod_folder_path", [lit("mod.capy")], True) for c in chain_of("mod_file_path"))
    run.check(ok_folder and ok_file, f.site(), "#mod resolves to <mod_dir>/<m>/src/mod.capy", F, "mod-path", f.file, f.ln, "#mod must resolve to <mod_dir>/<m>/src/mod.capy")
    # the path that is tested with is_file() in the #import branch, with every local replaced by what it was initialised with (whatever the locals are
    # called): the joins, in order, must be  current_dir / <importing file> / ".." / <the import string>, cleaned
    all_lets = sorted(((x["ln"], x["p"]["n"], x["init"]) for x in walk(f.body) if x.get("k") == "local" and x.get("init") is not None and x["p"].get("k") == "p_ident"),
                      key=lambda t: t[0])

    def resolve(e, at_line, depth=0):
        """components in join order, innermost first; ('clean',) markers for clean()"""
        if depth > 12:
            return [("?",)]
        k = e.get("k")
        if k in ("ref", "paren", "un", "cast", "try"):
            return resolve(e["e"], at_line, depth + 1)
        if k == "mcall":
            if e["m"] == "join" and len(e["a"]) == 1:
                return resolve(e["r"], at_line, depth + 1) + resolve(e["a"][0], at_line, depth + 1)
            if e["m"] == "clean" and not e["a"]:
                return resolve(e["r"], at_line, depth + 1) + [("clean",)]
            if e["m"] in ("unwrap", "expect", "to_path_buf", "as_path", "clone", "to_owned", "as_ref", "to_string", "as_str"):
                return resolve(e["r"], at_line, depth + 1)
            return [("?", canon(e)[:40])]
        if k == "call":
            fn_ = canon(e["f"])
            if fn_.endswith("current_dir"):
                return [("cwd",)]
            if fn_.rsplit("::", 1)[-1] in ("new", "from") and len(e["a"]) == 1:
                return resolve(e["a"][0], at_line, depth + 1)
            return [("?", fn_[:40])]
        if k == "lit":
            v = lit_str(e)
            return [("lit", v)] if v is not None else [("?",)]
        if k == "field" and canon(e) == "self.file_name":
            return [("importer",)]
        if k == "path":
            prev = [t for t in all_lets if t[1] == e["p"] and t[0] < at_line]
            if prev:
                ln_, _, init = prev[-1]
                return resolve(init, ln_, depth + 1)
            return [("import-string", e["p"])]
        if k in ("match", "if", "block"):
            # the text taken out of the directive's string-literal argument
            return [("import-string", "<extracted>")]
        return [("?", canon(e)[:40])]
    tested = [c for c in synq.mcalls(f.body, "is_file") if not any(x is c for b in walk(f.body) if b.get("k") == "if" and canon(b["c"]) == "is_mod" for x in walk(b["t"]))]
    if not tested:
        raise LookupError("the is_file() test of the #import branch")
    comps = resolve(tested[-1]["r"], tested[-1]["ln"] + 1)
    kinds = [c[0] if c[0] != "lit" else "lit:" + c[1] for c in comps]
    ok_imp = kinds[:3] == ["cwd", "importer", "lit:.."] and len(kinds) == 5 and kinds[3] in ("import-string",) and kinds[4] == "clean"
    run.check(ok_imp, f.site(), "#import resolves relative to the importing file's directory: %s" % " / ".join(kinds), F, "import-path",
              f.file, f.ln, "#import must resolve as current_dir / <importing file> / .. / <p>, cleaned; the tested path is built as %s" % " / ".join(kinds))
    # what is registered is what was checked
    for ins, var, which in ((mod_ins[0], "mod_file_path", "#mod"), (imp_ins[0], "file", "#import")):
        arg = canon(ins["a"][0])
        defs = [s for s in walk(f.body) if s.get("k") == "local" and canon(s["p"]) == arg]
        good = bool(defs) and ("self.interner.intern(&%s.to_string_lossy())" % var) in canon(defs[-1]["init"])
        run.check(good, f.site(ins["ln"]), "%s registers the checked path (%s)" % (which, var), F, "registered:" + which, f.file, ins["ln"],
                  "%s must register exactly the path that passed the guards (%s)" % (which, var))


def r28b(ctx, run):
    F = ctx.facts
    callers = []
    for fn in F.fns:
        for c in fn.calls():
            if strip_generics(c.callee) == "hir::lower" or strip_generics(c.callee).endswith("hir::body::lower"):
                callers.append((fn, c))
    if not callers:
        raise LookupError("callers of hir::lower")
    for fn, c in callers:
        owner = strip_generics(fn.parent or fn.path)
        # find the bool argument that is the fake_file_system flag: last bool scalar argument
        flags = [fn.chain_operand(a) for a in c.args]
        scal = [x for x in flags if x.get("kind") == "scalar" and x.get("ty") == "bool"]
        run.check(bool(scal) and scal[-1]["value"] == "false", c.site(), "%s calls hir::lower with fake_file_system = false" % owner, owner, "real-fs", c.file, c.ln,
                  "%s calls hir::lower with a fake file system: the is_file/is_dir/sub-dir guards of imports are skipped" % owner)
    low = ctx.syn.fn("lower", B)
    names = low.param_names()
    run.check("fake_file_system" in names and names[-1] == "fake_file_system", low.site(), "hir::lower's last parameter is the fake_file_system switch", "hir::lower", "param", low.file, low.ln,
              "hir::lower's parameter list changed: %s" % names)


def r28c(ctx, run):
    F = ctx.facts
    fn = F.fn("capy::compile_file")
    CF = "capy::compile_file"
    loops = fn.loops()
    parses = [c for c in fn.calls() if short(c.callee) == "parse" and "SourceFile" in c.callee]
    in_loop = [c for c in parses if any(c.bb in body for h, body in loops)]
    if len(parses) != 2 or len(in_loop) != 1:
        raise LookupError("SourceFile::parse sites: %d (in loop %d)" % (len(parses), len(in_loop)))
    p = in_loop[0]
    cks = [c for c in fn.calls() if short(c.callee) == "contains_key" and any(n.get("var") == "source_files" or n.get("name") == "source_files" for n in walk_chain(fn.chain_operand(c.args[0], depth=5)))]
    good = False
    for ck in cks:
        # the switch on contains_key's result: parse must be reachable only through the `false` side
        dst = ck.dest[0]
        for i, b in enumerate(fn.blocks):
            t = b["t"]
            if t["k"] == "switch" and (t["o"].get("c") or t["o"].get("m") or [None])[0] == dst and fn.dominates(i, p.bb):
                sides = [s for s in fn.succ[i] if s == p.bb or fn.can_reach(s, p.bb, avoid=[i]) or fn.dominates(s, p.bb)]
                dominating = [s for s in fn.succ[i] if fn.dominates(s, p.bb)]
                good = len(dominating) == 1
    run.check(good, p.site(), "in the import worklist, `source_files.contains_key(&file)` decides whether a file is parsed", CF, "parse-once", p.file, p.ln,
              "SourceFile::parse inside the worklist is not guarded by the already-seen test: a file imported twice (or an import cycle) is compiled twice / forever")
    ins = [c for c in fn.calls() if short(c.callee) == "insert" and any(n.get("var") == "source_files" or n.get("name") == "source_files" for n in walk_chain(fn.chain_operand(c.args[0], depth=5)))]
    for c in ins:
        key = fn.chain_operand(c.args[1], depth=6)
        val = fn.chain_operand(c.args[2], depth=6)
        good = any(n.get("kind") == "place" and ".module" in n["proj"] for n in walk_chain(key))
        run.check(good, c.site(), "parsed file stored under its own module key", CF, "store-key@%s" % ("loop" if any(c.bb in body for h, body in loops) else "first"), c.file, c.ln,
                  "a parsed file must be stored under source_file.module (the key imports intern), otherwise the seen-test never hits")
    if len(ins) != 2:
        run.finding(CF, "store-sites", fn.file, fn.lo, "expected two source_files.insert sites, found %d" % len(ins))
    ext = [c for c in fn.calls() if short(c.callee) == "extend" and any(n.get("var") == "current_imports" or n.get("name") == "current_imports" for n in walk_chain(fn.chain_operand(c.args[0], depth=5)))]
    good = len(ext) == 1 and FA.chain_has_call(fn.chain_operand(ext[0].args[1], depth=6), "build_bodies")
    run.check(good, ext[0].site() if ext else "%s:%d" % (fn.file, fn.lo), "the worklist is fed with the imports of every newly parsed file", CF, "feed", fn.file, ext[0].ln if ext else fn.lo,
              "imports discovered in a newly parsed file must be added to the worklist")
    sfn = ctx.syn.fn("compile_file", "capy/src/main.rs")
    wl = [x for x in walk(sfn.body) if x.get("k") == "while" and canon(x["c"]) == "!current_imports.is_empty()"]
    run.check(len(wl) == 1 and "mem::take(&mut current_imports)" in canon(wl[0]["b"]), sfn.site(wl[0]["ln"] if wl else sfn.ln), "worklist runs until no new imports appear", CF, "until-empty",
              sfn.file, wl[0]["ln"] if wl else sfn.ln, "the import worklist must loop until it is empty")


def r28d(ctx, run):
    """containment of paths is decided component by component: `Path::is_sub_dir_of` (the test behind "this import is outside the module and the
    working directory") is evaluated from its source on sample pairs and compared with component-wise prefix - a textual prefix test accepts the sibling
    directory `proj-private` as lying inside `proj`"""
    from symint import SymInterp
    from absint import Obj, Term, Variant, Panic, CannotEstablish
    NM = "hir/src/common/names.rs"
    cands = [f for f in ctx.syn.fns_in(NM) if f.qual.endswith("is_sub_dir_of") and f.body is not None and not f.in_test]
    if len(cands) != 1:
        raise LookupError("impl SubDir for Path: is_sub_dir_of (%d)" % len(cands))
    fn = cands[0]

    class PS(str):
        pass

    class Comps(list):
        path = ""

    def comps(pth):
        out = Comps((["/"] if str(pth).startswith("/") else []) + [c for c in str(pth).split("/") if c])
        out.path = str(pth)
        return out

    def resolver(path):
        last = path.rsplit("::", 1)[-1]
        c = [f for f in ctx.syn.fns_in(NM) if f.body is not None and f.qual.rsplit("::", 1)[-1] == last and not f.in_test]
        return c[0] if len(c) == 1 else None

    class PI(SymInterp):
        def default_method(self, recv, m, args, e):
            if isinstance(recv, PS):
                if m == "components":
                    return comps(recv)
                if m in ("to_string_lossy", "to_str", "as_os_str", "display", "to_string"):
                    return str(recv)
                if m == "starts_with" and isinstance(args[0], PS):
                    a_, b_ = comps(recv), comps(args[0])
                    return list(a_[:len(b_)]) == list(b_)
                if m == "strip_prefix":
                    a_, b_ = comps(recv), comps(args[0])
                    return PS("/".join(a_[len(b_):])) if list(a_[:len(b_)]) == list(b_) else None
            if isinstance(recv, Comps):
                if m == "as_path":
                    return PS(recv.path)
                if m == "clone":
                    c = Comps(recv)
                    c.path = recv.path
                    return c
            if isinstance(recv, list):
                if m == "collect":
                    return recv         # a PathBuf collected from components: still the list of its components
                if m == "starts_with" and isinstance(args[0], (list, PS)):
                    b_ = list(args[0]) if isinstance(args[0], list) else list(comps(args[0]))
                    return list(recv[:len(b_)]) == b_
                if m == "filter":
                    return [x for x in recv if self.call_closure(args[0], [x]) is not False]
                if m == "next":
                    return recv.pop(0) if recv else None
                if m == "all":
                    return all(self.call_closure(args[0], [x]) is True for x in list(recv))
            if isinstance(recv, str) and not isinstance(recv, PS):
                if m == "starts_with":
                    return recv.startswith(args[0])
                if m in ("as_ref", "as_str", "to_string", "into_owned", "to_lowercase") :
                    return recv.lower() if m == "to_lowercase" else recv
                if m == "len":
                    return len(recv)
            if m == "is_some_and":
                return False if recv is None else self.call_closure(args[0], [recv]) is True
            return super().default_method(recv, m, args, e)

        def bind(self, p_, v, env):
            if p_.get("k") in ("p_ts", "p_path", "p_struct") and str(p_.get("p", "")).startswith("Component::") and isinstance(v, str):
                kind = p_["p"].rsplit("::", 1)[-1]
                # the sample paths are unix paths: a root and normal components, no prefix
                return {"Prefix": False, "RootDir": v == "/", "Normal": v != "/", "CurDir": v == ".", "ParentDir": v == ".."}.get(kind, False)
            return super().bind(p_, v, env)

        def eval(self, e, env):
            if e["k"] in ("ref",):
                return self.eval(e["e"], env)
            if e["k"] == "un" and e.get("op") in ("*", "&"):
                return self.eval(e["e"], env)
            return super().eval(e, env)
    subs = ["/x/proj/a.capy", "/x/proj", "/x/proj-private/secret.capy", "/x/pro/a.capy", "/x/projx", "/y/proj/a.capy", "/x/proj/sub/a.capy", "/x", "/x/proj2/a.capy", "/x/Proj/a.capy"]
    bases = ["/x/proj", "/x", "/x/proj/sub"]
    bad = None
    n = 0
    for b in bases:
        for sb in subs:
            n += 1
            want = list(comps(sb)[:len(comps(b))]) == list(comps(b))
            it = PI(resolver=resolver, macros={"matches": lambda i, e, env: False})
            try:
                got = it.run_fn(fn, {"self": PS(sb), fn.param_names()[1]: PS(b)})
            except (Panic, CannotEstablish) as c:
                got = "cannot establish: %s" % getattr(c, "what", c)
            if got is not want and bad is None:
                bad = (sb, b, got, want)
    run.check(bad is None, fn.site(), "is_sub_dir_of agrees with component-wise containment on %d sample pairs" % n, "Path::is_sub_dir_of", "containment", fn.file, fn.ln,
              "is_sub_dir_of(`%s`, `%s`) is %s but the path is %s the base directory component by component: %s" % (
                  bad[0], bad[1], bad[2], "inside" if bad and bad[3] else "NOT inside",
                  "an import from a sibling directory whose name merely starts with the working directory's name is accepted" if bad and not bad[3] else
                  "files of the module / working directory are refused") if bad else "")


def r28e(ctx, run):
    """`name` inside a file denotes THAT file's definition: wherever the type checker or the code generator turns the name of a `LocalGlobal` node (or the
    field of a `file.name` member) into a fully qualified name, the file it pairs the name with is the file of the location whose body the node was
    fetched from - resolved lexically.  A function that carries `(loc, expr)` for an expression of another file and builds `Fqn { file: self.loc.file(), .. }`
    resolves an imported file's alias against the file that happens to be compiled."""
    import prov
    NOISE = ("elem", "branch", "indexed", "const", "arith")

    def origin(tags):
        t = {x for x in tags if x not in NOISE and not x.startswith(("field:Some", "field:Ok", "expr:")) and x not in ("m:get", "m:copied", "m:cloned", "m:unwrap", "m:last_mut", "m:pop", "m:clone",
                                                                                                                         "m:file", "m:wrap", "m:to_naive")}
        if "m:.loc" in t and "param:self" in t:
            return "self.loc"
        ps = sorted(x for x in t if x.startswith("param:") and x != "param:self")
        if ps:
            return ps[0]
        return "/".join(sorted(t))[:60] or "?"
    n = 0
    for g in ctx.syn.fns_in("hir_ty/src/globals.rs") + ctx.syn.fns_in("codegen/src/compiler/functions.rs") + ctx.syn.fns_in("codegen/src/compiler/mod.rs"):
        if g.body is None or g.in_test or "LocalGlobal" not in canon(g.body):
            continue
        P = prov.Prov(g)

        def on(node, sc, g=g, P=P):
            nonlocal n
            if node.get("k") != "struct" or node["p"].rsplit("::", 1)[-1] not in ("Fqn", "NaiveGlobalLoc"):
                return
            fields = {f[0]: f[1] for f in node["f"]}
            if "file" not in fields or "name" not in fields:
                return
            nm = fields["name"]
            # the name comes out of a LocalGlobal node?
            base = nm
            while base.get("k") in ("field", "ref", "un", "paren", "mcall") and base.get("k") != "path":
                base = base.get("e") or base.get("r") or {}
            if base.get("k") != "path":
                return
            b, _ = sc.lookup(base["p"])
            if b is None or not b.get("via") or not any(st[0] == "field" and st[1] == "LocalGlobal" for st in b["via"]) or b["src"][0] is None:
                return
            scrut, sscope = b["src"]
            z = scrut
            while z.get("k") in ("ref", "un", "paren") or (z.get("k") == "mcall" and z["m"] in ("clone", "as_ref", "to_owned", "borrow")):
                z = z["e"] if z.get("k") != "mcall" else z["r"]
            home = None
            if z.get("k") == "index" and z["e"].get("k") == "index" and canon(z["e"]["e"]) == "self.world_bodies":
                fi = z["e"]["i"]
                if fi.get("k") == "mcall" and fi["m"] == "file":
                    home = origin(P.tags(fi["r"], sscope))
            elif z.get("k") == "index" and canon(z["e"]) == "self.bodies":
                home = "self.loc"
            if home is None:
                return
            n += 1
            used = origin(P.tags(fields["file"], sc))
            run.check(used == home, g.site(node["ln"]), "%s: a bare global name is paired with the file of %s, where its node came from" % (g.qual, home), g.qual, "name-in-own-file", g.file, node["ln"],
                      "%s pairs the name of a global that is written in the body of %s with the file of %s: `file.ALIAS`, where the other file says `ALIAS :: VALUE;`, looks `VALUE` "
                      "up in the wrong file (another file's global of that name, or a panic)" % (g.qual, home, used))
        P.visit(on)
    if n < 4:
        raise LookupError("bare global names turned into qualified names with a known home: %d" % n)


def r28f(ctx, run):
    """the inference context looks at ONE file at a time: `self.loc` (whose type tables are read) and `self.bodies` (whose expression nodes are read) name
    the same file.  Wherever a method of GlobalInferenceCtx switches `self.loc` to a location that may lie in another file - to evaluate the definition
    behind `file.name` - it switches `self.bodies` to that file's bodies in the same block, and back.  Otherwise expression #n of the imported file's
    definition is looked up among the expressions of the file being inferred: `other.Bar` silently resolves to whatever sits at that index."""
    G = "hir_ty/src/globals.rs"
    sites = []
    for f in ctx.syn.fns_in(G):
        if f.body is None or f.in_test or not (f.impl_ty or "").startswith("GlobalInferenceCtx"):
            continue
        for blk in [x for x in walk(f.body) if x.get("k") == "block"]:
            for st in blk["s"]:
                # only statements of THIS block (not of nested blocks, which are visited on their own)
                nodes = [st.get("init")] if st.get("k") == "local" else [st.get("e")]
                for top in nodes:
                    if not isinstance(top, dict):
                        continue
                    for n in walk(top):
                        if n.get("k") == "block" and n is not top:
                            break
                        new = None
                        if n.get("k") == "call" and canon(n["f"]).endswith("mem::replace") and len(n["a"]) == 2 and canon(n["a"][0]) == "&mut self.loc":
                            new = n["a"][1]
                        if n.get("k") == "assign" and canon(n["l"]) == "self.loc" and not canon(n["r"]).startswith("old_"):
                            new = n["r"]
                        if new is not None:
                            sites.append((f, blk, st, new))
    if not sites:
        raise LookupError("no site switches self.loc in hir_ty/src/globals.rs")
    for f, blk, st, new in sites:
        text = canon(blk)
        same_file = "self.loc.file()" in canon(new)
        switches_bodies = any((x.get("k") == "call" and canon(x["f"]).endswith("mem::replace") and x["a"] and canon(x["a"][0]) == "&mut self.bodies" and "world_bodies[" in canon(x["a"][1]))
                              or (x.get("k") == "assign" and canon(x["l"]) == "self.bodies" and "world_bodies[" in canon(x["r"])) for s2 in blk["s"] for x in walk(s2))
        restores = any(x.get("k") == "assign" and canon(x["l"]) == "self.bodies" and canon(x["r"]).startswith("old_") for s2 in blk["s"] for x in walk(s2))
        run.check(same_file or (switches_bodies and restores), f.site(st["ln"]), "%s switches self.loc to %s%s" % (f.qual, canon(new)[:30], " together with self.bodies" if switches_bodies else " (same file)"),
                  f.qual, "loc-and-bodies", f.file, st["ln"],
                  "%s switches self.loc to `%s` - a location that may lie in another file - %s: expression indices of that file's definition are then looked up in the bodies of the "
                  "file being inferred, so `other.Bar` (an alias in an imported file) resolves to an unrelated expression of the importing file"
                  % (f.qual, canon(new)[:40], "without switching self.bodies to that file's bodies" if not switches_bodies else "and does not put self.bodies back"))


def rules(ctx):
    return [
        Rule("R28.a", "every import registration is preceded by its complete guard list; resolved paths are the checked ones", 12, r28a),
        Rule("R28.b", "hir::lower runs against the real file system in every non-test caller", 2, r28b),
        Rule("R28.d", "path containment (import outside the module and the working directory) is decided component by component", 1, r28d),
        Rule("R28.e", "`file.name` refers to that file's own definition: a bare global name is qualified with the file its node was fetched from", 4, r28e),
        Rule("R28.f", "the inference context's location and bodies name one file: a switch of self.loc to another file's definition switches self.bodies with it", 1, r28f),
        Rule("R28.c", "each file is parsed once: seen-test dominates parse in the worklist; stored under its own key; worklist fed and drained", 5, r28c),
    ]

"""C01 — well-typed programs run as the semantics prescribe (claimed in part: the structural fragments).

The property as a whole (observable behaviour of every program against a prose semantics) is not decidable
statically.  Its anchors name five mechanisms; for each of them other properties already decide a necessary,
structural fragment.  This check (1) decides the one fragment that is C01's own - the exit status wiring of the
generated C `main` - and (2) re-runs, under C01's name, the fragment rules that are necessary conditions of C01
as well, so that a change to one of C01's anchored mechanisms is reported for C01 too.  Nothing is executed.
"""
from core import Rule
import synq
from synq import canon, walk
import facts as FA
from facts import short, show_chain

PROPERTY = "C01"
TITLE = "Well-typed programs are accepted and run exactly as the semantics prescribe"
NEEDS = ("syn", "facts")
TECHNIQUE = ("static analysis: def-use wiring of the generated C main (exit status) on MIR, plus the necessary structural fragments of the "
             "anchored mechanisms decided by the rules of C02, C03, C07, C08, C09, C10, C11 (abstract evaluation, dominance, def-use)")
EXPLANATION = (
    "C01's own clause: (a) generate_main_function calls the entry point and returns its result converted to the pointer-wide exit "
    "status, or the constant 0 when the entry point's return type is void (def-use chain of the value given to return_, on MIR). "
    "Fragments shared with other properties, each a necessary condition of C01 for the mechanism it names: fault path = puts(message), "
    "exit(1), trap behind brif(cond, pass, fail) (R10.c); bounds check and #unwrap check dominate the access (R10.a/b); instruction "
    "selection of binary operators and casts (R08.a/b/c); integer literals are materialised at their written value (R09.f); operators the "
    "checker accepts have a code-generator arm (R07.d); switch dispatch wiring and tag uses (R11.c); defers on every exit (R03.a/b/c); "
    "tag stores one byte, locals own their slot, stores receive converted values (R02.a/e/f).")
NOT_DECIDED = [
    "the observable behaviour of programs as a whole: that compile_expr_with_args emits, for every expression form and every combination of forms, code whose "
    "effect is the one the language semantics give (needs execution against an independent oracle)",
    "acceptance of every well-typed program (completeness of inference)",
    "Cranelift, the linker and libc",
]
ASSUMPTIONS = ["the fragments named are necessary, not sufficient: a green check says the listed mechanisms have the required shape"]


def r01a(ctx, run):
    F = ctx.facts
    fn = F.fn("codegen::compiler::program::generate_main_function")
    U = "codegen::compiler::program::generate_main_function"
    rets = [c for c in fn.calls() if short(c.callee) == "return_" and "cranelift" in c.callee]
    if len(rets) != 1:
        raise LookupError("return_ in generate_main_function: %d" % len(rets))
    r = rets[0]
    ch = fn.chain_operand(r.args[1], depth=14)
    nodes = list(FA.walk_chain(ch))
    calls = {short(n["callee"]) for n in nodes if n.get("kind") == "call"}
    # the two sources of the exit status
    has_zero = any(n.get("kind") == "call" and short(n["callee"]) == "iconst" and len(n["args"]) >= 3 and n["args"][2].get("kind") == "scalar" and str(n["args"][2].get("value")) == "0"
                   for n in nodes)
    has_result = "cast_ty_to_cranelift" in calls and "inst_results" in calls
    run.check(has_zero and has_result, r.site(), "C main returns iconst 0 (void entry point) or the entry point's result converted by cast_ty_to_cranelift", U, "exit-status", r.file, r.ln,
              "the value returned from the generated C main must be the entry point's result (inst_results(call)[0] through cast_ty_to_cranelift) or the constant 0 for a void "
              "entry point; found %s" % show_chain(ch, 5)[:160])
    # which of the two is selected by the entry point's return type being void
    conds = fn.conditions_of(r.bb, limit=6)
    sel = [c for c in fn.calls() if short(c.callee) == "is_void"]
    run.check(len(sel) >= 1, sel[0].site() if sel else r.site(), "the choice is made on entry_return_ty.is_void()", U, "exit-status-selector", r.file, r.ln,
              "the exit status must be 0 exactly when the entry point returns void (is_void on its return type)")
    # is_void side: the iconst 0 is on the true side
    for s in sel:
        for i, b in enumerate(fn.blocks):
            t = b["t"]
            if t["k"] == "switch" and (t["o"].get("c") or t["o"].get("m") or [None])[0] in (s.dest or []):
                vals, tg = t["vals"], t["t"]
                true_side = tg[vals.index("1")] if "1" in vals else tg[-1]
                false_side = tg[vals.index("0")] if "0" in vals else tg[-1]
                zero_calls = [c for c in fn.calls() if short(c.callee) == "iconst" and len(c.args) >= 3 and fn.chain_operand(c.args[2], depth=3).get("value") in ("0", 0)]
                cast_calls = [c for c in fn.calls() if short(c.callee) == "cast_ty_to_cranelift"]
                z_true = any(c.bb == true_side or fn.can_reach(true_side, c.bb, avoid=[i]) for c in zero_calls) and not any(c.bb == true_side or fn.can_reach(true_side, c.bb, avoid=[i, r.bb]) for c in cast_calls)
                c_false = any(c.bb == false_side or fn.can_reach(false_side, c.bb, avoid=[i]) for c in cast_calls)
                run.check(z_true and c_false, s.site(), "void -> 0; otherwise -> the converted result", U, "exit-status-sides", s.file, s.ln,
                          "the void side must produce the constant 0 and the other side the converted result (void side gives 0: %s, non-void side converts: %s)" % (z_true, c_false))
    # the call is to the declared entry point
    callc = [c for c in fn.calls() if short(c.callee) == "call" and "cranelift" in c.callee]
    good = False
    if callc:
        tgt = fn.chain_operand(callc[0].args[1], depth=10)
        good = FA.chain_has_call(tgt, "declare_func_in_func") and FA.chain_has_call(tgt, "get_func_id")
    run.check(good, callc[0].site() if callc else r.site(), "C main calls the function declared for the entry point (get_func_id(entry_point))", U, "calls-entry", r.file, r.ln,
              "the generated main must call the entry point's own function id")
    # conversion target: unsigned pointer width (R08.d decides cast_ty_to_cranelift's extension)
    cast_calls = [c for c in fn.calls() if short(c.callee) == "cast_ty_to_cranelift"]
    if cast_calls:
        a = [fn.chain_operand(x, depth=6) for x in cast_calls[0].args]
        res = any(FA.chain_has_call(x, "inst_results") for x in a)
        run.check(res, cast_calls[0].site(), "the converted value is the call's first result", U, "exit-status-source", r.file, r.ln,
                  "cast_ty_to_cranelift must be given inst_results(call)[0]")


def r01b(ctx, run):
    import c12
    c12.noeval_law(ctx, run, clauses=("wrapped", "rejected"))


def r01c(ctx, run):
    """literal members: store_struct_fields / store_array_items evaluated from source on a literal whose members are written in another order than
    the declaration.  The initialisers are compiled in the order WRITTEN (their side effects are the program's), each exactly once, into its own
    field's offset with its own field's type."""
    from symint import SymInterp
    from absint import Obj, Term, Variant, Panic, CannotEstablish
    FN = "codegen/src/compiler/functions.rs"
    sf = ctx.syn.fn("FunctionCompiler::store_struct_fields", FN)
    sa = ctx.syn.fn("FunctionCompiler::store_array_items", FN)

    class Mem(Obj):
        pass

    class Ty_(Obj):
        pass

    class SI(SymInterp):
        def __init__(self, **kw):
            super().__init__(**kw)
            self.stores = []

        def eval(self, e, env):
            if e.get("k") == "cast":
                return self.eval(e["e"], env)
            if e.get("k") in ("ref",) or (e.get("k") == "un" and e.get("op") in ("*", "&")):
                return self.eval(e["e"], env)
            return super().eval(e, env)

        def binop(self, op, l, r, e):
            if op == "*" and (isinstance(l, Term) or isinstance(r, Term)):
                return Term("mul", *sorted([repr(l), repr(r)]))
            if op in ("==", "!=") and isinstance(l, Term) and isinstance(r, Term):
                return (l == r) == (op == "==")
            return super().binop(op, l, r, e)

        def default_method(self, recv, m, args, e):
            if isinstance(recv, Obj) and recv.name == "self" and m == "store_expr_in_memory":
                self.stores.append(tuple(args))
                return None
            if isinstance(recv, Mem) and m == "with_offset":
                return ("at", args[0])
            if isinstance(recv, Ty_):
                if m == "is_struct":
                    return True
                if m == "as_struct":
                    return recv.fields["members"]
                if m == "struct_layout":
                    return Obj("StructLayout", offsets=recv.fields["offsets"])
                if m == "stride":
                    return Term("stride")
            if isinstance(recv, Obj) and recv.name == "StructLayout" and m == "offsets":
                return recv.fields["offsets"]
            if m in ("unwrap", "expect") and recv is not None:
                return recv
            if m == "stride" and isinstance(recv, Term):
                return Term("stride")
            if m in ("is_some_and", "map") and len(args) == 1 and not isinstance(recv, list):
                return (False if m == "is_some_and" else None) if recv is None else self.call_closure(args[0], [recv])
            return super().default_method(recv, m, args, e)

    names = [Term("n_a"), Term("n_b"), Term("n_c")]
    ftys = [Term("ty_a"), Term("ty_b"), Term("ty_c")]
    offs = [Term("off_a"), Term("off_b"), Term("off_c")]
    members = [Obj("MemberTy", name=n, ty=t) for n, t in zip(names, ftys)]
    sty = Ty_("Ty", members=members, offsets=offs)
    vals = {0: Term("init_a"), 1: Term("init_b"), 2: Term("init_c")}
    for order in ((2, 0, 1), (1, 2, 0), (0, 1, 2), (2, 1, 0)):
        written = [Obj("MemberLiteral", name=Obj("NameWithRange", name=names[i], range=Term("r")), value=vals[i]) for i in order]
        desc = "T.{%s}" % ", ".join("abc"[i] for i in order)
        it = SI(funcs={"Some": lambda i, a: a[0]}, macros={"assert": lambda i, e, env: None})
        try:
            it.inline(sf, [sty, written, Mem("MemoryLoc")], recv=Obj("self"))
        except (Panic, CannotEstablish) as c:
            run.finding(sf.qual, "member-order:" + desc, sf.file, sf.ln, "cannot establish what store_struct_fields does for %s: %s" % (desc, getattr(c, "what", c)))
            continue
        want = [(vals[i], ftys[i], ("at", offs[i])) for i in order]
        run.check(it.stores == want, sf.site(), "%s: initialisers compiled in the order written, each into its own field" % desc, sf.qual, "member-order:" + desc, sf.file, sf.ln,
                  "for the literal %s (fields declared a, b, c) the initialisers are compiled as %s; they must be compiled in the order written, each once, with its field's type and "
                  "offset: %s - a call or assignment inside an initialiser would otherwise run at another moment than the program says"
                  % (desc, [tuple(map(repr, x)) for x in it.stores], [tuple(map(repr, x)) for x in want]))
    items = [Term("item0"), Term("item1"), Term("item2")]
    it = SI(funcs={"Some": lambda i, a: a[0]})
    try:
        it.inline(sa, [list(items), Term("sub_ty"), Mem("MemoryLoc")], recv=Obj("self"))
        got = [(a[0], a[1]) for a in it.stores]
        offs_ = [a[2] for a in it.stores]
        run.check(got == [(x, Term("sub_ty")) for x in items] and len(set(map(repr, offs_))) == len(items), sa.site(), "array items compiled in the order written, each at its own offset", sa.qual,
                  "item-order", sa.file, sa.ln, "the items of an array literal are compiled as %s at %s; they must be compiled first to last, each once, at idx * stride" % (list(map(repr, got)), list(map(repr, offs_))))
    except (Panic, CannotEstablish) as c:
        run.finding(sa.qual, "item-order", sa.file, sa.ln, "cannot establish what store_array_items does: %s" % getattr(c, "what", c))


def _reuse(modname, fname):
    def f(ctx, run):
        mod = __import__(modname)
        getattr(mod, fname)(ctx, run)
    return f


def rules(ctx):
    return [
        Rule("R01.a", "exit status: C main returns the entry point's converted result, 0 for a void entry point; it calls the declared entry point", 5, r01a),
        Rule("R01.b", "acceptance: a branch that always jumps (return/break/continue) takes no part in the common type of an if/else or switch, for every kind of the other branch's type", 60, r01b),
        Rule("R01.c", "struct literal members and array items are compiled in the order written, each once, into its own field (store_struct_fields / store_array_items evaluated)", 5, r01c),
        Rule("R10.c", "fault path: brif(cond, pass, fail); puts(message), exit(1), trap in order (shared with C10)", 10, _reuse("c10", "r10c")),
        Rule("R10.a", "bounds check dominates every element access (shared with C10)", 7, _reuse("c10", "r10a")),
        Rule("R10.g", "a member access compiles the expression in front of the `.` on every result path (its calls run, its indices are checked; shared with C10)", 1, _reuse("c10", "r10g")),
        Rule("R10.b", "#unwrap check dominates the payload access (shared with C10)", 3, _reuse("c10", "r10b")),
        Rule("R08.a", "binary operator -> Cranelift instruction table (shared with C08)", 27, _reuse("c08", "r08a")),
        Rule("R08.b", "cast_num decision tree (shared with C08)", 144, _reuse("c08", "r08b")),
        Rule("R08.c", "finalize_int width/signedness table (shared with C08)", 20, _reuse("c08", "r08c")),
        Rule("R08.e", "numeric binary expressions take their instruction from the selection table (shared with C08)", 5, _reuse("c08", "r08e")),
        Rule("R09.f", "integer literals are materialised at their written value (shared with C09)", 20, _reuse("c09", "r09f")),
        Rule("R07.d", "operator/type combinations the checker accepts have a code-generator arm (shared with C07)", 80, _reuse("c07", "r07d")),
        Rule("R07.h", "every cast the checker accepts is one the code generator can build (shared with C07)", 100, _reuse("c07", "r07h")),
        Rule("R07.l", "a nested comparison gets the address of an aggregate component, the loaded value of a scalar one (shared with C07)", 10, _reuse("c07", "r07l")),
        Rule("R07.k", "array -> slice is accepted only when the element representation is kept (shared with C07)", 1, _reuse("c07", "r07k")),
        Rule("R07.i", "== / != on aggregates: every component the comparison recurses into has a code-generator arm (shared with C07)", 60, _reuse("c07", "r07i")),
        Rule("R19.b", "an aggregate passed by value arrives whole: every eightbyte that holds a member or a tag is classified, at its offset in the whole argument (shared with C19)", 30, _reuse("c19", "r19b")),
        Rule("R18.a", "type ids: each kind's own discriminant and row index (core.println prints through `any` and these tables; shared with C18)", 60, _reuse("c18", "r18a")),
        Rule("R18.h", "the type id written into an `any` is the id of the value's declared type (shared with C18)", 2, _reuse("c18", "r18h")),
        Rule("R11.h", "arms of a value-yielding switch: value arms carry their value to the exit, jumping arms make no jump to it (shared with C11)", 4, _reuse("c11", "r11h")),
        Rule("R11.c", "switch dispatch wiring and tag uses (shared with C11)", 9, _reuse("c11", "r11c")),
        Rule("R11.d", "variants of one enum get pairwise distinct discriminants (shared with C11)", 1, _reuse("c11", "r11d")),
        Rule("R03.a", "every jump to a scope target passes the defer unwinder (shared with C03)", 2, _reuse("c03", "r03a")),
        Rule("R03.b", "every registered jump target has a frame; unwinder semantics (shared with C03)", 4, _reuse("c03", "r03b")),
        Rule("R03.c", "LIFO; a block's defers run where its end is reached (shared with C03)", 6, _reuse("c03", "r03c")),
        Rule("R02.a", "tag stores/loads move one byte (shared with C02)", 9, _reuse("c02", "r02a")),
        Rule("R02.b", "copy loops store exactly what their offset advances by and stay inside the object (shared with C02)", 3, _reuse("c02", "r02b")),
        Rule("R02.c", "aggregate copies are bounded by the destination type's size(), not stride() (shared with C02)", 6, _reuse("c02", "r02c")),
        Rule("R02.j", "an assignment stores into its destination once, a whole value (shared with C02)", 3, _reuse("c02", "r02j")),
        Rule("R02.i", "an assignment compiles its destination (and its value) once on every path (shared with C02)", 2, _reuse("c02", "r02i")),
        Rule("R02.e", "every local owns its stack slot (shared with C02)", 2, _reuse("c02", "r02e")),
        Rule("R02.f", "write_all receives a converted value (shared with C02)", 5, _reuse("c02", "r02f")),
        Rule("R02.h", "an assignment's value is complete before the destination is written (shared with C02)", 4, _reuse("c02", "r02h")),
        Rule("R09.k", "tables filled while a statement is inferred survive the interruptions of the body's inference (shared with C09)", 1, _reuse("c09", "r09k")),
        Rule("R09.m", "weak-type replacement through a dereference keeps the pointer's mutability (shared with C09)", 6, _reuse("c09", "r09m")),
        Rule("R09.g", "weak-type replacement never retypes index/member expressions (shared with C09)", 5, _reuse("c09", "r09g")),
    ]

"""C01 — well-typed programs run as the semantics prescribe (claimed in part: the structural fragments).

The property as a whole (observable behaviour of every program against a prose semantics) is not decidable
statically.  Its anchors name five mechanisms; for each of them other properties already decide a necessary,
structural fragment.  This check (1) decides the one fragment that is C01's own - the exit status wiring of the
generated C `main` - and (2) re-runs, under C01's name, the fragment rules that are necessary conditions of C01
as well, so that a change to one of C01's anchored mechanisms is reported for C01 too.  Nothing is executed.
"""
from core import Rule
import synq
from synq import canon, walk
import facts as FA
from facts import short, show_chain

PROPERTY = "C01"
TITLE = "Well-typed programs are accepted and run exactly as the semantics prescribe"
NEEDS = ("syn", "facts")
TECHNIQUE = ("static analysis: def-use wiring of the generated C main (exit status) on MIR, plus the necessary structural fragments of the "
             "anchored mechanisms decided by the rules of C02, C03, C07, C08, C09, C10, C11 (abstract evaluation, dominance, def-use)")
EXPLANATION = (
    "C01's own clause: (a) generate_main_function calls the entry point and returns its result converted to the pointer-wide exit "
    "status, or the constant 0 when the entry point's return type is void (def-use chain of the value given to return_, on MIR). "
    "Fragments shared with other properties, each a necessary condition of C01 for the mechanism it names: fault path = puts(message), "
    "exit(1), trap behind brif(cond, pass, fail) (R10.c); bounds check and #unwrap check dominate the access (R10.a/b); instruction "
    "selection of binary operators and casts (R08.a/b/c); integer literals are materialised at their written value (R09.f); operators the "
    "checker accepts have a code-generator arm (R07.d); switch dispatch wiring and tag uses (R11.c); defers on every exit (R03.a/b/c); "
    "tag stores one byte, locals own their slot, stores receive converted values (R02.a/e/f).")
NOT_DECIDED = [
    "the observable behaviour of programs as a whole: that compile_expr_with_args emits, for every expression form and every combination of forms, code whose "
    "effect is the one the language semantics give (needs execution against an independent oracle)",
    "acceptance of every well-typed program (completeness of inference)",
    "Cranelift, the linker and libc",
]
ASSUMPTIONS = ["the fragments named are necessary, not sufficient: a green check says the listed mechanisms have the required shape"]


def r01a(ctx, run):
    F = ctx.facts
    fn = F.fn("codegen::compiler::program::generate_main_function")
    U = "codegen::compiler::program::generate_main_function"
    rets = [c for c in fn.calls() if short(c.callee) == "return_" and "cranelift" in c.callee]
    if len(rets) != 1:
        raise LookupError("return_ in generate_main_function: %d" % len(rets))
    r = rets[0]
    ch = fn.chain_operand(r.args[1], depth=14)
    nodes = list(FA.walk_chain(ch))
    calls = {short(n["callee"]) for n in nodes if n.get("kind") == "call"}
    # the two sources of the exit status
    has_zero = any(n.get("kind") == "call" and short(n["callee"]) == "iconst" and len(n["args"]) >= 3 and n["args"][2].get("kind") == "scalar" and str(n["args"][2].get("value")) == "0"
                   for n in nodes)
    has_result = "cast_ty_to_cranelift" in calls and "inst_results" in calls
    run.check(has_zero and has_result, r.site(), "C main returns iconst 0 (void entry point) or the entry point's result converted by cast_ty_to_cranelift", U, "exit-status", r.file, r.ln,
              "the value returned from the generated C main must be the entry point's result (inst_results(call)[0] through cast_ty_to_cranelift) or the constant 0 for a void "
              "entry point; found %s" % show_chain(ch, 5)[:160])
    # which of the two is selected by the entry point's return type being void
    conds = fn.conditions_of(r.bb, limit=6)
    sel = [c for c in fn.calls() if short(c.callee) == "is_void"]
    run.check(len(sel) >= 1, sel[0].site() if sel else r.site(), "the choice is made on entry_return_ty.is_void()", U, "exit-status-selector", r.file, r.ln,
              "the exit status must be 0 exactly when the entry point returns void (is_void on its return type)")
    # is_void side: the iconst 0 is on the true side
    for s in sel:
        for i, b in enumerate(fn.blocks):
            t = b["t"]
            if t["k"] == "switch" and (t["o"].get("c") or t["o"].get("m") or [None])[0] in (s.dest or []):
                vals, tg = t["vals"], t["t"]
                true_side = tg[vals.index("1")] if "1" in vals else tg[-1]
                false_side = tg[vals.index("0")] if "0" in vals else tg[-1]
                zero_calls = [c for c in fn.calls() if short(c.callee) == "iconst" and len(c.args) >= 3 and fn.chain_operand(c.args[2], depth=3).get("value") in ("0", 0)]
                cast_calls = [c for c in fn.calls() if short(c.callee) == "cast_ty_to_cranelift"]
                z_true = any(c.bb == true_side or fn.can_reach(true_side, c.bb, avoid=[i]) for c in zero_calls) and not any(c.bb == true_side or fn.can_reach(true_side, c.bb, avoid=[i, r.bb]) for c in cast_calls)
                c_false = any(c.bb == false_side or fn.can_reach(false_side, c.bb, avoid=[i]) for c in cast_calls)
                run.check(z_true and c_false, s.site(), "void -> 0; otherwise -> the converted result", U, "exit-status-sides", s.file, s.ln,
                          "the void side must produce the constant 0 and the other side the converted result (void side gives 0: %s, non-void side converts: %s)" % (z_true, c_false))
    # the call is to the declared entry point
    callc = [c for c in fn.calls() if short(c.callee) == "call" and "cranelift" in c.callee]
    good = False
    if callc:
        tgt = fn.chain_operand(callc[0].args[1], depth=10)
        good = FA.chain_has_call(tgt, "declare_func_in_func") and FA.chain_has_call(tgt, "get_func_id")
    run.check(good, callc[0].site() if callc else r.site(), "C main calls the function declared for the entry point (get_func_id(entry_point))", U, "calls-entry", r.file, r.ln,
              "the generated main must call the entry point's own function id")
    # conversion target: unsigned pointer width (R08.d decides cast_ty_to_cranelift's extension)
    cast_calls = [c for c in fn.calls() if short(c.callee) == "cast_ty_to_cranelift"]
    if cast_calls:
        a = [fn.chain_operand(x, depth=6) for x in cast_calls[0].args]
        res = any(FA.chain_has_call(x, "inst_results") for x in a)
        run.check(res, cast_calls[0].site(), "the converted value is the call's first result", U, "exit-status-source", r.file, r.ln,
                  "cast_ty_to_cranelift must be given inst_results(call)[0]")


def r01b(ctx, run):
    import c12
    c12.noeval_law(ctx, run, clauses=("wrapped", "rejected"))


def _reuse(modname, fname):
    def f(ctx, run):
        mod = __import__(modname)
        getattr(mod, fname)(ctx, run)
    return f


def rules(ctx):
    return [
        Rule("R01.a", "exit status: C main returns the entry point's converted result, 0 for a void entry point; it calls the declared entry point", 5, r01a),
        Rule("R01.b", "acceptance: a branch that always jumps (return/break/continue) takes no part in the common type of an if/else or switch, for every kind of the other branch's type", 60, r01b),
        Rule("R10.c", "fault path: brif(cond, pass, fail); puts(message), exit(1), trap in order (shared with C10)", 10, _reuse("c10", "r10c")),
        Rule("R10.a", "bounds check dominates every element access (shared with C10)", 7, _reuse("c10", "r10a")),
        Rule("R10.b", "#unwrap check dominates the payload access (shared with C10)", 3, _reuse("c10", "r10b")),
        Rule("R08.a", "binary operator -> Cranelift instruction table (shared with C08)", 27, _reuse("c08", "r08a")),
        Rule("R08.b", "cast_num decision tree (shared with C08)", 144, _reuse("c08", "r08b")),
        Rule("R08.c", "finalize_int width/signedness table (shared with C08)", 20, _reuse("c08", "r08c")),
        Rule("R08.e", "numeric binary expressions take their instruction from the selection table (shared with C08)", 5, _reuse("c08", "r08e")),
        Rule("R09.f", "integer literals are materialised at their written value (shared with C09)", 20, _reuse("c09", "r09f")),
        Rule("R07.d", "operator/type combinations the checker accepts have a code-generator arm (shared with C07)", 80, _reuse("c07", "r07d")),
        Rule("R07.h", "every cast the checker accepts is one the code generator can build (shared with C07)", 100, _reuse("c07", "r07h")),
        Rule("R07.l", "a nested comparison gets the address of an aggregate component, the loaded value of a scalar one (shared with C07)", 10, _reuse("c07", "r07l")),
        Rule("R07.k", "array -> slice is accepted only when the element representation is kept (shared with C07)", 1, _reuse("c07", "r07k")),
        Rule("R07.i", "== / != on aggregates: every component the comparison recurses into has a code-generator arm (shared with C07)", 60, _reuse("c07", "r07i")),
        Rule("R18.a", "type ids: each kind's own discriminant and row index (core.println prints through `any` and these tables; shared with C18)", 60, _reuse("c18", "r18a")),
        Rule("R18.h", "the type id written into an `any` is the id of the value's declared type (shared with C18)", 2, _reuse("c18", "r18h")),
        Rule("R11.c", "switch dispatch wiring and tag uses (shared with C11)", 9, _reuse("c11", "r11c")),
        Rule("R11.d", "variants of one enum get pairwise distinct discriminants (shared with C11)", 1, _reuse("c11", "r11d")),
        Rule("R03.a", "every jump to a scope target passes the defer unwinder (shared with C03)", 2, _reuse("c03", "r03a")),
        Rule("R03.b", "every registered jump target has a frame; unwinder semantics (shared with C03)", 4, _reuse("c03", "r03b")),
        Rule("R03.c", "LIFO; a block's defers run where its end is reached (shared with C03)", 6, _reuse("c03", "r03c")),
        Rule("R02.a", "tag stores/loads move one byte (shared with C02)", 9, _reuse("c02", "r02a")),
        Rule("R02.b", "copy loops store exactly what their offset advances by and stay inside the object (shared with C02)", 3, _reuse("c02", "r02b")),
        Rule("R02.c", "aggregate copies are bounded by the destination type's size(), not stride() (shared with C02)", 6, _reuse("c02", "r02c")),
        Rule("R02.j", "an assignment stores into its destination once, a whole value (shared with C02)", 3, _reuse("c02", "r02j")),
        Rule("R02.i", "an assignment compiles its destination (and its value) once on every path (shared with C02)", 2, _reuse("c02", "r02i")),
        Rule("R02.e", "every local owns its stack slot (shared with C02)", 2, _reuse("c02", "r02e")),
        Rule("R02.f", "write_all receives a converted value (shared with C02)", 5, _reuse("c02", "r02f")),
        Rule("R02.h", "an assignment's value is complete before the destination is written (shared with C02)", 4, _reuse("c02", "r02h")),
        Rule("R09.k", "tables filled while a statement is inferred survive the interruptions of the body's inference (shared with C09)", 1, _reuse("c09", "r09k")),
        Rule("R09.g", "weak-type replacement never retypes index/member expressions (shared with C09)", 5, _reuse("c09", "r09g")),
    ]

"""C14 — immutable data can never be modified (DESIGN §3 C14)."""
from core import Rule
from absint import Interp, Obj, Term, Variant, Panic, CannotEstablish
import synq
from synq import canon, walk

PROPERTY = "C14"
TITLE = "Immutable data can never be modified"
NEEDS = ("syn",)
TECHNIQUE = "static analysis: abstract evaluation of get_mutability over (expression kind x deref x assignment x pointer-mutability facts), consult-and-reject pairing at both users"
EXPLANATION = (
    "Engine B: (a) the Stmt::Assign inference and the Expr::Ref{mutable:true} inference each consult get_mutability on the "
    "destination/operand and push CannotMutate / MutableRefToImmutableData whenever it yields a diagnostic (the assignment is "
    "skipped afterwards); (b,c) get_mutability is evaluated abstractly for every hir::Expr kind under every combination of the "
    "facts it reads (deref flag, assignment flag, binding mutability, pointer mutability of the relevant type, file member, "
    "directive name); the resulting decision table must (b) classify `::` locals, parameters, globals and file members as "
    "immutable roots and (c) answer Mutable through a dereference only when the pointer type consulted is `^mut` (or the "
    "expression is itself `^mut x`), recursing into the operand otherwise.")
NOT_DECIDED = [
    "that the effect of an accepted assignment is visible through every alias (code generation: C02)",
    "soundness of the recursion across arbitrarily long chains (the table covers one step; each recursive call is itself a row of the table)",
]
ASSUMPTIONS = ["a `:=` local's pointer type agrees with its initialiser's mutability (types are checked by expect_match)"]

FILE = "hir_ty/src/globals.rs"


class TyModel:
    def __init__(self, name, ptr=None, file=False, optional_ptr=None):
        self.name, self.ptr, self.file, self.optional_ptr = name, ptr, file, optional_ptr

    def __repr__(self):
        return "Ty<%s ptr=%s file=%s>" % (self.name, self.ptr, self.file)


class Index2:
    """x[..][..] -> model lookup"""

    def __init__(self, fn):
        self.fn = fn


class I(Interp):
    def __init__(self, cfg):
        Interp.__init__(self)
        self.cfg = cfg
        self.fields = {
            "whole": lambda i, b: Term("range"), "range": lambda i, b: Term("range"), "name": lambda i, b: Term("name"),
            "loc": lambda i, b: Term("loc"), "interner": lambda i, b: Term("interner"), "0": lambda i, b: Term("key"),
        }

    def eval(self, e, env):
        if e.get("k") == "macro" and e.get("name", "").rsplit("::", 1)[-1] == "matches" and e.get("e") is not None:
            v = self.eval(e["e"], env)
            if isinstance(v, Term) and v.op == "rec":
                # the stubbed answer of the recursion is no particular variant: a filter that only acts on a definite answer leaves it as it is
                # (what such a filter does to definite answers is decided by R14.f, which evaluates the recursion)
                return False
        if e.get("k") == "index":
            base = canon(e["e"])
            if base == "self.bodies":
                idx = self.eval(e["i"], env)
                if idx == Term("expr"):
                    return self.cfg["expr"]
                if isinstance(idx, Term) and idx.op == "local_def":
                    return Obj("LocalDef", mutable=self.cfg.get("local_mutable"), value=(Term("value") if self.cfg.get("local_has_value") else None), range=Term("range"))
                return Term("body", idx)
            if base == "self.tys[self.loc]":
                idx = self.eval(e["i"], env)
                key = idx.op if isinstance(idx, Term) else str(idx)
                return self.cfg["tys"].get(key, TyModel(key))
            if base == "self.param_tys":
                return Obj("ParamTy", ty=self.cfg["tys"].get("param", TyModel("param")))
            if base == "self.tys":
                return Term("tys")
        return Interp.eval(self, e, env)

    def default_method(self, recv, m, args, e):
        if m == "get_mutability":
            return Term("rec", *args)
        if isinstance(recv, Obj) and recv.name == "self" and m in self.cfg.get("__helpers", {}):
            # a helper of the same impl that post-processes the answer (asked with the stubbed recursion's answer) runs from its own source
            f = self.cfg["__helpers"][m]
            env2 = {"self": recv}
            for n_, a_ in zip(f.param_names()[1:], args):
                env2[n_] = a_
            from absint import _Return
            try:
                return self.eval(f.body, env2)
            except _Return as r_:
                return r_.v
        if isinstance(recv, TyModel):
            if m == "is_pointer":
                return recv.ptr is not None
            if m == "as_pointer":
                return None if recv.ptr is None else (recv.ptr, Term("sub"))
            if m == "as_ref":
                return Variant("Ty::File", {"0": Term("file")}) if recv.file else Variant("Ty::Other")
            if m == "absolute_ty":
                if recv.optional_ptr is not None:
                    return Variant("Ty::Optional", {"sub_ty": TyModel("sub", ptr=recv.optional_ptr)})
                return Variant("Ty::Other")
        if m == "map" and args and isinstance(args[0], tuple) and args[0] and args[0][0] == "closure":
            if recv is None:
                return None
            _, cl, cenv = args[0]
            env2 = dict(cenv)
            self.bind(cl["params"][0], recv, env2)
            return self.eval(cl["b"], env2)
        if m == "unwrap_or":
            return args[0] if recv is None else recv
        if m in ("range_for_expr", "range_info", "file", "lookup", "first"):
            if m == "lookup":
                return self.cfg.get("directive", "other")
            if m == "first":
                return Term("arg")
            if m == "file":
                return Term("file") if self.cfg.get("same_file", True) else Term("otherfile")
            return Term(m)
        return Interp.default_method(self, recv, m, args, e)


def expr_variants(ctx):
    _, en = ctx.syn.item("enum", "Expr", "hir/src/body.rs")
    return en["variants"]


def payload_for(v, cfg):
    """symbolic payload for an Expr variant"""
    out = {}
    if v["named"]:
        for f in v["fields"]:
            out[f["n"]] = Term(f["n"])
    else:
        for i, f in enumerate(v["fields"]):
            out[str(i)] = Term("f%d" % i)
    n = v["n"]
    if n == "Ref":
        out["mutable"] = cfg["ref_mutable"]
    if n == "Local":
        out["0"] = Term("local_def")
    if n == "Paren":
        out["0"] = Term("inner")
    if n == "Block":
        out["tail_expr"] = Term("tail") if cfg.get("has_tail", True) else None
    if n == "Param":
        out["idx"] = Term("idx")
    return out


def configs_for(name):
    base = [{}]

    def cross(cfgs, key, vals):
        return [dict(c, **{key: v}) for c in cfgs for v in vals]
    cfgs = base
    if name == "Ref":
        cfgs = cross(cfgs, "ref_mutable", [True, False])
    if name == "Local":
        cfgs = cross(cross(cfgs, "local_mutable", [True, False]), "local_has_value", [True, False])
    if name in ("Param", "Cast", "Member"):
        cfgs = cross(cfgs, "ptr", ["mut", "const", None])
    if name == "Cast":
        cfgs = cross(cfgs, "opt", [False, True])
    if name == "Member":
        cfgs = cross(cfgs, "prev_file", [False, True])
        cfgs = cross(cfgs, "prev_ptr", [False, True])
    if name == "Index":
        cfgs = cross(cfgs, "src_ptr", [False, True])
    if name == "Directive":
        cfgs = cross(cfgs, "directive", ["unwrap", "other"])
    if name == "Block":
        cfgs = cross(cfgs, "has_tail", [True, False])
    return cfgs


def table(ctx):
    fn = ctx.syn.fn("GlobalInferenceCtx::get_mutability", FILE)
    helpers = {f.qual.rsplit("::", 1)[-1]: f for f in ctx.syn.fns_in(FILE)
               if f.impl_ty and f.impl_ty.startswith("GlobalInferenceCtx") and f.body is not None and not f.in_test and f.qual.rsplit("::", 1)[-1] != "get_mutability"
               and f.end - f.ln < 40}
    rows = []
    for v in expr_variants(ctx):
        for cfg in configs_for(v["n"]):
            for deref in (False, True):
                for assignment in (False, True):
                    c = dict(cfg)
                    c.setdefault("ref_mutable", False)
                    ptr = {"mut": True, "const": False, None: None}[c.get("ptr")]
                    tys = {}
                    if v["n"] == "Param":
                        tys["param"] = TyModel("param", ptr=ptr)
                    if v["n"] == "Cast":
                        if c.get("opt"):
                            tys["expr"] = TyModel("expr", ptr=None, optional_ptr=ptr)
                        else:
                            tys["expr"] = TyModel("expr", ptr=ptr)
                    if v["n"] == "Member":
                        tys["expr"] = TyModel("expr", ptr=ptr)
                        tys["previous"] = TyModel("previous", ptr=(True if c.get("prev_ptr") else None), file=c.get("prev_file"))
                    if v["n"] == "Index":
                        tys["array"] = TyModel("array", ptr=(True if c.get("src_ptr") else None))
                        tys["source"] = tys["array"]
                    c["tys"] = tys
                    c["__helpers"] = helpers
                    c["expr"] = Variant("Expr::" + v["n"], payload_for(v, c))
                    it = I(c)
                    env = {"self": Obj("self", bodies=Term("bodies"), tys=Term("tys"), interner=Term("interner"), world_index=Term("world_index"),
                                       loc=Term("loc"), param_tys=Term("param_tys")),
                           "expr": Term("expr"), "assignment": assignment, "deref": deref}
                    try:
                        r = it.run_fn(fn, env)
                    except Panic as p:
                        r = Variant("PANIC:" + p.what)
                    rows.append((v["n"], cfg, deref, assignment, r))
    return fn, rows


def res_name(r):
    if isinstance(r, Variant):
        return r.last
    if isinstance(r, Term) and r.op == "rec":
        return "rec(%s, assignment=%s, deref=%s)" % (r.args[0], r.args[1], r.args[2])
    return repr(r)


def r14b(ctx, run):
    fn, rows = table(ctx)
    F = "GlobalInferenceCtx::get_mutability"
    for kind, cfg, deref, assignment, r in rows:
        what = "get_mutability(%s %s, deref=%s, assignment=%s) = %s" % (kind, {k: v for k, v in cfg.items()}, deref, assignment, res_name(r))
        key = "%s:%s:d%d:a%d" % (kind, ",".join("%s=%s" % kv for kv in sorted(cfg.items())), deref, assignment)
        want = None
        if kind == "Local" and not deref:
            want = "Mutable" if cfg["local_mutable"] else "ImmutableBinding"
        elif kind == "LocalGlobal":
            want = "ImmutableGlobal"
        elif kind == "Member" and cfg.get("prev_file"):
            want = "ImmutableGlobal"
        elif kind == "Param" and not (deref and cfg.get("ptr") == "mut"):
            # a parameter itself is never assignable; only through a ^mut parameter with a dereference
            name = res_name(r)
            ok_ = name in ("ImmutableParam", "ImmutableRef", "NotMutatingRefThroughDeref")
            run.check(ok_, fn.site(), what, F, "root:" + key, fn.file, fn.ln, "a parameter must be an immutable root here; " + what)
            continue
        if want is not None:
            run.check(res_name(r) == want, fn.site(), what, F, "root:" + key, fn.file, fn.ln, "immutable-root rule violated: expected %s; %s" % (want, what))
    if len(rows) < 150:
        raise LookupError("decision table rows: %d" % len(rows))


MUTABLE_EXEMPT = {
    "Missing": "an error was already reported for the missing expression",
    "ArrayLiteral": "temporary: assigning into a literal changes no binding",
    "StructLiteral": "temporary: assigning into a literal changes no binding",
}


def r14c(ctx, run):
    fn, rows = table(ctx)
    F = "GlobalInferenceCtx::get_mutability"
    n = 0
    for kind, cfg, deref, assignment, r in rows:
        if not deref:
            continue
        if res_name(r) != "Mutable":
            continue
        n += 1
        what = "get_mutability(%s %s, deref=true, assignment=%s) = Mutable" % (kind, cfg, assignment)
        key = "%s:%s:a%d" % (kind, ",".join("%s=%s" % kv for kv in sorted(cfg.items())), assignment)
        if kind in MUTABLE_EXEMPT:
            run.exempt(fn.site(), what, MUTABLE_EXEMPT[kind])
            continue
        if kind == "Ref" and cfg.get("ref_mutable"):
            run.ok(fn.site(), what + " (the expression is `^mut x`)")
            continue
        if kind == "Local" and not cfg.get("local_has_value"):
            run.exempt(fn.site(), what, "a local without initialiser: pointers have no default value, so it cannot be a pointer that is dereferenced")
            continue
        if cfg.get("ptr") == "mut":
            run.ok(fn.site(), what + " (the pointer type consulted is ^mut)")
            continue
        if kind == "Member" and cfg.get("ptr") is None and not cfg.get("prev_file"):
            run.exempt(fn.site(), what, "deref flag set but the member's own type is not a pointer: only reachable for ill-typed dereferences, which report their own error")
            continue
        if any(f["key"].endswith("mutable-through-deref:%s" % kind) for f in run.findings):
            run.instances.append({"rule": run.rule.id, "site": fn.site(), "what": what, "verdict": "finding"})
            continue
        run.finding(F, "mutable-through-deref:%s" % kind, fn.file, fn.ln,
                    what + " without consulting any pointer type's mutability: writing through `<%s>^` is accepted even when the pointer is `^T` (immutable), "
                    "so data reachable only through an immutable pointer / `::` binding can be modified" % kind.lower(), {"kind": kind})
    if n < 6:
        raise LookupError("Mutable-through-deref rows: %d" % n)
    # without a dereference the expression itself is the target: only a mutable binding (or `^mut x`, or a temporary) is Mutable outright,
    # and a field is exactly as mutable as what holds it
    for kind, cfg, deref, assignment, r in rows:
        if deref:
            continue
        what = "get_mutability(%s %s, deref=false, assignment=%s) = %s" % (kind, cfg, assignment, res_name(r))
        key = "%s:%s:a%d" % (kind, ",".join("%s=%s" % kv for kv in sorted(cfg.items(), key=str)), assignment)
        if res_name(r) == "Mutable":
            if kind in MUTABLE_EXEMPT:
                continue
            good = (kind == "Local" and cfg.get("local_mutable")) or (kind == "Ref" and cfg.get("ref_mutable"))
            run.check(good, fn.site(), what, F, "mutable-target:" + key, fn.file, fn.ln,
                      what + ": an expression that is itself the target of an assignment / `^mut` is Mutable outright only when it is a `:=` binding; everything else "
                      "must ask what holds it (a field of a `::` binding, of a parameter or behind `^T` would become writable)")
        if kind == "Member" and not cfg.get("prev_file"):
            good = isinstance(r, Term) and r.op == "rec" and r.args[0] == Term("previous") and r.args[1] == assignment and r.args[2] == bool(cfg.get("prev_ptr"))
            run.check(good, fn.site(), what, F, "member-holder:" + key, fn.file, fn.ln,
                      what + ": a field that is itself the target is as mutable as its holder: the answer must be get_mutability(previous, assignment, holder is a pointer)")
    # deref-propagating arms recurse with the right flag
    for kind, cfg, deref, assignment, r in rows:
        if kind == "Deref":
            good = isinstance(r, Term) and r.op == "rec" and r.args[2] is True and r.args[1] == assignment
            run.check(good, fn.site(), "Deref recurses into the pointer with deref=true (%s)" % res_name(r), F, "deref-rec:d%d:a%d" % (deref, assignment), fn.file, fn.ln,
                      "Expr::Deref must recurse into its pointer with deref=true; got %s" % res_name(r))
        if kind == "Index":
            good = isinstance(r, Term) and r.op == "rec" and r.args[2] == (deref or bool(cfg.get("src_ptr")))
            run.check(good, fn.site(), "Index recurses into its source with deref |= source is pointer (%s)" % res_name(r), F, "index-rec:%s:d%d:a%d" % (cfg.get("src_ptr"), deref, assignment),
                      fn.file, fn.ln, "Expr::Index must recurse into the source with deref || source_is_pointer; got %s" % res_name(r))
        if kind == "Paren":
            good = isinstance(r, Term) and r.op == "rec" and r.args[2] == deref and r.args[1] == assignment
            run.check(good, fn.site(), "Paren is transparent", F, "paren-rec:d%d:a%d" % (deref, assignment), fn.file, fn.ln, "Expr::Paren must be transparent; got %s" % res_name(r))


def r14a(ctx, run):
    n = 0
    for f in ctx.syn.fns_in(FILE):
        if f.body is None:
            continue
        for x in walk(f.body):
            if x.get("k") == "struct" and x["p"].endswith("TyDiagnostic"):
                fl = {y[0]: y[1] for y in x["f"]}
                kind = canon(fl.get("kind"))
                if kind.endswith("CannotMutate") or kind.endswith("MutableRefToImmutableData"):
                    n += 1
                    # enclosing `if <help>.is_some()` where help = self.get_mutability(..).into_diagnostic()
                    ifs = [y for y in walk(f.body) if y.get("k") == "if" and y["ln"] <= x["ln"] <= y.get("end", y["ln"]) and canon(y["c"]).endswith(".is_some()")
                           and any(z is x for z in walk(y["t"]))]
                    help_var = canon(ifs[-1]["c"])[:-len(".is_some()")] if ifs else None
                    src = [s for s in walk(f.body) if s.get("k") == "local" and canon(s["p"]) == help_var and "get_mutability(" in canon(s["init"]) and canon(s["init"]).endswith(".into_diagnostic()")]
                    good = bool(ifs) and bool(src) and src[-1]["ln"] < x["ln"]
                    which = "CannotMutate" if kind.endswith("CannotMutate") else "MutableRefToImmutableData"
                    run.check(good, f.site(x["ln"]), "%s is pushed iff get_mutability(..).into_diagnostic() is Some" % which, f.qual, "consult:" + which, f.file, x["ln"],
                              "%s is not driven by get_mutability's answer" % which)
                    if good:
                        call = [c for c in walk(src[-1]["init"]) if c.get("k") == "mcall" and c["m"] == "get_mutability"][0]
                        a = [canon(z) for z in call["a"]]
                        want = ["assign_body.dest", "true", "false"] if which == "CannotMutate" else ["*inner", "false", "false"]
                        run.check(a == want, f.site(call["ln"]), "%s consults get_mutability(%s)" % (which, ", ".join(a)), f.qual, "consult-args:" + which, f.file, call["ln"],
                                  "%s must consult get_mutability(%s); found (%s)" % (which, ", ".join(want), ", ".join(a)))
                    if which == "CannotMutate" and good:
                        c = canon(ifs[-1]["t"])
                        run.check(c.rstrip(" }").endswith("continue;") or "continue" in c, f.site(x["ln"]), "a rejected assignment is not processed further", f.qual, "reject-stops", f.file, x["ln"],
                                  "after CannotMutate the assignment must be skipped")
                    if which == "MutableRefToImmutableData" and good:
                        outer = [y for y in walk(f.body) if y.get("k") == "if" and canon(y["c"]) == "*mutable" and any(z is x for z in walk(y["t"]))]
                        run.check(bool(outer), f.site(x["ln"]), "the check runs for every `^mut` reference", f.qual, "ref-guard", f.file, x["ln"],
                                  "the mutability check of `^mut x` must run whenever the reference is mutable")
    if n < 2:
        raise LookupError("CannotMutate / MutableRefToImmutableData sites: %d" % n)
    idg = ctx.syn.fn("ExprMutability::into_diagnostic", FILE)
    m = synq.matches_on(idg.body)[0]
    tbl = {synq.last_seg(h): canon(synq.strip_block(b)) for h, p, g, b, arm in synq.match_table(m)}
    six = ["ImmutableBinding", "NotMutatingRefThroughDeref", "ImmutableRef", "ImmutableParam", "ImmutableGlobal", "CannotMutateExpr"]
    bad = [k for k in six if not tbl.get(k, "").startswith("Some(")]
    run.check(not bad, idg.site(), "into_diagnostic: only Mutable maps to None (%d kinds)" % len(tbl), "ExprMutability::into_diagnostic", "total", idg.file, idg.ln,
              "every non-Mutable answer must produce a diagnostic; offending: %s" % bad)


def r14d(ctx, run):
    """the checker and the code generator agree on what `^mut <expr>` points at: wherever get_mutability looks THROUGH a form to find the place (its
    answer for the form is its answer for the inner expression, same flags - parentheses), the code generator's Ref arm must take the address of that
    inner place as well.  Otherwise `^mut (x)` type-checks as a mutable reference to `x` and the program writes to a copy.  The Ref arm is evaluated
    from source for a local and for a (doubly) parenthesised local."""
    from symint import SymInterp
    from absint import Obj, Term, Variant, Panic, CannotEstablish, _Return
    fnm, rows = table(ctx)
    transparent = sorted({kind for kind, cfg, deref, assignment, r in rows
                          if isinstance(r, Term) and r.op == "rec" and r.args[1] == assignment and r.args[2] == deref and kind in ("Paren",)})
    if "Paren" not in transparent:
        run.ok(fnm.site(), "get_mutability does not look through parentheses: nothing to agree on")
        return
    sfn = ctx.syn.fn("FunctionCompiler::compile_expr_with_args", "codegen/src/compiler/functions.rs")
    arm = None
    for m in synq.matches_on(sfn.body):
        for h, p_, g, b, a in synq.match_table(m):
            if h and h.endswith("Expr::Ref"):
                arm = (p_, b, a)
    if arm is None:
        raise LookupError("Expr::Ref arm of compile_expr_with_args")
    V = Variant
    e0, e1, e2 = Term("e0"), Term("e1"), Term("e2")
    local = V("hir::Expr::Local", {"0": Term("x")})

    def run_ref(bodies, start):
        log = []

        class RI(SymInterp):
            def eval(self, e, env):
                if e.get("k") == "index":
                    base = canon(e["e"])
                    if base.startswith("self.world_bodies["):
                        key = self.eval(e["i"], env)
                        return bodies.get(key, V("hir::Expr::Missing"))
                    if base.startswith("self.tys["):
                        return Obj("ty")
                if e.get("k") in ("ref",) or (e.get("k") == "un" and e.get("op") in ("*", "&")):
                    return self.eval(e["e"], env)
                return super().eval(e, env)

            def default_method(self, recv, m, args, e):
                if isinstance(recv, Obj) and recv.name == "ty":
                    if m == "is_aggregate":
                        return False
                    return Term(m)
                if isinstance(recv, Obj) and recv.name == "self":
                    if m in ("compile_expr_with_args", "compile_expr"):
                        log.append((m, args[0], args[1] if len(args) > 1 else False))
                        return Term("value_of", args[0])
                if m == "is_some":
                    return recv is not None
                if isinstance(recv, (Term, Obj)):
                    if m == "stack_store":
                        log.append(("stack_store", args[0]))
                    return Term(m)
                if m == "is_some":
                    return recv is not None
                return super().default_method(recv, m, args, e)
        it = RI(funcs={"Some": lambda i, a: a[0]})
        env = {"self": Obj("self", builder=Term("builder"), ptr_ty=Term("ptr_ty"), loc=Term("loc")), "no_load": False}
        pat = arm[0]
        if not it.bind(pat, V("hir::Expr::Ref", {"expr": start, "mutable": True}), env):
            raise CannotEstablish("the Ref arm's pattern")
        try:
            it.eval(arm[1], env)
        except _Return:
            pass
        return log
    cases = [("`^mut x`", {e0: local}, e0, e0), ("`^mut (x)`", {e0: V("hir::Expr::Paren", {"0": e1}), e1: local}, e0, e1),
             ("`^mut ((x))`", {e0: V("hir::Expr::Paren", {"0": e1}), e1: V("hir::Expr::Paren", {"0": e2}), e2: local}, e0, e2)]
    for desc, bodies, start, place in cases:
        try:
            log = run_ref(bodies, start)
        except (Panic, CannotEstablish) as c:
            run.finding(sfn.qual, "ref-place:" + desc, sfn.file, arm[2]["ln"], "cannot establish what the Ref arm does for %s: %s" % (desc, getattr(c, "what", c)))
            continue
        addr = [x for x in log if x[0] == "compile_expr_with_args" and x[2] is True]
        copied = [x for x in log if x[0] == "stack_store"]
        good = bool(addr) and not copied
        run.check(good, sfn.site(arm[2]["ln"]), "%s: the address of the place is taken (no copy)" % desc, sfn.qual, "ref-place:" + desc, sfn.file, arm[2]["ln"],
                  "for %s the code generator stores the value into a new stack slot and returns that slot's address, while get_mutability looks through the parentheses and "
                  "answers for `x`: the reference type-checks as a mutable reference to `x`, and writes through it change a copy" % desc)


def r14e(ctx, run):
    """field paths: get_mutability evaluated WITH its own recursion on model bodies.  A field in the middle of a path that is a pointer is dereferenced
    by the next `.field` (auto-deref): writing `h.point.x` writes through `point`, so it needs `point : ^mut _` - whatever `h` is - and a path of
    by-value fields is as mutable as its root.  (The decision table of R14.b looks at one step; the flag it passes down is only right if every level
    asks again.)"""
    from absint import Obj, Term, Variant, Panic, CannotEstablish, _Return
    V = Variant
    fn, TyM, evaluate = gm_machinery(ctx)
    return _r14e_body(ctx, run, fn, TyM, evaluate)


def gm_machinery(ctx):
    """get_mutability evaluated with its own recursion on model bodies: (fn, TyM, evaluate(bodies, tys, locals, params, start) -> name of the answer)"""
    from symint import SymInterp
    from absint import Obj, Term, Variant, Panic, CannotEstablish, _Return
    V = Variant
    fn = ctx.syn.fn("GlobalInferenceCtx::get_mutability", "hir_ty/src/globals.rs")
    helpers = {f.qual.rsplit("::", 1)[-1]: f for f in ctx.syn.fns_in("hir_ty/src/globals.rs") if f.impl_ty and f.impl_ty.startswith("GlobalInferenceCtx") and f.body is not None and not f.in_test}

    class TyM:
        def __init__(self, name, ptr=None, file=False, sub=None):
            self.name, self.ptr, self.file, self.sub = name, ptr, file, sub

    def evaluate(bodies, tys, locals_, params, start):
        class RI(SymInterp):
            def eval(self, e, env):
                if e.get("k") == "index":
                    base = canon(e["e"])
                    if base == "self.bodies":
                        key = self.eval(e["i"], env)
                        if isinstance(key, Term) and key.op.startswith("l"):
                            return locals_[key]
                        return bodies.get(key, V("Expr::Missing"))
                    if base == "self.tys[self.loc]":
                        return tys.get(self.eval(e["i"], env)) or TyM("other")
                    if base == "self.param_tys":
                        return Obj("ParamTy", ty=params.get(self.eval(e["i"], env)) or TyM("other"))
                if e.get("k") in ("ref",) or (e.get("k") == "un" and e.get("op") in ("*", "&")):
                    return self.eval(e["e"], env)
                if e.get("k") == "cast":
                    return self.eval(e["e"], env)
                return super().eval(e, env)

            def default_method(self, recv, m, args, e):
                if isinstance(recv, Obj) and recv.name == "self" and m == "get_mutability":
                    return self.inline(fn, args, recv=recv)
                if isinstance(recv, Obj) and recv.name == "self" and m in helpers and m not in ("get_mutability",):
                    # small helpers of the same impl (asked by get_mutability) run from their own source
                    return self.inline(helpers[m], args, recv=recv)
                if isinstance(recv, TyM):
                    if m == "is_pointer":
                        return recv.ptr is not None
                    if m == "as_pointer":
                        return None if recv.ptr is None else (recv.ptr == "mut", recv.sub if recv.sub is not None else TyM("pointee"))
                    if m in ("as_ref", "absolute_ty"):
                        return V("Ty::File", {"0": Term("file")}) if recv.file else V("Ty::Other")
                if m == "map" and len(args) == 1 and (recv is None or isinstance(recv, tuple)):
                    return None if recv is None else self.call_closure(args[0], [recv])
                if m == "unwrap_or":
                    return args[0] if recv is None else recv
                if isinstance(recv, (Term, Obj)) and m in ("range_for_expr", "range_info", "file", "lookup"):
                    return Term(m)
                return super().default_method(recv, m, args, e)
        it = RI(funcs={"Some": lambda i, a: a[0]})
        selfo = Obj("self", bodies=Term("bodies"), tys=Term("tys"), loc=Term("loc"), world_index=Term("wi"), interner=Term("interner"), param_tys=Term("pt"))
        try:
            r = it.inline(fn, [start, True, False], recv=selfo)
        except _Return as rr:
            r = rr.v
        return r.last if isinstance(r, Variant) else repr(r)
    return fn, TyM, evaluate


def _r14e_body(ctx, run, fn, TyM, evaluate):
    from absint import Obj, Term, Variant, Panic, CannotEstablish, _Return
    V = Variant
    lit = V("Expr::StructLiteral", {"ty": None, "members": []})
    n = 0
    for root_desc, root_mut in (("a `:=` local", True), ("a `::` local", False)):
        for ptr in ("mut", "const", None):
            for depth in (1, 2):
                # l(.h)*.point.x : the by-value prefix has `depth-1` fields, then the (pointer or by-value) field `point`, then `x`
                E = [Term("e%d" % i) for i in range(depth + 3)]
                l1 = Term("l1")
                bodies = {E[0]: V("Expr::Local", {"0": l1}), Term("elit"): lit}
                tys = {E[0]: TyM("Holder")}
                for i in range(1, depth + 2):
                    bodies[E[i]] = V("Expr::Member", {"previous": E[i - 1], "name": Obj("NameWithRange", name=Term("f%d" % i), range=Term("r%d" % i))})
                    tys[E[i]] = TyM("S%d" % i)
                tys[E[depth]] = TyM("point", ptr=ptr)      # the field before the last one
                tys[E[depth + 1]] = TyM("i32")
                locals_ = {l1: Obj("LocalDef", mutable=root_mut, value=Term("elit"), range=Term("lr"))}
                path = "l" + "".join(".f%d" % i for i in range(1, depth)) + ".point.x"
                desc = "%s with l %s and point : %s" % (path, root_desc, {"mut": "^mut P", "const": "^P", None: "P (by value)"}[ptr])
                try:
                    got = evaluate(bodies, tys, locals_, {}, E[depth + 1])
                except (Panic, CannotEstablish) as c:
                    run.finding(fn.qual, "field-path:" + desc, fn.file, fn.ln, "cannot establish the mutability of %s: %s" % (desc, getattr(c, "what", c)))
                    continue
                n += 1
                if ptr == "mut":
                    want_mutable = True
                elif ptr == "const":
                    want_mutable = False
                else:
                    want_mutable = root_mut
                run.check((got == "Mutable") == want_mutable, fn.site(), "%s -> %s" % (desc, got), fn.qual, "field-path:" + desc, fn.file, fn.ln,
                          "assigning to %s is answered %s; it must be %s: a pointer field in the middle of a path is dereferenced by the next field access and decides by its own "
                          "type (`^mut` or not), a path of by-value fields is as mutable as its root" % (desc, got, "Mutable" if want_mutable else "an immutability diagnostic"))
    if n < 10:
        raise LookupError("field paths evaluated: %d" % n)


def r14f(ctx, run):
    """the type has the last word: whatever an expression is made of, if its TYPE is `^T` nothing is changed through it - an explicit `e^ = ..`, and the
    automatic dereference of `e.field = ..` / `e[i] = ..` (which goes through every pointer level), are writable only through `^mut`.  get_mutability
    decides by walking initialisers; evaluated with its own recursion for pointers that come out of an array element, a by-value field, an
    uninitialised local, a local whose initialiser is a `^mut` reference but whose annotation is `^T`, and a `^mut ^S` double pointer."""
    from absint import Obj, Term, Variant, Panic, CannotEstablish
    V = Variant
    fn, TyM, evaluate = gm_machinery(ctx)
    alit, slit = V("Expr::ArrayLiteral", {"ty": None, "items": []}), V("Expr::StructLiteral", {"ty": None, "members": []})
    l1, l2 = Term("l1"), Term("l2")
    e = {k: Term("e_" + k) for k in ("root", "mid", "top", "lit", "ref", "y")}

    def name(n_):
        return Obj("NameWithRange", name=Term(n_), range=Term("r"))
    P_const, P_mut = TyM("^T", ptr="const"), TyM("^mut T", ptr="mut")
    PP = TyM("^mut ^S", ptr="mut", sub=TyM("^S", ptr="const", sub=TyM("S")))
    PPm = TyM("^mut ^mut S", ptr="mut", sub=TyM("^mut S", ptr="mut", sub=TyM("S")))
    cases = []
    # (description, bodies, tys, locals, params, start, must be mutable?)
    for pty, want in ((P_const, False), (P_mut, True)):
        t = pty.name
        cases += [
            ("`arr[0]^ = ..` with arr := .[..] of %s" % t, {e["root"]: V("Expr::Local", {"0": l1}), e["mid"]: V("Expr::Index", {"source": e["root"], "index": Term("i")}),
                                                             e["top"]: V("Expr::Deref", {"pointer": e["mid"]}), e["lit"]: alit},
             {e["root"]: TyM("[2]" + t), e["mid"]: pty, e["top"]: TyM("T")}, {l1: Obj("LocalDef", mutable=True, value=e["lit"], range=Term("lr"))}, e["top"], want),
            ("`s.p^ = ..` with s := S.{..}, p : %s" % t, {e["root"]: V("Expr::Local", {"0": l1}), e["mid"]: V("Expr::Member", {"previous": e["root"], "name": name("p")}),
                                                           e["top"]: V("Expr::Deref", {"pointer": e["mid"]}), e["lit"]: slit},
             {e["root"]: TyM("S"), e["mid"]: pty, e["top"]: TyM("T")}, {l1: Obj("LocalDef", mutable=True, value=e["lit"], range=Term("lr"))}, e["top"], want),
            ("`o^ = ..` with `o : %s;` (no initialiser)" % t, {e["root"]: V("Expr::Local", {"0": l1}), e["top"]: V("Expr::Deref", {"pointer": e["root"]})},
             {e["root"]: pty, e["top"]: TyM("T")}, {l1: Obj("LocalDef", mutable=True, value=None, range=Term("lr"))}, e["top"], want),
            ("`p^ = ..` with `p : %s = ^mut y`" % t, {e["root"]: V("Expr::Local", {"0": l1}), e["top"]: V("Expr::Deref", {"pointer": e["root"]}),
                                                       e["ref"]: V("Expr::Ref", {"mutable": True, "expr": e["y"]}), e["y"]: V("Expr::Local", {"0": l2})},
             {e["root"]: pty, e["top"]: TyM("T"), e["ref"]: P_mut, e["y"]: TyM("T")},
             {l1: Obj("LocalDef", mutable=True, value=e["ref"], range=Term("lr")), l2: Obj("LocalDef", mutable=True, value=Term("v"), range=Term("lr"))}, e["top"], want),
        ]
    for ppty, want in ((PP, False), (PPm, True)):
        cases.append(("`pp.x = ..` with the parameter pp : %s (auto-deref through both levels)" % ppty.name,
                      {e["root"]: V("Expr::Param", {"idx": 0, "range": Term("pr")}), e["top"]: V("Expr::Member", {"previous": e["root"], "name": name("x")})},
                      {e["root"]: ppty, e["top"]: TyM("i32")}, {}, e["top"], want))
        cases.append(("`pp[i] = ..` with the parameter pp : %s (an index goes through both levels too)" % ppty.name.replace("S", "[3]T"),
                      {e["root"]: V("Expr::Param", {"idx": 0, "range": Term("pr")}), e["top"]: V("Expr::Index", {"source": e["root"], "index": Term("i")})},
                      {e["root"]: ppty, e["top"]: TyM("T")}, {}, e["top"], want))
        cases.append(("`l[i] = ..` with `l := pp`, pp : %s" % ppty.name.replace("S", "[3]T"),
                      {e["root"]: V("Expr::Local", {"0": l1}), e["top"]: V("Expr::Index", {"source": e["root"], "index": Term("i")}), e["y"]: V("Expr::Param", {"idx": 0, "range": Term("pr")})},
                      {e["root"]: ppty, e["top"]: TyM("T"), e["y"]: ppty}, {l1: Obj("LocalDef", mutable=True, value=e["y"], range=Term("lr"))}, e["top"], want))
    cases.append(("`pp^ = ..` with the parameter pp : ^mut ^S (one level: the inner pointer itself is replaced)",
                  {e["root"]: V("Expr::Param", {"idx": 0, "range": Term("pr")}), e["top"]: V("Expr::Deref", {"pointer": e["root"]})},
                  {e["root"]: PP, e["top"]: PP.sub}, {}, e["top"], True))
    n = 0
    for desc, bodies, tys, locals_, start, want in cases:
        params = {0: tys[e["root"]]}
        try:
            got = evaluate(bodies, tys, locals_, params, start)
        except (Panic, CannotEstablish) as c:
            run.finding(fn.qual, "type-last-word:" + desc, fn.file, fn.ln, "cannot establish the mutability of %s: %s" % (desc, getattr(c, "what", c)))
            continue
        n += 1
        run.check((got == "Mutable") == want, fn.site(), "%s -> %s" % (desc, got), fn.qual, "type-last-word:" + desc, fn.file, fn.ln,
                  "%s is answered %s; it must be %s: only a `^mut` pointer type allows a write through it, however the pointer value was obtained (an element of a mutable "
                  "array, a field, an initialiser that happens to be a `^mut` reference)" % (desc, got, "Mutable" if want else "an immutability diagnostic"))
    if n < 10:
        raise LookupError("pointer-typed places evaluated: %d" % n)


def r14g(ctx, run):
    """no second, writable view of a pointer slot under a weaker pointee type: behind a `^mut` pointer (and inside a slice or array, whose items can be
    assigned) the pointee type is invariant in its mutability - `^mut ^mut T` is NOT accepted where `^mut ^T` is expected, or an immutable pointer can
    be stored through the second view and written through the first (`q : ^mut ^i32 = ^mut p; q^ = ^limit; p^ = 42;`).  can_fit_into is evaluated from
    source (c12.World) on pointer-to-pointer pairs."""
    import c12
    from absint import Variant, Panic, CannotEstablish
    V = Variant
    w = c12.World(ctx)
    f = w.fns["can_fit_into"]
    i32 = V("Ty::IInt", {"0": 32})
    P = lambda m, t: V("Ty::Pointer", {"mutable": m, "sub_ty": t})
    S = lambda t: V("Ty::Slice", {"sub_ty": t})
    A = lambda t: V("Ty::ConcreteArray", {"size": 2, "sub_ty": t})
    cases = [
        ("^mut ^mut i32 -> ^mut ^i32", P(True, P(True, i32)), P(True, P(False, i32)), False),
        ("^mut ^i32 -> ^mut ^mut i32", P(True, P(False, i32)), P(True, P(True, i32)), False),
        ("^mut ^mut i32 -> ^mut ^mut i32", P(True, P(True, i32)), P(True, P(True, i32)), True),
        ("^mut ^i32 -> ^mut ^i32", P(True, P(False, i32)), P(True, P(False, i32)), True),
        ("[]^mut i32 -> []^i32", S(P(True, i32)), S(P(False, i32)), False),
        ("[]^i32 -> []^mut i32", S(P(False, i32)), S(P(True, i32)), False),
        ("^mut [2]^mut i32 -> ^mut [2]^i32", P(True, A(P(True, i32))), P(True, A(P(False, i32))), False),
        ("^mut ^mut ^mut i32 -> ^mut ^mut ^i32", P(True, P(True, P(True, i32))), P(True, P(True, P(False, i32))), False),
        ("^i32 -> ^mut i32", P(False, i32), P(True, i32), False),
        ("^mut i32 -> ^i32", P(True, i32), P(False, i32), True),
    ]
    for desc, a, b, want in cases:
        try:
            got = w.call("can_fit_into", a, [b], top=True)
        except (Panic, CannotEstablish) as c:
            run.finding("Ty::can_fit_into", "pointer-slot:" + desc, f.file, f.ln, "cannot establish can_fit_into for %s: %s" % (desc, getattr(c, "what", c)))
            continue
        run.check(got is want, f.site(), "%s: %s" % (desc, "accepted" if want else "rejected"), "Ty::can_fit_into", "pointer-slot:" + desc, f.file, f.ln,
                  "%s is %s; it must be %s: %s" % (desc, "accepted" if got is True else "rejected" if got is False else got, "accepted" if want else "rejected",
                                               "behind a writable level the pointee's mutability must match exactly - a second view with a weaker pointee type lets an immutable "
                                               "pointer be stored where the first view expects a `^mut`, and data of a `::` binding is then written through it" if not want else
                                               "the pair is the same type (or only drops a write permission at the outermost level)"))


def rules(ctx):
    return [
        Rule("R14.a", "assignment and `^mut` reference consult get_mutability with the right arguments and reject on any diagnostic", 7, r14a),
        Rule("R14.b", "immutable roots: `::` local, parameter, global, file member (decision table of get_mutability)", 40, r14b),
        Rule("R14.e", "field paths through pointer fields: get_mutability evaluated with its own recursion (a middle pointer field decides by its own type)", 10, r14e),
        Rule("R14.f", "the type has the last word: a place reached through an expression of type `^T` is never writable, whatever the expression is made of", 10, r14f),
        Rule("R14.g", "pointee mutability is invariant behind a writable level: `^mut ^mut T` is not a `^mut ^T` (can_fit_into evaluated on pointer-to-pointer pairs)", 10, r14g),
        Rule("R14.d", "`^mut (x)` points at `x`: forms get_mutability looks through are looked through by the code generator's Ref arm", 3, r14d),
        Rule("R14.c", "Mutable through a dereference only behind a `^mut` pointer type; deref/index/paren recursion flags", 20, r14c),
    ]

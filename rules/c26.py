"""C26 — inference scheduling: invariant maintenance of the dependency table (DESIGN §3 C26)."""
from core import Rule
import synq
from synq import canon, walk
import facts as FA
from facts import short, strip_generics

PROPERTY = "C26"
TITLE = "Inference scheduling offers exactly the ready work and detects true cycles"
NEEDS = ("syn", "facts")
TECHNIQUE = "static analysis: who-writes inventory on the representation (MIR field writes), pairing rules per mutator, predicate-consistency across readers, protocol shape at the only client"
EXPLANATION = (
    "The scheduler's representation invariant is num_children(x) = |{c in top : x in parents(c)}|. Decided: each mutator "
    "maintains it in isolation and the readers agree on one readiness predicate: (a) engine A who-writes: num_children is "
    "written only in insert_dep (+1) and remove (-1), parents only in insert_dep; entries of `top` are created/removed only by "
    "the enumerated functions; (b) in insert_dep the +1 on the parent happens iff a NEW edge was recorded (the already-registered "
    "path returns first), in remove one -1 per recorded parent that is still present; (c) peek/peek_all filter num_children == 0, "
    "in_cycle is non-empty AND all != 0, peek_all errs iff non-empty and nothing ready; (d) InferenceCtx::finish takes leaves from "
    "peek_all or, on Err, from peek_all_cyclic; Ok => remove(item), Err(deps) => insert_deps(item, deps); the loop ends iff "
    "is_empty. The property over all histories (e.g. stale reverse edges after a cycle-breaking removal) is model-checking "
    "territory and is NOT decided.")
NOT_DECIDED = [
    "the property over all histories of registrations/completions (model checking): e.g. remove() leaves the removed item in other entries' `parents`, which is harmless only "
    "while removed items are never re-registered with pending children",
    "that infer() reports exactly its unmet dependencies",
]
ASSUMPTIONS = ["IndexMap/IndexSet behave as documented (insert returns whether the value was new)"]

T = "topo/src/lib.rs"


def r26a(ctx, run):
    F = ctx.facts
    writes = {}
    for fn in F.fns:
        if fn.crate != "topo":
            continue
        owner = short(strip_generics(fn.parent or fn.path))
        for b in fn.blocks:
            for s in b["s"]:
                for fld in (".num_children", ".parents", ".top"):
                    if fld in s["p"][1:]:
                        writes.setdefault(fld, set()).add(owner)
                # aggregate construction of Dependencies
                if s["rv"]["k"] == "agg" and s["rv"]["path"].endswith("Dependencies"):
                    writes.setdefault("Dependencies{}", set()).add(owner)
        # mutating method calls on self.top / .parents
        for c in fn.calls():
            nm = short(c.callee)
            if nm in ("insert", "shift_remove", "swap_remove", "remove", "clear", "extend", "entry", "or_insert_with", "get_mut", "retain", "pop", "drain", "insert_full") and "indexmap" in c.callee:
                recv = fn.chain_operand(c.args[0], depth=6) if c.args else {}
                fields = [p for n in FA.walk_chain(recv) if n.get("kind") == "place" for p in n["proj"] if p in (".top", ".parents")]
                for fld in fields[-1:]:
                    writes.setdefault("mutates" + fld + ":" + nm, set()).add(owner)
    allowed = {
        ".num_children": {"insert_dep", "remove"},
        "Dependencies{}": {"new", "clone"},
        "mutates.top:insert": {"insert", "insert_dep"},
        "mutates.top:or_insert_with": {"insert_dep"},
        "mutates.parents:insert": {"insert_dep"},
        "mutates.top:shift_remove": {"remove"},
        "mutates.top:clear": {"clear", "pop_all_cyclic"},
        "mutates.top:extend": {"extend"},
        "mutates.top:entry": {"insert_dep", "insert"},
        "mutates.top:get_mut": {"remove"},
    }
    for k, owners in sorted(writes.items()):
        ok_set = allowed.get(k)
        if ok_set is None:
            if k in (".top", ".parents"):
                run.ok("crates/%s:1" % T, "%s assigned in %s (constructors)" % (k, sorted(owners)))
                continue
            run.finding("topo::TopoSort", "writer:" + k, "crates/" + T, 1, "unreviewed mutation `%s` of the dependency table in %s" % (k, sorted(owners)))
            continue
        extra = owners - ok_set
        run.check(not extra, "crates/%s:1" % T, "%s only in %s" % (k, sorted(owners)), "topo::TopoSort", "writer:" + k, "crates/" + T, 1,
                  "`%s` is performed in %s; only %s maintain the invariant num_children(x) = |{c : x in parents(c)}|" % (k, sorted(extra), sorted(ok_set)))
    if ".num_children" not in writes or len(writes) < 6:
        raise LookupError("writers found: %s" % sorted(writes))


def topo_fn(ctx, name):
    c = [f for f in ctx.facts.fns if f.crate == "topo" and f.kind == "fn" and strip_generics(f.path).endswith("TopoSort::" + name) and "tests" not in f.path]
    if len(c) != 1:
        raise LookupError("topo::TopoSort::%s: %d candidates" % (name, len(c)))
    return c[0]


def mentions_param(ch, name):
    return any(n.get("kind") == "param" and n.get("name") == name for n in FA.walk_chain(ch))


def has_field(ch, field):
    return any(n.get("kind") == "place" and "." + field in n["proj"] for n in FA.walk_chain(ch))


def truth_sides(fn, d, want_true):
    """labels of switch d that correspond to its boolean operand being `want_true` (handles a leading Not)"""
    ch = fn.switch_operand(d)
    neg = False
    while ch.get("kind") == "un" and ch.get("op") == "Not":
        neg = not neg
        ch = ch["of"]
    t = fn.blocks[d]["t"]
    vals = list(t.get("vals", []))
    labels = vals + ["otherwise"] * (len(t["t"]) - len(vals))
    truthy = want_true != neg
    out = []
    for lab in labels:
        is_false = lab == "0"
        if truthy != is_false:
            out.append(lab)
    return out, ch


def r26b(ctx, run):
    # ---- insert_dep: the parent's counter goes up by exactly one, iff a new edge child->parent was recorded -----------------
    fn = topo_fn(ctx, "insert_dep")
    F = "topo::TopoSort::insert_dep"
    ups = fn.field_updates("num_children")
    good = len(ups) == 1 and ups[0][2] == "Add" and ups[0][3] == "1"
    site = "%s:%d" % (fn.file, ups[0][1] if ups else fn.lo)
    base_ok = False
    if ups:
        base = ups[0][4]
        ent = [n for n in FA.chain_calls(base) if short(n["callee"]) == "entry"]
        base_ok = bool(ent) and has_field(ent[0]["args"][0], "top") and mentions_param(ent[0]["args"][1], "parent") and not mentions_param(ent[0]["args"][1], "child")
    run.check(good and base_ok, site, "insert_dep: exactly one `num_children += 1`, on the entry of `parent`", F, "count", fn.file, ups[0][1] if ups else fn.lo,
              "the parent's num_children must be incremented by exactly 1, once, on top[parent] (updates found: %s)" % [(u[1], u[2], u[3], FA.show_chain(u[4], 5)[:60]) for u in ups])
    # edge recording: IndexSet::insert(parents-of-child, parent)
    recs = []
    for c in fn.calls():
        if short(c.callee) == "insert" and len(c.args) == 2 and "IndexSet" in c.callee:
            recv = fn.chain_operand(c.args[0], depth=10)
            if has_field(recv, "parents") and mentions_param(fn.chain_operand(c.args[1], depth=6), "parent"):
                recs.append((c, recv))
    if not recs:
        raise LookupError("no parents.insert(parent) in insert_dep")
    upd_bb = ups[0][0] if ups else None
    good = upd_bb is not None
    detail = []
    for c, recv in recs:
        fresh = any(short(n["callee"]) == "new" and "Dependencies" in n["callee"] for n in FA.chain_calls(recv))
        on_child = fresh or any(short(n["callee"]) == "entry" and mentions_param(n["args"][1], "child") for n in FA.chain_calls(recv))
        if not on_child:
            good = False
            detail.append("line %d records the edge on an entry that is not the child's" % c.ln)
        # the result decides: find the switch on this call's result
        sw = [d for d in range(len(fn.blocks)) if fn.blocks[d]["t"]["k"] == "switch" and any(n.get("kind") == "call" and n.get("bb") == c.bb and n.get("ln") == c.ln
                                                                                                for n in FA.walk_chain(fn.switch_operand(d) or {}))]
        if fresh and not sw:
            continue    # a new entry's parent set is empty: the edge is always new
        if not sw:
            good = False
            detail.append("the result of parents.insert at line %d (was the edge new?) is ignored" % c.ln)
            continue
        for d in sw:
            false_labels, _ = truth_sides(fn, d, False)
            reach = fn.switch_sides(d, upd_bb) if upd_bb is not None else []
            if set(false_labels) & set(reach):
                good = False
                detail.append("the increment is reachable when parents.insert at line %d returned false (edge already recorded)" % c.ln)
    # every path to the increment records an edge
    if upd_bb is not None and fn.can_reach(0, upd_bb, avoid=[c.bb for c, _ in recs]):
        good = False
        detail.append("a path reaches the increment without recording the edge in the child's parents")
    run.check(good, "%s:%d" % (fn.file, recs[0][0].ln), "insert_dep: the increment happens iff a new edge was recorded in the child's `parents` (%d recording sites)" % len(recs), F, "edge", fn.file,
              recs[0][0].ln, "insert_dep must count an edge exactly when it newly records it: " + "; ".join(detail))

    # ---- remove: one decrement per recorded parent that is still present --------------------------------------------------
    r = topo_fn(ctx, "remove")
    R = "topo::TopoSort::remove"
    rem = [c for c in r.calls() if short(c.callee) in ("shift_remove", "swap_remove", "remove") and c.args and has_field(r.chain_operand(c.args[0], depth=5), "top")
           and mentions_param(r.chain_operand(c.args[1], depth=5), "child")]
    ups = r.field_updates("num_children")
    good = len(rem) == 1 and len(ups) == 1 and ups[0][2] == "Sub" and ups[0][3] == "1"
    detail = []
    if good:
        ubb, uln, _, _, base = ups[0]
        gm = [n for n in FA.chain_calls(base) if short(n["callee"]) in ("get_mut", "index_mut", "get_index_mut")]
        lp = [(h, body) for h, body in r.loops() if ubb in body]
        if not gm or not has_field(gm[0]["args"][0], "top") or not lp:
            good = False
            detail.append("the decrement is not applied to top[<each parent>] inside a loop")
        else:
            h, body = min(lp, key=lambda hb: len(hb[1]))
            nxt = [c for c in r.calls_in(body) if short(c.callee) == "next"]
            src_ok = False
            for c in nxt:
                src = r.chain_operand(c.args[0], depth=12)
                if has_field(src, "parents") and any(short(n["callee"]) == short(rem[0].callee) for n in FA.chain_calls(src)):
                    src_ok = True
            if not src_ok:
                good = False
                detail.append("the loop does not iterate the removed entry's `parents`")
            elem_ok = any(short(n["callee"]) == "next" for n in FA.chain_calls(gm[0]["args"][1]))
            if not elem_ok:
                good = False
                detail.append("the entry decremented is not the one named by the loop element")
            # the loop ends only when the iterator is exhausted
            for u, v in r.loop_exit_edges(h, body):
                ch = r.switch_operand(u) if r.blocks[u]["t"]["k"] == "switch" else None
                of = (ch or {}).get("of") or {}
                while of.get("kind") in ("place", "ref", "copy", "move") and isinstance(of.get("base", of.get("of")), dict):
                    of = of.get("base", of.get("of"))
                # the test that leaves the loop is the iterator's own `next()` answer (not a test on something derived from the element)
                if not (ch and ch.get("kind") == "discr" and of.get("kind") == "call" and short(of["callee"]) == "next"):
                    good = False
                    detail.append("the loop over the parents can be left early (edge bb%d -> bb%d): later parents keep a stale count" % (u, v))
            # the loop itself runs whenever an entry was taken out: nothing but "the entry existed" stands between the removal and the loop
            for d, ch, sides in r.conditions_of(h):
                if d in body:
                    continue
                names = {short(n["callee"]) for n in FA.chain_calls(ch)}
                if not (ch.get("kind") == "discr" and names & {short(rem[0].callee)}) or any(n.get("kind") == "place" and any("num_children" in str(x) for x in n.get("proj", [])) for n in FA.walk_chain(ch)):
                    good = False
                    detail.append("whether the parents are uncounted at all depends on %s: an item that completes under that condition leaves its dependents' counts too high "
                                  "(they are never offered again)" % FA.show_chain(ch, 5)[:70])
            # inside an iteration the decrement depends only on the parent still being present
            for d, ch, sides in r.conditions_of(ubb):
                if d not in body:
                    continue
                names = {short(n["callee"]) for n in FA.chain_calls(ch)}
                if not (ch.get("kind") == "discr" and names & {"next", "get_mut", "get_index_mut"}):
                    good = False
                    detail.append("the decrement is conditional on %s" % FA.show_chain(ch, 4)[:60])
    run.check(good, "%s:%d" % (r.file, ups[0][1] if ups else r.lo), "remove: takes the entry out and decrements each recorded parent that is still present, exactly once", R, "count", r.file,
              ups[0][1] if ups else r.lo, "remove must take the entry out and decrement exactly the parents recorded on it (each by 1, if still present): " + "; ".join(detail))
    # ---- insert: a lone item does not disturb an existing entry --------------------------------------------------------------
    ins = topo_fn(ctx, "insert")
    writes = [c for c in ins.calls() if short(c.callee) in ("insert", "insert_full", "or_insert", "or_insert_with", "or_default") and "indexmap" in c.callee]
    good = True
    for c in writes:
        conds = ins.conditions_of(c.bb)
        vac = any(ch.get("kind") == "discr" and any(short(n["callee"]) == "entry" for n in FA.chain_calls(ch)) for d, ch, sides in conds)
        newdep = any(short(n["callee"]) == "new" and "Dependencies" in n["callee"] for a in c.args for n in FA.chain_calls(ins.chain_operand(a, depth=6)))
        if not (vac and newdep) and short(c.callee) == "insert":
            good = False
    run.check(good and not ins.field_updates("num_children"), "%s:%d" % (ins.file, ins.lo), "insert: a lone item gets a fresh zero-count entry only when absent; existing entries untouched",
              "topo::TopoSort::insert", "lone", ins.file, ins.lo, "insert must not disturb an existing entry")


def closure_pred(ctx, parent_fn, call):
    """(op, constant, field) of the closure passed to an iterator adaptor call: a single comparison of a field with a constant"""
    F = ctx.facts
    cl = None
    for a in call.args:
        ch = parent_fn.chain_operand(a, depth=4)
        for n in FA.walk_chain(ch):
            if n.get("kind") == "agg" and n.get("ak") == "closure":
                cl = n["path"]
    if cl is None:
        return None
    cf = [f for f in F.fns if f.path == cl]
    if len(cf) != 1:
        return None
    cf = cf[0]
    rets = [b for b in cf.blocks if b["t"]["k"] == "return"]
    bins = [(s, bi) for bi, b in enumerate(cf.blocks) for s in b["s"] if s["rv"]["k"] == "bin" and s["p"] == [0]]
    if len(bins) != 1 or len([b for b in cf.blocks if not b.get("cleanup")]) != 1 or len(rets) != 1:
        return None
    ch = cf.chain_rvalue(bins[0][0]["rv"], 6, frozenset())
    l, r_ = ch["l"], ch["r"]
    op = ch["op"]
    if l.get("kind") == "scalar":
        l, r_ = r_, l
        op = {"Lt": "Gt", "Gt": "Lt", "Le": "Ge", "Ge": "Le"}.get(op, op)
    fld = [p for n in FA.walk_chain(l) if n.get("kind") == "place" for p in n["proj"] if p.startswith(".") and not p[1:].isdigit()]
    return op, (r_.get("value") if r_.get("kind") == "scalar" else None), (fld[-1] if fld else None)


ZERO = {("Eq", "0"), ("Le", "0"), ("Lt", "1")}
NONZERO = {("Ne", "0"), ("Gt", "0"), ("Ge", "1")}


def r26c(ctx, run):
    for name in ("peek", "peek_all"):
        f = topo_fn(ctx, name)
        flt = [c for c in f.calls() if short(c.callee) == "filter"]
        pred = closure_pred(ctx, f, flt[0]) if len(flt) == 1 else None
        good = pred is not None and (pred[0], pred[1]) in ZERO and pred[2] == ".num_children"
        run.check(good, "%s:%d" % (f.file, f.lo), "%s offers exactly the entries with num_children == 0 (%s)" % (name, pred), "topo::TopoSort::" + name, "ready", f.file, f.lo,
                  "%s must filter on num_children == 0; found %s" % (name, pred))
        src = f.chain_operand(flt[0].args[0], depth=6) if flt else {}
        scans = [n for n in FA.chain_calls(src) if short(n["callee"]) in ("iter", "into_iter") and has_field(n["args"][0], "top")]
        sliced = [n for n in FA.chain_calls(src) if short(n["callee"]) in ("skip", "take", "step_by", "skip_while", "take_while")]
        run.check(bool(scans) and not sliced, "%s:%d" % (f.file, f.lo), "%s scans the whole table" % name, "topo::TopoSort::" + name, "scan", f.file, f.lo, "%s must scan all of self.top" % name)
    # peek_all: Err(CycleErr) iff the table is non-empty and nothing is ready
    pa = topo_fn(ctx, "peek_all")
    errs = [(bi, s) for bi, b in enumerate(pa.blocks) if not b.get("cleanup") for s in b["s"] if s["rv"]["k"] == "agg" and s["rv"]["path"].endswith("Result::Err")]
    good = len(errs) == 1
    if good:
        conds = pa.conditions_of(errs[0][0])
        seen = {}
        for d, ch, sides in conds:
            for n in FA.chain_calls(ch):
                nm = n["callee"]
                t_sides, _ = truth_sides(pa, d, True)
                seen[("self" if "TopoSort" in nm else "result") + ":" + short(nm)] = set(sides) <= set(t_sides)
        # reached when TopoSort::is_empty() is false and Vec::is_empty() is true
        good = seen.get("self:is_empty") is False and seen.get("result:is_empty") is True and len(conds) == 2
    run.check(good, "%s:%d" % (pa.file, errs[0][1]["ln"] if errs else pa.lo), "peek_all: Err(CycleErr) iff pending work exists and nothing is ready", "topo::TopoSort::peek_all", "cycle", pa.file,
              errs[0][1]["ln"] if errs else pa.lo, "peek_all must report a cycle exactly when the table is non-empty and no entry is ready")
    # in_cycle: non-empty and every entry still waits
    ic = topo_fn(ctx, "in_cycle")
    alls = [c for c in ic.calls() if short(c.callee) == "all"]
    pred = closure_pred(ctx, ic, alls[0]) if len(alls) == 1 else None
    good = pred is not None and (pred[0], pred[1]) in NONZERO and pred[2] == ".num_children"
    if good:
        conds = ic.conditions_of(alls[0].bb)
        ok_c = False
        for d, ch, sides in conds:
            if any(short(n["callee"]) == "is_empty" for n in FA.chain_calls(ch)):
                f_sides, _ = truth_sides(ic, d, False)
                ok_c = set(sides) <= set(f_sides)
        src = ic.chain_operand(alls[0].args[0], depth=6)
        whole = any(short(n["callee"]) in ("values", "iter") and has_field(n["args"][0], "top") for n in FA.chain_calls(src))
        # when empty, the answer is false
        rets_false = any(s["p"] == [0] and s["rv"]["k"] == "use" and s["rv"]["o"].get("k", {}).get("int") == "false" for b in ic.blocks for s in b["s"])
        good = ok_c and whole and rets_false
    run.check(good, "%s:%d" % (ic.file, ic.lo), "in_cycle: non-empty and every entry still waits (%s)" % (pred,), "topo::TopoSort::in_cycle", "pred", ic.file, ic.lo,
              "in_cycle must be `!is_empty() && all(num_children != 0)`; found predicate %s" % (pred,))
    for name in ("pop_cyclic", "pop_all_cyclic", "peek_cyclic", "peek_all_cyclic"):
        f = topo_fn(ctx, name)
        somes = [(bi, s) for bi, b in enumerate(f.blocks) if not b.get("cleanup") for s in b["s"] if s["rv"]["k"] == "agg" and s["rv"]["path"].endswith("Option::Some") and s["p"] == [0]]
        acts = [c for c in f.calls() if short(c.callee) not in ("in_cycle",)]
        good = True
        sites_ = [bi for bi, s in somes] + [c.bb for c in acts]
        if not sites_:
            good = False
        for bi in sites_:
            conds = f.conditions_of(bi)
            guarded = False
            for d, ch, sides in conds:
                if any(short(n["callee"]) == "in_cycle" for n in FA.chain_calls(ch)):
                    t_sides, _ = truth_sides(f, d, True)
                    guarded = set(sides) <= set(t_sides)
            if not guarded:
                good = False
        run.check(good, "%s:%d" % (f.file, f.lo), "%s acts only when in_cycle()" % name, "topo::TopoSort::" + name, "guard", f.file, f.lo, "%s must do nothing unless in_cycle()" % name)
    ie = topo_fn(ctx, "is_empty")
    cs = [c for c in ie.calls()]
    good = len(cs) == 1 and short(cs[0].callee) == "is_empty" and has_field(ie.chain_operand(cs[0].args[0], depth=4), "top") and \
        any(s["p"] == [0] for b in ie.blocks for s in b["s"]) is False
    run.check(len(cs) == 1 and short(cs[0].callee) == "is_empty" and has_field(ie.chain_operand(cs[0].args[0], depth=4), "top"), "%s:%d" % (ie.file, ie.lo), "is_empty = table empty",
              "topo::TopoSort::is_empty", "pred", ie.file, ie.lo, "is_empty must be self.top.is_empty()")


def r26d(ctx, run):
    F = ctx.facts
    cands = [f for f in F.fns if f.crate == "hir_ty" and f.kind == "fn" and strip_generics(f.path).endswith("InferenceCtx::finish")]
    if len(cands) != 1:
        raise LookupError("InferenceCtx::finish")
    fn = cands[0]
    FN = "hir_ty::InferenceCtx::finish"

    def topo_calls(name):
        return [c for c in fn.calls() if short(c.callee) == name and "topo::TopoSort" in c.callee]
    # an item leaves the schedule in one way only: remove(item) after it completed.  The draining methods take items out together with every
    # dependency that was registered on and for them; an item that is put back afterwards has forgotten what it was waiting for.
    DRAINING = ("pop", "pop_all", "pop_cyclic", "pop_all_cyclic", "clear")
    drains = [c for c in fn.calls() if short(c.callee) in DRAINING and "topo::TopoSort" in c.callee]
    for c in drains:
        run.finding(FN, "drains-schedule:" + short(c.callee), c.file, c.ln,
                    "finish takes items out of the schedule with TopoSort::%s: that forgets every dependency registered so far, also those of items that do not complete in this round "
                    "and are inserted again - a later round then offers an item whose registered dependency has not completed.  Items may only be looked at (peek_all / peek_all_cyclic) "
                    "and leave through remove(item) once they completed" % short(c.callee))
    if drains:
        return
    run.ok(FN, "finish never drains the schedule (no %s)" % " / ".join(DRAINING))
    pa, pac, rm, idp, emp, ext = (topo_calls(n) for n in ("peek_all", "peek_all_cyclic", "remove", "insert_deps", "is_empty", "extend"))
    infer = [c for c in fn.calls() if short(c.callee) == "infer" and "InferenceCtx" in c.callee]
    if not (len(pa) == 1 and len(pac) == 1 and rm and idp and emp and ext and len(infer) == 1):
        raise LookupError("scheduler calls in finish: peek_all=%d peek_all_cyclic=%d remove=%d insert_deps=%d is_empty=%d extend=%d infer=%d"
                          % (len(pa), len(pac), len(rm), len(idp), len(emp), len(ext), len(infer)))

    def cond_on(c_bb, callee_bb, callee_name):
        """sides on which block c_bb depends on the discriminant of the result of the call named callee_name"""
        for d, ch, sides in fn.conditions_of(c_bb, limit=12):
            if ch.get("kind") == "discr" and any(short(n["callee"]) == callee_name and n.get("bb") == callee_bb for n in FA.chain_calls(ch)):
                return sides
        return None
    # leaves: peek_all_cyclic only on the Err side of peek_all
    s = cond_on(pac[0].bb, pa[0].bb, "peek_all")
    run.check(s == ["1"] or s == ["otherwise"] and False or s == ["1"], pac[0].site(), "round: leaves = peek_all(), or peek_all_cyclic() only when peek_all reports a cycle (Err)", FN, "leaves",
              pac[0].file, pac[0].ln, "each round must take the ready items from peek_all and, only on Err, all items from peek_all_cyclic (peek_all_cyclic depends on sides %s)" % s)
    good = True
    detail = []

    def extra_conditions(c):
        """conditions, inside the per-item loop, other than the outcome of infer and the iteration itself"""
        inner = [(h, b) for h, b in fn.loops() if c.bb in b and infer[0].bb in b]
        if not inner:
            return ["not in the per-item loop"]
        h, b = min(inner, key=lambda hb: len(hb[1]))
        out = []
        for d, ch, sides in fn.conditions_of(c.bb, limit=12):
            if d not in b:
                continue
            names = {short(n["callee"]) for n in FA.chain_calls(ch)}
            if ch.get("kind") == "discr" and names & {"infer", "next"}:
                continue
            out.append(FA.show_chain(ch, 4)[:60])
        return out
    for c in rm + idp:
        ex = extra_conditions(c)
        if ex:
            good = False
            detail.append("%s at line %d additionally depends on %s" % (short(c.callee), c.ln, ex))
    for c in rm:
        s = cond_on(c.bb, infer[0].bb, "infer")
        if s != ["0"]:
            good = False
            detail.append("remove at line %d is not on the Ok side of infer (sides %s)" % (c.ln, s))
    for c in idp:
        s = cond_on(c.bb, infer[0].bb, "infer")
        if s != ["1"]:
            good = False
            detail.append("insert_deps at line %d is not on the Err side of infer (sides %s)" % (c.ln, s))
        deps = fn.chain_operand(c.args[2], depth=10)
        if not any(short(n["callee"]) == "infer" for n in FA.chain_calls(deps)):
            good = False
            detail.append("insert_deps at line %d does not register the dependencies infer reported" % c.ln)
    run.check(good, infer[0].site(), "each offered item: Ok => remove(item); Err(deps) => insert_deps(item, deps)", FN, "protocol", infer[0].file, infer[0].ln,
              "a completed item must be removed and an item with unmet dependencies must register exactly those dependencies: " + "; ".join(detail))
    # the scheduling loop ends iff the schedule is empty
    lp = [(h, body) for h, body in fn.loops() if pa[0].bb in body]
    if not lp:
        raise LookupError("scheduling loop")
    h, body = max(lp, key=lambda hb: len(hb[1]))
    good = True
    n_exit = 0
    for u, v in fn.loop_exit_edges(h, body):
        ch = fn.switch_operand(u) if fn.blocks[u]["t"]["k"] == "switch" else None
        if ch is not None and any(short(n["callee"]) == "is_empty" and "topo::TopoSort" in n["callee"] for n in FA.chain_calls(ch)):
            t_sides, _ = truth_sides(fn, u, True)
            labs = [lab for lab, tgt in zip(list(fn.blocks[u]["t"].get("vals", [])) + ["otherwise"], fn.blocks[u]["t"]["t"]) if tgt == v]
            if set(labs) <= set(t_sides):
                n_exit += 1
                continue
        if fn.blocks[u]["t"]["k"] == "call" and not fn.blocks[u]["t"]["t"]:
            continue
        # exits into diverging code (panics) are not normal exits
        if all(fn.blocks[x]["t"]["k"] != "return" for x in fn.reachable_from(v)):
            continue
        good = False
    run.check(good and n_exit >= 1, "%s:%d" % (fn.file, emp[0].ln), "the scheduling loop ends iff to_infer.is_empty()", FN, "exit", fn.file, emp[0].ln,
              "the scheduling loop must end exactly when to_infer is empty")
    run.check(all(fn.dominates(e.bb, h) for e in ext) and len(ext) == 1, ext[0].site(), "the schedule is seeded once, before the loop", FN, "seed", ext[0].file, ext[0].ln,
              "to_infer.extend must be called once before the loop")


def rules(ctx):
    return [
        Rule("R26.a", "who writes num_children / parents / top (resolved MIR writers)", 6, r26a),
        Rule("R26.b", "insert_dep counts iff a new edge was recorded; remove uncounts each recorded parent once", 4, r26b),
        Rule("R26.c", "one readiness predicate: peek/peek_all == 0, in_cycle all != 0, cycle error iff non-empty and none ready", 11, r26c),
        Rule("R26.d", "client protocol in InferenceCtx::finish", 4, r26d),
    ]

"""C26 — inference scheduling: invariant maintenance of the dependency table (DESIGN §3 C26)."""
from core import Rule
import synq
from synq import canon, walk
import facts as FA
from facts import short, strip_generics

PROPERTY = "C26"
TITLE = "Inference scheduling offers exactly the ready work and detects true cycles"
NEEDS = ("syn", "facts")
TECHNIQUE = "static analysis: who-writes inventory on the representation (MIR field writes), pairing rules per mutator, predicate-consistency across readers, protocol shape at the only client"
EXPLANATION = (
    "The scheduler's representation invariant is num_children(x) = |{c in top : x in parents(c)}|. Decided: each mutator "
    "maintains it in isolation and the readers agree on one readiness predicate: (a) engine A who-writes: num_children is "
    "written only in insert_dep (+1) and remove (-1), parents only in insert_dep; entries of `top` are created/removed only by "
    "the enumerated functions; (b) in insert_dep the +1 on the parent happens iff a NEW edge was recorded (the already-registered "
    "path returns first), in remove one -1 per recorded parent that is still present; (c) peek/peek_all filter num_children == 0, "
    "in_cycle is non-empty AND all != 0, peek_all errs iff non-empty and nothing ready; (d) InferenceCtx::finish takes leaves from "
    "peek_all or, on Err, from peek_all_cyclic; Ok => remove(item), Err(deps) => insert_deps(item, deps); the loop ends iff "
    "is_empty. The property over all histories (e.g. stale reverse edges after a cycle-breaking removal) is model-checking "
    "territory and is NOT decided.")
NOT_DECIDED = [
    "the property over all histories of registrations/completions (model checking): e.g. remove() leaves the removed item in other entries' `parents`, which is harmless only "
    "while removed items are never re-registered with pending children",
    "that infer() reports exactly its unmet dependencies",
]
ASSUMPTIONS = ["IndexMap/IndexSet behave as documented (insert returns whether the value was new)"]

T = "topo/src/lib.rs"


def r26a(ctx, run):
    F = ctx.facts
    writes = {}
    for fn in F.fns:
        if fn.crate != "topo":
            continue
        owner = short(strip_generics(fn.parent or fn.path))
        for b in fn.blocks:
            for s in b["s"]:
                for fld in (".num_children", ".parents", ".top"):
                    if fld in s["p"][1:]:
                        writes.setdefault(fld, set()).add(owner)
                # aggregate construction of Dependencies
                if s["rv"]["k"] == "agg" and s["rv"]["path"].endswith("Dependencies"):
                    writes.setdefault("Dependencies{}", set()).add(owner)
        # mutating method calls on self.top / .parents
        for c in fn.calls():
            nm = short(c.callee)
            if nm in ("insert", "shift_remove", "swap_remove", "remove", "clear", "extend", "entry", "or_insert_with", "get_mut", "retain", "pop", "drain", "insert_full") and "indexmap" in c.callee:
                recv = fn.chain_operand(c.args[0], depth=6) if c.args else {}
                fields = [p for n in FA.walk_chain(recv) if n.get("kind") == "place" for p in n["proj"] if p in (".top", ".parents")]
                for fld in fields[-1:]:
                    writes.setdefault("mutates" + fld + ":" + nm, set()).add(owner)
    allowed = {
        ".num_children": {"insert_dep", "remove"},
        "Dependencies{}": {"new", "clone"},
        "mutates.top:insert": {"insert", "insert_dep"},
        "mutates.top:or_insert_with": {"insert_dep"},
        "mutates.parents:insert": {"insert_dep"},
        "mutates.top:shift_remove": {"remove"},
        "mutates.top:clear": {"clear", "pop_all_cyclic"},
        "mutates.top:extend": {"extend"},
        "mutates.top:entry": {"insert_dep", "insert"},
        "mutates.top:get_mut": {"remove"},
    }
    for k, owners in sorted(writes.items()):
        ok_set = allowed.get(k)
        if ok_set is None:
            if k in (".top", ".parents"):
                run.ok("crates/%s:1" % T, "%s assigned in %s (constructors)" % (k, sorted(owners)))
                continue
            run.finding("topo::TopoSort", "writer:" + k, "crates/" + T, 1, "unreviewed mutation `%s` of the dependency table in %s" % (k, sorted(owners)))
            continue
        extra = owners - ok_set
        run.check(not extra, "crates/%s:1" % T, "%s only in %s" % (k, sorted(owners)), "topo::TopoSort", "writer:" + k, "crates/" + T, 1,
                  "`%s` is performed in %s; only %s maintain the invariant num_children(x) = |{c : x in parents(c)}|" % (k, sorted(extra), sorted(ok_set)))
    if ".num_children" not in writes or len(writes) < 6:
        raise LookupError("writers found: %s" % sorted(writes))


def r26b(ctx, run):
    f = ctx.syn.fn("TopoSort::insert_dep", T)
    c = canon(f.body)
    m = [x for x in walk(f.body) if x.get("k") == "match" and canon(x["e"]) == "self.top.entry(child)"]
    good = False
    if m:
        tbl = {synq.last_seg(h): canon(b) for h, p, g, b, a in synq.match_table(m[0])}
        vac = tbl.get("Vacant", "")
        occ = tbl.get("Occupied", "")
        good = "dep.parents.insert(parent.clone())" in vac and "e.insert(dep)" in vac and "if !e.into_mut().parents.insert(parent.clone())" in occ and "return" in occ
    run.check(good, f.site(), "insert_dep: new child records the edge; existing child returns early when the edge already exists", "TopoSort::insert_dep", "edge", f.file, f.ln,
              "insert_dep must record parent in child's parents and return early (without counting) when the edge already existed")
    stmts = f.body["s"]
    last = canon(stmts[-1])
    inc_ok = last.startswith("self.top.entry(parent).or_insert_with(Dependencies::new).num_children += 1") or ("self.top.entry(parent)" in last and ".num_children += 1" in last)
    after = bool(m) and stmts[-1]["ln"] > m[0]["ln"]
    incs = [x for x in walk(f.body) if x.get("k") == "bin" and x["op"] in ("+=", "-=") and canon(x["l"]).endswith("num_children")]
    run.check(inc_ok and after and len(incs) == 1 and canon(incs[0]["r"]) == "1", f.site(stmts[-1]["ln"]), "insert_dep: exactly one num_children += 1 on the parent, after the edge was newly recorded",
              "TopoSort::insert_dep", "count", f.file, stmts[-1]["ln"], "the parent's num_children must be incremented by exactly 1, once, and only when a new edge was recorded")
    r = ctx.syn.fn("TopoSort::remove", T)
    c = canon(r.body)
    loop = [x for x in walk(r.body) if x.get("k") == "for"]
    good = "let result = self.top.shift_remove(child)" in c and len(loop) == 1 and canon(loop[0]["e"]) == "&p.parents" and "if let Some(y) = self.top.get_mut(s)" in canon(loop[0]["b"]) \
        and "y.num_children -= 1" in canon(loop[0]["b"])
    decs = [x for x in walk(r.body) if x.get("k") == "bin" and x["op"] in ("+=", "-=") and canon(x["l"]).endswith("num_children")]
    run.check(good and len(decs) == 1 and canon(decs[0]["r"]) == "1", r.site(), "remove: one num_children -= 1 per recorded parent that is still present", "TopoSort::remove", "count", r.file, r.ln,
              "remove must take the entry out and decrement exactly the parents recorded on it (each by 1, if still present)")
    ins = ctx.syn.fn("TopoSort::insert", T)
    run.check("Dependencies::new()" in canon(ins.body).replace("::<T>", "") and "Entry::Occupied(_) => false" in canon(ins.body), ins.site(), "insert: lone item gets zero counters, existing item untouched",
              "TopoSort::insert", "lone", ins.file, ins.ln, "insert must not disturb an existing entry")


def norm_pred(c):
    return c.replace(" ", "")


def r26c(ctx, run):
    for name in ("peek", "peek_all"):
        f = ctx.syn.fn("TopoSort::" + name, T)
        flt = [x for x in synq.mcalls(f.body, "filter")]
        good = len(flt) == 1 and flt[0]["a"][0]["k"] == "closure" and norm_pred(canon(flt[0]["a"][0]["b"])) in ("(v.num_children==0)", "(0==v.num_children)", "(v.num_children<1)")
        run.check(good, f.site(), "%s offers exactly the entries with num_children == 0" % name, "TopoSort::" + name, "ready", f.file, f.ln,
                  "%s must filter on num_children == 0; found %s" % (name, canon(flt[0]["a"][0]["b"]) if flt else None))
        run.check(canon(flt[0]["r"]) == "self.top.iter()" if flt else False, f.site(), "%s scans the whole table" % name, "TopoSort::" + name, "scan", f.file, f.ln, "%s must scan self.top" % name)
    pa = ctx.syn.fn("TopoSort::peek_all", T)
    iff = [x for x in walk(pa.body) if x.get("k") == "if"]
    good = len(iff) == 1 and norm_pred(canon(iff[0]["c"])) in ("(!self.is_empty()&&result.is_empty())", "(result.is_empty()&&!self.is_empty())") and "Err(CycleErr)" in canon(iff[0]["t"]) and "Ok(result)" in canon(iff[0]["e"])
    run.check(good, pa.site(), "peek_all: Err(CycleErr) iff pending work exists and nothing is ready", "TopoSort::peek_all", "cycle", pa.file, pa.ln, "peek_all must report a cycle exactly when the table is non-empty and no entry is ready")
    ic = ctx.syn.fn("TopoSort::in_cycle", T)
    c = norm_pred(canon(ic.body))
    good = c in ("{(!self.is_empty()&&self.top.values().all(|v|(v.num_children!=0)))}", "{(!self.is_empty()&&self.top.values().all(|v|(v.num_children>0)))}")
    run.check(good, ic.site(), "in_cycle: non-empty and every entry still waits", "TopoSort::in_cycle", "pred", ic.file, ic.ln, "in_cycle must be `!is_empty() && all(num_children != 0)`; found %s" % canon(ic.body))
    for name in ("pop_cyclic", "pop_all_cyclic", "peek_cyclic", "peek_all_cyclic"):
        f = ctx.syn.fn("TopoSort::" + name, T)
        iff = [x for x in walk(f.body) if x.get("k") == "if"]
        good = len(iff) == 1 and canon(iff[0]["c"]) == "self.in_cycle()" and canon(iff[0]["e"]).strip("{ }") == "None"
        run.check(good, f.site(), "%s acts only when in_cycle()" % name, "TopoSort::" + name, "guard", f.file, f.ln, "%s must do nothing unless in_cycle()" % name)
    ie = ctx.syn.fn("TopoSort::is_empty", T)
    run.check(canon(ie.body).strip("{ }") == "self.top.is_empty()", ie.site(), "is_empty = table empty", "TopoSort::is_empty", "pred", ie.file, ie.ln, "is_empty must be self.top.is_empty()")


def r26d(ctx, run):
    f = ctx.syn.fn("InferenceCtx::finish", "hir_ty/src/lib.rs")
    loops = [x for x in walk(f.body) if x.get("k") == "loop"]
    if len(loops) != 1:
        raise LookupError("scheduling loop in finish")
    lp = loops[0]
    F = "InferenceCtx::finish"
    lv = [s for s in lp["b"]["s"] if s["k"] == "local" and canon(s["p"]) == "leaves"]
    good = False
    if lv and lv[0]["init"].get("k") == "match" and canon(lv[0]["init"]["e"]) == "self.to_infer.peek_all()":
        tbl = {synq.last_seg(h): canon(b) for h, p, g, b, a in synq.match_table(lv[0]["init"])}
        good = "leaves.into_iter().cloned().collect_vec()" in tbl.get("Ok", "") and "self.to_infer.peek_all_cyclic().unwrap()" in tbl.get("Err", "")
    run.check(good, f.site(lp["ln"]), "round: leaves = peek_all(), or peek_all_cyclic() when a cycle is reported", F, "leaves", f.file, lp["ln"],
              "each round must take the ready items from peek_all and, only on Err, all items from peek_all_cyclic")
    inner = [x for x in walk(lp["b"]) if x.get("k") == "for" and canon(x["e"]) == "leaves"]
    good = False
    if inner:
        m = [x for x in walk(inner[0]["b"]) if x.get("k") == "match" and canon(x["e"]) == "self.infer(inferrable)"]
        if m:
            tbl = {synq.last_seg(h): canon(b) for h, p, g, b, a in synq.match_table(m[0])}
            good = "self.to_infer.remove(&inferrable)" in tbl.get("Ok", "") and "insert_deps" not in tbl.get("Ok", "") and "self.to_infer.insert_deps(inferrable, deps)" in tbl.get("Err", "") \
                and "remove(" not in tbl.get("Err", "")
    run.check(good, f.site(inner[0]["ln"] if inner else lp["ln"]), "each offered item: Ok => remove(item); Err(deps) => insert_deps(item, deps)", F, "protocol", f.file,
              inner[0]["ln"] if inner else lp["ln"], "a completed item must be removed and an item with unmet dependencies must register exactly those dependencies")
    tail = lp["b"]["s"][-1]
    good = tail["k"] == "expr" and tail["e"].get("k") == "if" and canon(tail["e"]["c"]) == "self.to_infer.is_empty()" and "break" in canon(tail["e"]["t"])
    brks = [x for x in walk(lp["b"]) if x.get("k") == "break" and x.get("label") is None]
    inner_breaks = [x for x in brks if not any(x is y for y in walk(tail))]
    inner_loops = [x for x in walk(lp["b"]) if x.get("k") in ("for", "while", "loop")]
    stray = [x for x in inner_breaks if not any(any(x is y for y in walk(il["b"])) for il in inner_loops)]
    run.check(good and not stray, f.site(tail["ln"]), "the loop ends iff the schedule is empty", F, "exit", f.file, tail["ln"], "the scheduling loop must end exactly when to_infer is empty")
    ext = [x for x in synq.mcalls(f.body, "extend") if canon(x["r"]) == "self.to_infer"]
    run.check(len(ext) == 1 and ext[0]["ln"] < lp["ln"], f.site(), "the schedule is seeded once, before the loop", F, "seed", f.file, f.ln, "to_infer.extend must be called once before the loop")


def rules(ctx):
    return [
        Rule("R26.a", "who writes num_children / parents / top (resolved MIR writers)", 6, r26a),
        Rule("R26.b", "insert_dep counts iff a new edge was recorded; remove uncounts each recorded parent once", 4, r26b),
        Rule("R26.c", "one readiness predicate: peek/peek_all == 0, in_cycle all != 0, cycle error iff non-empty and none ready", 11, r26c),
        Rule("R26.d", "client protocol in InferenceCtx::finish", 4, r26d),
    ]

"""C05 — names resolve to the innermost visible binding; scopes end where they end (DESIGN §3 C05)."""
from core import Rule
import synq
from synq import canon, walk, walk_no_closures

PROPERTY = "C05"
TITLE = "Names resolve to the innermost visible binding; scopes end where they end"
NEEDS = ("syn",)
TECHNIQUE = "static analysis: lookup-order extraction, scope push/pop pairing and save/restore pairing over the structured syntax tree"
EXPLANATION = (
    "Engine B structural rules over hir::body::Ctx: (a) the early-return chain of lower_var_ref consults inline header "
    "params, block scopes (innermost first), params, file globals, primitive types, nil, then reports UndefinedRef, in "
    "that order; (b) the scope walk is reversed and returns the first hit; (c) every binder insertion "
    "(insert_into_current_scope) happens either in the block-local definition (after its own initialiser was lowered) "
    "or inside a child scope opened and closed by the same construct on every path; create/destroy are balanced with "
    "no early exit between them; (d) lambdas and comptime blocks save and restore scopes/params/labels on every path "
    "and do not capture the enclosing scope.")
NOT_DECIDED = [
    "hir_ty's treatment of resolved locals/params (uses the indices chosen here)",
    "cross-file name resolution through imports (C28)",
]
ASSUMPTIONS = ["Ctx methods are the only writers of Ctx::scopes/params (private fields)"]

FILE = "hir/src/body.rs"


def top_stmt_index(block, pred):
    for i, s in enumerate(block["s"]):
        if any(pred(n) for n in walk(s)):
            return i
    return None


def has_escape(stmts):
    """return / ? between two statements (not inside closures or nested fns)"""
    for s in stmts:
        for n in walk_no_closures(s):
            if n.get("k") in ("return", "try"):
                return n
    return None


def r05a(ctx, run):
    fn = ctx.syn.fn("Ctx::lower_var_ref", FILE)
    F = "Ctx::lower_var_ref"
    steps = [
        ("inline-header-param", lambda n: n.get("k") == "mcall" and n["m"] == "look_up_inline_header_param"),
        ("block-scopes", lambda n: n.get("k") == "mcall" and n["m"] == "look_up_in_current_scope"),
        ("lambda-param", lambda n: n.get("k") == "mcall" and n["m"] == "look_up_param"),
        ("file-global", lambda n: n.get("k") == "mcall" and n["m"] == "has_definition"),
        ("primitive-type", lambda n: n.get("k") == "call" and canon(n["f"]) == "PrimitiveTy::parse"),
        ("nil", lambda n: n.get("k") == "call" and canon(n["f"]) == "Key::nil"),
        ("undefined", lambda n: n.get("k") in ("path", "struct") and n["p"].endswith("UndefinedRef")),
    ]
    idx = []
    for name, pred in steps:
        i = top_stmt_index(fn.body, pred)
        if i is None:
            run.finding(F, "step:" + name, fn.file, fn.ln, "lookup step `%s` not found in lower_var_ref" % name)
            return
        idx.append(i)
    for k in range(len(steps) - 1):
        good = idx[k] < idx[k + 1]
        run.check(good, fn.site(fn.body["s"][idx[k]]["ln"]), "%s is consulted before %s" % (steps[k][0], steps[k + 1][0]), F,
                  "order:%s<%s" % (steps[k][0], steps[k + 1][0]), fn.file, fn.body["s"][idx[k]]["ln"],
                  "lookup order violated: %s must be consulted before %s" % (steps[k][0], steps[k + 1][0]))
    # each successful step returns immediately
    for (name, pred), i in list(zip(steps, idx))[:-1]:
        s = fn.body["s"][i]
        rets = [n for n in walk_no_closures(s) if n.get("k") == "return"]
        run.check(len(rets) >= 1, fn.site(s["ln"]), "%s: a hit returns immediately" % name, F, "return:" + name, fn.file, s["ln"],
                  "a successful %s lookup must return before later (outer) lookups run" % name)
    # scope hit maps Def -> Local, SwitchArm -> SwitchArgument
    s = fn.body["s"][idx[1]]
    c = canon(s)
    run.check("Some(Local::Def(local_def)) => return Expr::Local(local_def)" in c and "Some(Local::SwitchArm(local_arm_var)) => return Expr::SwitchArgument(local_arm_var)" in c,
              fn.site(s["ln"]), "scope hit yields Local / SwitchArgument of the found binding", F, "scope-hit", fn.file, s["ln"],
              "a scope hit must yield exactly the binding found")
    last = fn.body["s"][-1]
    run.check(canon(last).startswith("Expr::Missing"), fn.site(last["ln"]), "no binding -> UndefinedRef + Missing", F, "undefined-result", fn.file, last["ln"],
              "an identifier with no visible binding must lower to Missing after UndefinedRef")


def r05b(ctx, run):
    fn = ctx.syn.fn("Ctx::look_up_in_current_scope", FILE)
    loops = [n for n in walk(fn.body) if n.get("k") == "for"]
    good = len(loops) == 1 and canon(loops[0]["e"]) == "self.scopes.iter().rev()"
    run.check(good, fn.site(), "scopes are searched innermost first (iter().rev())", "Ctx::look_up_in_current_scope", "reversed", fn.file, fn.ln,
              "look_up_in_current_scope must iterate self.scopes reversed (innermost scope first); found %s" % [canon(l["e"]) for l in loops])
    if loops:
        rets = [n for n in walk(loops[0]["b"]) if n.get("k") == "return"]
        run.check(len(rets) == 1 and "Some(" in canon(rets[0]), fn.site(loops[0]["ln"]), "first hit returns", "Ctx::look_up_in_current_scope", "first-hit", fn.file,
                  loops[0]["ln"], "the first (innermost) hit must be returned")
    ins = ctx.syn.fn("Ctx::insert_into_current_scope", FILE)
    c = canon(ins.body)
    run.check("self.scopes.last_mut()" in c and ".insert(name, local)" in c, ins.site(), "insertion goes into the innermost scope", "Ctx::insert_into_current_scope",
              "innermost", ins.file, ins.ln, "insert_into_current_scope must insert into the last (innermost) scope")
    cr = ctx.syn.fn("Ctx::create_new_child_scope", FILE)
    de = ctx.syn.fn("Ctx::destroy_current_scope", FILE)
    run.check(canon(cr.body["s"][0]).startswith("self.scopes.push("), cr.site(), "create = push", "Ctx::create_new_child_scope", "push", cr.file, cr.ln, "create_new_child_scope must push a scope")
    run.check(canon(de.body["s"][0]).startswith("self.scopes.pop()"), de.site(), "destroy = pop", "Ctx::destroy_current_scope", "pop", de.file, de.ln, "destroy_current_scope must pop a scope")


def enclosing_chain(root, target):
    """list of ancestor nodes from root to target (inclusive)"""
    path = []

    def rec(n):
        if n is target:
            path.append(n)
            return True
        if isinstance(n, dict):
            for v in n.values():
                if isinstance(v, (dict, list)) and rec(v):
                    path.append(n)
                    return True
        elif isinstance(n, list):
            for v in n:
                if isinstance(v, (dict, list)) and rec(v):
                    return True
        return False
    rec(root)
    return list(reversed(path))


def r05c(ctx, run):
    n_ins = 0
    for fn in ctx.syn.fns_in(FILE):
        if fn.body is None or fn.impl_ty != "Ctx":
            continue
        creates = synq.mcalls(fn.body, "create_new_child_scope")
        destroys = synq.mcalls(fn.body, "destroy_current_scope")
        inserts = synq.mcalls(fn.body, "insert_into_current_scope")
        if creates or destroys:
            # balanced, same block, no escape between
            good = len(creates) == len(destroys)
            run.check(good, fn.site(), "%s: %d scope push / %d pop" % (fn.qual, len(creates), len(destroys)), fn.qual, "balance", fn.file, fn.ln,
                      "%s opens %d child scopes and closes %d" % (fn.qual, len(creates), len(destroys)))
            for cnode in creates:
                chain = enclosing_chain(fn.body, cnode)
                blocks = [b for b in chain if isinstance(b, dict) and b.get("k") == "block"]
                blk = blocks[-1]
                ci = top_stmt_index(blk, lambda n: n is cnode)
                di = None
                for j in range(ci + 1, len(blk["s"])):
                    if any(n.get("k") == "mcall" and n["m"] == "destroy_current_scope" for n in walk_no_closures(blk["s"][j])):
                        di = j
                        break
                if di is None:
                    run.finding(fn.qual, "unclosed-scope", fn.file, cnode["ln"], "child scope opened at line %d is not closed in the same block" % cnode["ln"])
                    continue
                dst = blk["s"][di]
                de = dst.get("e") if dst.get("k") in ("expr", "semi") else None
                if not (isinstance(de, dict) and de.get("k") == "mcall" and de["m"] == "destroy_current_scope"):
                    run.finding(fn.qual, "conditionally-closed-scope", fn.file, dst["ln"],
                                "child scope opened unconditionally at line %d is closed only inside a nested construct (line %d): on the other paths the scope stays open, the enclosing "
                                "block's pop then removes the wrong scope and the block's bindings stay visible after it ends" % (cnode["ln"], dst["ln"]))
                    continue
                esc = has_escape(blk["s"][ci + 1:di])
                run.check(esc is None, fn.site(cnode["ln"]), "%s: scope opened line %d closed line %d, no early exit between" % (fn.qual, cnode["ln"], blk["s"][di]["ln"]),
                          fn.qual, "escape", fn.file, esc["ln"] if esc else cnode["ln"], "an early return/? between scope push and pop leaves the scope open")
        for ins in inserts:
            n_ins += 1
            kind = canon(ins["a"][1])
            if fn.name == "lower_local_define":
                # block-local definition: extent = rest of the enclosing block; binding must be inserted after its own type/value were lowered
                lowers = [m for m in synq.mcalls(fn.body, "lower_expr")]
                good = all(m["ln"] < ins["ln"] for m in lowers) and len(lowers) >= 2
                run.check(good, fn.site(ins["ln"]), "local definition becomes visible only after its own type and value were lowered", fn.qual, "def-after-init",
                          fn.file, ins["ln"], "a local must not be visible inside its own initialiser: insert after lowering ty/value")
                continue
            # any other binder must open its own child scope around the insertion and the code the binder is visible in
            chain = enclosing_chain(fn.body, ins)
            opened = False
            for b in [x for x in chain if isinstance(x, dict) and x.get("k") == "block"]:
                ii = top_stmt_index(b, lambda n: n is ins)
                pre = [j for j in range(0, ii) if any(n.get("k") == "mcall" and n["m"] == "create_new_child_scope" for n in walk_no_closures(b["s"][j]))]
                post = [j for j in range(ii, len(b["s"])) if any(n.get("k") == "mcall" and n["m"] == "destroy_current_scope" for n in walk_no_closures(b["s"][j]))]
                if pre and post:
                    opened = True
            run.check(opened, fn.site(ins["ln"]), "%s binds %s inside its own child scope" % (fn.qual, kind), fn.qual, "binder-scope:" + kind.split("(")[0], fn.file, ins["ln"],
                      "%s inserts %s into the ENCLOSING scope (no create_new_child_scope/destroy_current_scope around it): the binding stays visible after the construct ends "
                      "and shadows outer bindings of the same name" % (fn.qual, kind))
    if n_ins < 2:
        raise LookupError("insert_into_current_scope call sites: %d" % n_ins)
    # lower_block: scope spans exactly the statements + tail
    lb = ctx.syn.fn("Ctx::lower_block", FILE)
    cr = synq.mcalls(lb.body, "create_new_child_scope")
    de = synq.mcalls(lb.body, "destroy_current_scope")
    if cr and de:
        lows = [m for m in walk(lb.body) if m.get("k") == "mcall" and m["m"] in ("lower_stmt", "lower_expr")]
        inside = [m for m in lows if cr[0]["ln"] < m["ln"] < de[0]["ln"]]
        run.check(len(inside) == len(lows) and len(lows) >= 2, lb.site(cr[0]["ln"]), "block statements and tail are lowered inside the block's scope", "Ctx::lower_block", "extent",
                  lb.file, cr[0]["ln"], "every statement and the tail expression of a block must be lowered between the scope push and pop")


def save_restore(fn, run, fields, clear=()):
    stmts = fn.body["s"]
    for field in fields:
        si = None
        var = None
        for i, s in enumerate(stmts):
            if s["k"] == "local" and s.get("init") and s["init"]["k"] == "call" and canon(s["init"]["f"]) in ("mem::take", "mem::replace", "std::mem::take", "std::mem::replace") \
                    and canon(s["init"]["a"][0]) == "&mut self." + field:
                si, var = i, s["p"].get("n")
        if si is None:
            run.finding(fn.qual, "save:" + field, fn.file, fn.ln, "%s does not save self.%s (mem::take/replace) before lowering its body: the body would see the enclosing %s" % (fn.qual, field, field))
            continue
        ri = None
        for j in range(si + 1, len(stmts)):
            if stmts[j]["k"] == "expr" and stmts[j]["e"]["k"] == "assign" and canon(stmts[j]["e"]["l"]) == "self." + field and canon(stmts[j]["e"]["r"]) == var:
                ri = j
        if ri is None:
            run.finding(fn.qual, "restore:" + field, fn.file, stmts[si]["ln"], "self.%s saved at line %d is never restored" % (field, stmts[si]["ln"]))
            continue
        esc = has_escape(stmts[si + 1:ri])
        run.check(esc is None, fn.site(stmts[si]["ln"]), "%s: self.%s saved (line %d) and restored (line %d) on every path" % (fn.qual, field, stmts[si]["ln"], stmts[ri]["ln"]),
                  fn.qual, "restore-path:" + field, fn.file, esc["ln"] if esc else fn.ln, "an early return/? between saving and restoring self.%s skips the restore" % field)
        # body lowered in between
        lows = [m for j in range(si + 1, ri) for m in walk(stmts[j]) if m.get("k") == "mcall" and m["m"] == "lower_expr"]
        run.check(len(lows) >= 1, fn.site(stmts[si]["ln"]), "%s: body lowered while self.%s is replaced" % (fn.qual, field), fn.qual, "body-inside:" + field, fn.file,
                  stmts[si]["ln"], "the body must be lowered between save and restore of self.%s" % field)


def r05d(ctx, run):
    lam = ctx.syn.fn("Ctx::lower_lambda", FILE)
    save_restore(lam, run, ["params", "scopes", "label_kinds"])
    # inline header params cleared before the body
    stmts = lam.body["s"]
    ci = top_stmt_index(lam.body, lambda n: n.get("k") == "mcall" and n["m"] == "clear" and canon(n["r"]) == "self.inline_header_params")
    bi = top_stmt_index(lam.body, lambda n: n.get("k") == "mcall" and n["m"] == "body" and canon(n["r"]) == "lambda")
    run.check(ci is not None and bi is not None and ci < bi, lam.site(stmts[ci]["ln"] if ci is not None else lam.ln), "inline header params cleared before the body is lowered",
              "Ctx::lower_lambda", "inline-clear", lam.file, lam.ln, "inline header params must be cleared before the lambda body is lowered")
    # typestate over the statements of lower_lambda: what self.params / self.scopes hold when the header and the body are lowered.
    # header (parameter types, return type: lowered before inline_header_params is cleared) -> the ENCLOSING lambda's params and block
    # scopes must still be in place (a nested function's header may name them); body -> exactly the lambda's own parameter table and no scopes
    import paths
    own_tables = set()
    for n in walk(lam.body):
        if n.get("k") == "mcall" and n["m"] == "insert" and canon(n["r"]) != "self.inline_header_params" and len(n["a"]) == 2 and canon(n["a"][1]) == "info":
            own_tables.add(canon(n["r"]))
    problems = []

    def step(node, st):
        params, scopes, phase = st
        k = node.get("k")
        if k == "call" and canon(node["f"]) in ("mem::take", "std::mem::take", "core::mem::take") and node["a"]:
            tgt = canon(node["a"][0])
            if tgt == "&mut self.params":
                params = "empty"
            if tgt == "&mut self.scopes":
                scopes = "empty"
        if k == "call" and canon(node["f"]) in ("mem::replace", "std::mem::replace", "core::mem::replace") and len(node["a"]) == 2:
            tgt, val = canon(node["a"][0]), canon(node["a"][1])
            if tgt == "&mut self.params":
                params = "own" if val in own_tables else "other:" + val
            if tgt == "&mut self.scopes":
                scopes = "other:" + val
        if k == "assign" and canon(node["l"]) == "self.params":
            params = "own" if canon(node["r"]) in own_tables else ("outer" if canon(node["r"]).startswith("old_") else "other:" + canon(node["r"]))
        if k == "assign" and canon(node["l"]) == "self.scopes":
            scopes = "outer" if canon(node["r"]).startswith("old_") else "other:" + canon(node["r"])
        if k == "mcall" and node["m"] == "clear" and canon(node["r"]) == "self.inline_header_params":
            phase = "body"
        if k == "mcall" and canon(node["r"]) == "self" and node["m"] in ("lower_expr", "lower_block", "lower_stmt"):
            if phase == "header" and (params != "outer" or scopes != "outer"):
                problems.append((node["ln"], "the lambda header is lowered at line %d while self.params is %s and self.scopes is %s: names of the enclosing lambda "
                                 "(its parameters, its block locals) are not visible in a nested function's parameter and return types" % (node["ln"], params, scopes)))
            if phase == "body" and (params != "own" or scopes != "empty"):
                problems.append((node["ln"], "the lambda body is lowered at line %d while self.params is %s and self.scopes is %s: the body must see exactly its own "
                                 "parameters and none of the enclosing block scopes" % (node["ln"], params, scopes)))
        return (params, scopes, phase)
    paths.run(lam.body, ("outer", "outer", "header"), step)
    if not own_tables:
        problems.append((lam.ln, "no parameter table is filled in the header loop"))
    seen_msgs = sorted(set(problems))
    run.check(not seen_msgs, lam.site(), "header lowered under the enclosing lambda's params and scopes; body under exactly its own parameter table, no scopes", "Ctx::lower_lambda",
              "own-params", lam.file, seen_msgs[0][0] if seen_msgs else lam.ln, "; ".join(m for _, m in seen_msgs[:3]))
    com = ctx.syn.fn("Ctx::lower_comptime", FILE)
    # a comptime block is compiled as a function of its own: the jump labels of the enclosing function do not exist there either
    save_restore(com, run, ["params", "scopes", "label_kinds"])
    # ... and typestate over lower_comptime: on EVERY path, whatever the body's form, the body is lowered while params, scopes and labels are set aside
    FIELDS = ("params", "scopes", "label_kinds")
    cproblems = []
    lowered = [0]

    def cstep(node, st):
        st = dict(st)
        k = node.get("k")
        if k == "call" and canon(node["f"]) in ("mem::take", "std::mem::take", "core::mem::take") and node["a"]:
            tgt = canon(node["a"][0])
            for f_ in FIELDS:
                if tgt == "&mut self." + f_:
                    st[f_] = "empty"
        if k == "call" and canon(node["f"]) in ("mem::replace", "std::mem::replace", "core::mem::replace") and len(node["a"]) == 2:
            for f_ in FIELDS:
                if canon(node["a"][0]) == "&mut self." + f_:
                    st[f_] = "empty" if canon(node["a"][1]).replace(" ", "") in ("Default::default()", "Vec::new()", "FxHashMap::default()", "vec![]") else "other"
        if k == "assign":
            for f_ in FIELDS:
                if canon(node["l"]) == "self." + f_:
                    st[f_] = "outer" if canon(node["r"]).startswith("old_") else "other"
        if k == "mcall" and canon(node["r"]) == "self" and node["m"] in ("lower_expr", "lower_block", "lower_stmt"):
            lowered[0] += 1
            bad = [f_ for f_ in FIELDS if st[f_] != "empty"]
            if bad:
                cproblems.append((node["ln"], "the comptime body is lowered at line %d while self.%s still hold%s the enclosing function's entries: a comptime expression is compiled "
                                  "as a function of its own, so a name (or label) in it must not resolve to a local or parameter of the enclosing function - whatever the "
                                  "form of the body (`comptime f(x)` as much as `comptime { .. }`)" % (node["ln"], " / self.".join(bad), "s" if len(bad) == 1 else "")))
        return tuple(sorted(st.items()))
    paths.run(com.body, tuple(sorted({f_: "outer" for f_ in FIELDS}.items())), lambda n, st: cstep(n, dict(st)))
    if not lowered[0]:
        raise LookupError("lower_comptime lowers no body")
    cmsgs = sorted(set(cproblems))
    run.check(not cmsgs, com.site(), "comptime body lowered with params, scopes and labels set aside on every path", "Ctx::lower_comptime", "body-sees-nothing", com.file,
              cmsgs[0][0] if cmsgs else com.ln, "; ".join(m for _, m in cmsgs[:3]))


def rules(ctx):
    return [
        Rule("R05.a", "lookup order of lower_var_ref is the documented one; each hit returns immediately", 14, r05a),
        Rule("R05.b", "scope walk is innermost-first, first hit wins; push/pop/insert act on the innermost scope", 5, r05b),
        Rule("R05.c", "every binder lives in a scope opened and closed by its own construct (or is the block-local definition, inserted after its initialiser)", 5, r05c),
        Rule("R05.d", "lambdas and comptime blocks save/restore scopes, params and labels on every path; no capture of the enclosing scope", 12, r05d),
    ]

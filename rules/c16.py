"""C16 — generic calls behave like hand-substituted copies (claimed in part: non-interference of instantiations, structurally).

The behavioural statement (a generic call equals the call of a substituted copy) needs two runs and is not decided.  What the shape of the
code does decide is where instantiations of one generic function could MEET: every table that stores something computed for one instantiation
must be keyed by something that tells instantiations apart, and a comptime parameter must be looked up at its own position among the call's
comptime arguments.  These are necessary conditions of "calls with different arguments do not interfere with each other" and of "parameters are
replaced by the call's comptime arguments".  Nothing is executed.
"""
from core import Rule
import re
import synq
from synq import canon, walk

PROPERTY = "C16"
TITLE = "Generic calls behave like calls to hand-substituted copies"
NEEDS = ("syn", "facts")
TECHNIQUE = ("static analysis: key-type inventory of every per-body table (rustc ADT field types), lexically resolved provenance of the keys and values of "
             "process-global tables written during type evaluation, provenance of every comptime-argument index, mangled-name components of instantiations")
EXPLANATION = (
    "(a) every hash table of the inference context, the type tables and the code generator whose values are artefacts of ONE body (its types, its "
    "signature, its function id / reference, its data id, its finished/inferred marks, the comptime arguments of its calls, its comptime results) is "
    "keyed by a location type that carries the comptime arguments (ConcreteLoc, ConcreteGlobalLoc, ConcreteLambdaLoc, ComptimeLoc), never by a naive "
    "location or a name; (b) a process-global (thread-local) table that the type evaluator writes - it runs once per instantiation - is not keyed by a "
    "value that is fixed per DECLARATION (a field of a hir::Expr node, assigned once when the file was lowered) while the stored value depends on the "
    "location being evaluated; (c) a comptime parameter evaluates to the comptime argument at its comptime_idx (R15.f); (d) the symbol of an "
    "instantiation contains its generic id (R27.e).")
NOT_DECIDED = [
    "that a generic call behaves like the call of a substituted copy (needs both programs to be run)",
    "that calls with equal arguments behave identically (each call site gets its own instantiation: the comptime arguments are identified by their arena "
    "range, not by value; equal behaviour of two such instantiations is a behavioural statement)",
    "inline header references, varargs and nested generic calls beyond the tables they go through",
]
ASSUMPTIONS = ["HIR is built once per file: a value stored in a hir::Expr node is the same for every instantiation of the function that contains it"]

PER_BODY_VALUES = ("FuncId", "FuncRef", "DataId", "Intern<hir::common::ty::Ty>", "AreaTys", "ComptimeArgs", "ComptimeData", "ComptimeResult")
OWNERS = ("hir_ty::InferenceCtx", "hir_ty::WorldTys", "hir_ty::globals::GlobalInferenceCtx", "codegen::compiler::Compiler",
          "codegen::compiler::functions::FunctionCompiler", "hir::common::locations::ComptimeResultMap")


NON_LOCATION_KEYS = {
    "hir::common::names::Name": "extern functions: one symbol per name by definition, whichever body refers to it",
    "&'static str": "extern functions the compiler itself declares: one symbol per name",
    "codegen::builtin::BuiltinFunction": "one compiler-made body per builtin kind, independent of the body that calls it",
}


def split_generics(t):
    """top-level generic arguments of a type string"""
    i = t.find("<")
    if i < 0:
        return t, []
    depth, cur, out = 0, "", []
    for ch in t[i + 1:t.rfind(">")]:
        if ch in "<([":
            depth += 1
        if ch in ">)]":
            depth -= 1
        if ch == "," and depth == 0:
            out.append(cur.strip())
            cur = ""
        else:
            cur += ch
    if cur.strip():
        out.append(cur.strip())
    return t[:i], out


def r16a(ctx, run):
    F = ctx.facts
    n = 0
    for a in (F.adts.values() if isinstance(F.adts, dict) else F.adts):
        if a["path"] not in OWNERS:
            continue
        for v in a["variants"]:
            for fname, fty in v.get("fieldtys", []):
                t = fty.lstrip("&").replace("'a ", "").replace("mut ", "").strip()
                head, args = split_generics(t)
                if not re.search(r"(HashMap|HashSet|IndexMap|IndexSet|BTreeMap|TopoSort)$", head) or not args:
                    continue
                key = args[0]
                val = args[1] if len(args) > 1 and "Hasher" not in args[1] else ""
                is_set = "Set" in head or "TopoSort" in head
                locish = re.search(r"(Naive\w*Loc|Fqn|Concrete\w*Loc|ComptimeLoc)", key)
                per_body = is_set and locish or any(p in val for p in PER_BODY_VALUES)
                if not locish and any(p in val for p in PER_BODY_VALUES):
                    # a per-body artefact under a key that is no location at all
                    outlives_body = not a["path"].endswith("FunctionCompiler") or fty.lstrip().startswith("&")
                    if not outlives_body:
                        continue        # a table of the compiler of ONE body: its keys need only be unique in that body
                    why = NON_LOCATION_KEYS.get(key.strip())
                    if why:
                        run.exempt("%s:%d" % (a["file"], a["lo"]), "%s.%s is keyed by %s" % (a["path"].rsplit("::", 1)[-1], fname, key), why)
                    else:
                        run.finding(a["path"], "table-key:" + fname, a["file"], a["lo"],
                                    "%s.%s stores %s per %s, and the table lives longer than the compilation of one body: the key tells neither files nor instantiations apart "
                                    "(an arena index is unique inside one file only), so two bodies share the entry and one of them reads the other's artefact"
                                    % (a["path"], fname, val, key))
                    continue
                if not locish or not per_body:
                    continue
                n += 1
                concrete = re.search(r"(Concrete\w*Loc|ComptimeLoc)", key) and not re.search(r"(Naive\w*Loc|Fqn)", key)
                run.check(bool(concrete), "%s:%d" % (a["file"], a["lo"]), "%s.%s is keyed by %s" % (a["path"].rsplit("::", 1)[-1], fname, key.rsplit("::", 1)[-1]),
                          a["path"], "table-key:" + fname, a["file"], a["lo"],
                          "%s.%s stores %s per %s: a table of per-body artefacts must be keyed by a location that carries the comptime arguments; with a naive location or a "
                          "name as key all instantiations of one generic function share the entry" % (a["path"], fname, val or "a mark", key))
    if n < 8:
        raise LookupError("per-body tables keyed by locations: %d" % n)


def r16b(ctx, run):
    import prov
    TYF = "hir/src/common/ty.rs"
    # setters of thread-local tables: fn set_x(k, v) { TABLE.with_borrow_mut(|map| map.insert(k, v)) }
    setters = {}
    for f in ctx.syn.fns_in(TYF):
        if f.body is None or f.in_test:
            continue
        for n in walk(f.body):
            if n.get("k") == "mcall" and n["m"] in ("with_borrow_mut", "with") and n["r"].get("k") == "path" and n["r"]["p"].isupper():
                ins = [x for x in walk(n) if x.get("k") == "mcall" and x["m"] == "insert" and len(x["a"]) == 2]
                if ins:
                    names = f.param_names()
                    k, v = canon(ins[0]["a"][0]).lstrip("*&"), canon(ins[0]["a"][1]).lstrip("*&")
                    if k in names and v in names:
                        setters[f.qual.rsplit("::", 1)[-1]] = (n["r"]["p"], names.index(k), names.index(v), f)
    if not setters:
        raise LookupError("setters of thread-local tables in hir/src/common/ty.rs")
    readers = {}
    for f in ctx.syn.fns_in(TYF):
        if f.body is None or f.in_test:
            continue
        for n in walk(f.body):
            if n.get("k") == "mcall" and n["m"] in ("with_borrow", "with") and n["r"].get("k") == "path" and n["r"]["p"].isupper() and not any(
                    x.get("k") == "mcall" and x["m"] == "insert" for x in walk(n)):
                readers.setdefault(n["r"]["p"], set()).add(f.qual.rsplit("::", 1)[-1])
    # hir::Expr variants: a field of one of them is fixed when the file is lowered
    _, en = ctx.syn.item("enum", "Expr", "hir/src/body.rs")
    expr_variants = {v["n"] for v in en["variants"]}
    n_calls = 0
    for g in ctx.syn.fns_in("hir_ty/src/globals.rs") + ctx.syn.fns_in("hir_ty/src/lib.rs"):
        if g.body is None or g.in_test or not any(s in canon(g.body) for s in setters):
            continue
        P = prov.Prov(g)
        sites = []

        def on(n, sc):
            if n.get("k") == "call" and canon(n["f"]).rsplit("::", 1)[-1] in setters:
                sites.append((n, sc))
        P.visit(on)
        for n, sc in sites:
            sname = canon(n["f"]).rsplit("::", 1)[-1]
            table, ki, vi, sf = setters[sname]
            n_calls += 1
            kt, vt = P.tags(n["a"][ki], sc), P.tags(n["a"][vi], sc)
            kfields = [t for t in kt if t.startswith("field:")]
            decl_key = bool(kfields) and all(t.split(":", 1)[1].split(".")[0] in expr_variants for t in kfields) and not any(t in ("m:.loc", "m:.tys") or t.startswith("param:") for t in kt)
            per_inst_value = any(t in ("m:.loc", "m:.tys", "m:.meta_tys") for t in vt)
            if decl_key and per_inst_value:
                run.finding(g.qual, "global-table-keyed-per-declaration:" + table, g.file, n["ln"],
                            "%s writes the process-global table %s under a key fixed per declaration (%s, assigned when the file was lowered) with a value computed for the "
                            "location being evaluated: every instantiation of a generic function that contains the declaration overwrites the entry, and readers (%s) get "
                            "the instantiation that was evaluated last" % (g.qual, table, ", ".join(kfields), ", ".join(sorted(readers.get(table, []))) or "its readers"))
            else:
                run.ok(g.site(n["ln"]), "%s: %s written with key %s" % (g.qual, table, sorted(kt)[:3]))
    if n_calls < 1:
        raise LookupError("writes of thread-local tables from the type evaluator: %d" % n_calls)


def per_body_tables(ctx):
    """field names of the tables R16.a examines (keyed by a location, holding per-body artefacts)"""
    F = ctx.facts
    out = set()
    for a in (F.adts.values() if isinstance(F.adts, dict) else F.adts):
        if a["path"] not in OWNERS:
            continue
        for v in a["variants"]:
            for fname, fty in v.get("fieldtys", []):
                t = fty.lstrip("&").replace("'a ", "").replace("mut ", "").strip()
                head, args = split_generics(t)
                if re.search(r"(HashMap|HashSet|IndexMap|IndexSet|BTreeMap|TopoSort)$", head) and args and re.search(r"(Concrete\w*Loc|ComptimeLoc)", args[0]):
                    out.add(fname)
    return out


def r16c(ctx, run):
    """the VALUE of a key matters as much as its type: a key of a per-body table must not be built from a location whose comptime arguments were
    erased (`loc.to_naive()` turned back into a concrete location): all instantiations of the surrounding generic function would meet in that entry.
    Every key handed to insert/get/entry/contains/remove on those tables, and every index of `tys[..]`, is resolved lexically to what it is computed
    from; `to_naive` may only feed the per-declaration lookups (world_bodies, world_index)."""
    import prov
    tables = per_body_tables(ctx) | {"signatures"}
    if len(tables) < 5:
        raise LookupError("per-body tables: %s" % sorted(tables))
    KEYED = ("insert", "get", "get_mut", "entry", "contains_key", "contains", "remove", "insert_dep", "insert_deps")
    n_keys, n_control = 0, 0
    for g in ctx.syn.fns_in("hir_ty/src/globals.rs") + ctx.syn.fns_in("hir_ty/src/lib.rs"):
        if g.body is None or g.in_test:
            continue
        P = prov.Prov(g)
        sites = []

        def on(n, sc):
            if n.get("k") == "mcall" and n["m"] in KEYED and n["a"]:
                r = n["r"]
                base = r
                while base.get("k") in ("field", "mcall", "ref", "paren", "un") and base.get("k") != "path":
                    if base.get("k") == "field" and base["m"] in tables:
                        sites.append((n, sc, base["m"], n["a"][0]))
                        break
                    base = base.get("e") or base.get("r") or {}
            if n.get("k") == "index" and canon(n["e"]) in ("self.tys", "ctx.tys", "self.inner.tys"):
                sites.append((n, sc, "tys[..]", n["i"]))
            if n.get("k") == "mcall" and n["m"] in ("global_body", "global_ty", "global_is_extern", "definition", "range_info") and n["a"]:
                sites.append((n, sc, "<declaration lookup>", n["a"][0]))
        P.visit(on)
        for n, sc, table, key in sites:
            tags = P.tags(key, sc)
            erased = "m:to_naive" in tags
            if table == "<declaration lookup>":
                n_control += 1 if erased else 0
                continue
            n_keys += 1
            if erased:
                run.finding(g.qual, "key-from-erased-location:" + table, g.file, n["ln"],
                            "%s uses a key for %s that is computed from `to_naive()` (the location without its comptime arguments): every instantiation of the surrounding generic "
                            "function reads and writes the same entry, so one instantiation's artefacts are handed to the others (key: %s)" % (g.qual, table, canon(key)[:80]))
            else:
                run.ok(g.site(n["ln"]), "%s: key of %s from %s" % (g.qual, table, sorted(t for t in tags if not t.startswith("expr:"))[:3]))
    if n_keys < 40:
        raise LookupError("keys of per-body tables resolved: %d" % n_keys)
    run.check(n_control >= 5, "hir_ty/src/globals.rs:1", "control: %d per-declaration lookups are recognised as fed by to_naive()" % n_control, "<control>", "to_naive-recognised", "hir_ty/src/globals.rs", 1,
              "the provenance resolution no longer recognises `to_naive()` at the per-declaration lookups (%d sites): the rule would be blind" % n_control)


def r16d(ctx, run):
    """the comptime arguments a call is bound to are the ones evaluated for THAT call: what is stored in call_associated_generics, and what the callee's
    location is made concrete with, comes from evaluate_comptime_args of this call (or is read back from the call's own entry) - no other method of
    the inference context (a search for an earlier, 'equivalent' instantiation) supplies them.  Two calls with different arguments must not meet."""
    import prov
    G = "hir_ty/src/globals.rs"
    g = ctx.syn.fn("GlobalInferenceCtx::infer_expr", G)
    own = {f.qual.rsplit("::", 1)[-1] for f in ctx.syn.fns_in(G) if f.impl_ty and f.impl_ty.startswith("GlobalInferenceCtx") and f.body is not None}
    P = prov.Prov(g)
    sites = []

    def on(n, sc):
        if n.get("k") == "mcall" and n["m"] == "insert" and canon(n["r"]).endswith("call_associated_generics") and len(n["a"]) == 2:
            sites.append((n["ln"], "stored for the call", P.tags(n["a"][1], sc)))
        if n.get("k") == "mcall" and n["m"] == "make_concrete" and n["a"] and canon(n["a"][0]).startswith("Some("):
            sites.append((n["ln"], "the callee's location is made concrete with", P.tags(n["a"][0], sc)))
    P.visit(on)
    if len(sites) < 3:
        raise LookupError("sites that bind comptime arguments to a call: %d" % len(sites))
    for ln, what, tags in sites:
        suppliers = {t[2:] for t in tags if t.startswith("m:") and t[2:] in own}
        evaluated = "evaluate_comptime_args" in suppliers
        read_back = "m:.call_associated_generics" in tags and "m:get" in tags
        foreign = suppliers - {"evaluate_comptime_args"}
        run.check((evaluated or read_back) and not foreign, g.site(ln), "comptime arguments %s: from %s" % (what, "evaluate_comptime_args" if evaluated else "the call's own entry"), g.qual,
                  "comptime-args-of-this-call", g.file, ln,
                  "the comptime arguments %s (line %d) are not (only) the ones evaluated for this call: they also come from %s - a call can be bound to the instantiation of "
                  "another call with different arguments" % (what, ln, sorted(foreign) or sorted(t for t in tags if t.startswith("m:"))[:5]))


def r16e(ctx, run):
    """a location's function id is its own: the table `functions` (ConcreteLoc -> FuncId) is only ever asked about, and written for, the location in hand
    (`loc.wrap()`), and what is written is a function declared right there (declare_function / to_sig_and_func_id) - or the compiler-made body of a
    builtin, which is one per builtin kind by construction.  A search through the table for 'an equivalent' entry would bind one instantiation to the
    machine code of another (their bodies differ whenever a comptime argument is used in the body only)."""
    import prov
    sites = [(ctx.syn.fn("get_func_id", "codegen/src/compiler/mod.rs"), "functions"),
             (ctx.syn.fn("FunctionCompiler::unnamed_func_to_local", "codegen/src/compiler/functions.rs"), "self.functions")]
    FRESH = ("m:declare_function", "m:to_sig_and_func_id")
    for f, table in sites:
        P = prov.Prov(f)
        uses = []

        def on(n, sc, uses=uses, P=P, table=table):
            if n.get("k") == "mcall" and canon(n["r"]) == table:
                uses.append((n, [P.tags(a, sc) for a in n["a"]]))
        P.visit(on)
        if len(uses) < 2:
            raise LookupError("uses of the function table in %s: %d" % (f.qual, len(uses)))
        for n, tags in uses:
            key = "%s-of-%s" % (n["m"], table)
            if n["m"] not in ("get", "insert"):
                run.finding(f.qual, "table-searched:" + n["m"], f.file, n["ln"],
                            "%s calls `%s.%s(..)`: the function table is searched for entries of OTHER locations; an instantiation must get the function declared for its own "
                            "location (its body depends on its own comptime arguments), so the table may only be asked `get(&loc.wrap())` and written `insert(loc.wrap(), id)`"
                            % (f.qual, table, n["m"]))
                continue
            ktags = tags[0]
            key_ok = "param:loc" in ktags and not any(t.startswith("param:") and t != "param:loc" for t in ktags)
            if n["m"] == "get":
                run.check(key_ok, f.site(n["ln"]), "%s: the table is asked about the location in hand" % f.qual, f.qual, key, f.file, n["ln"],
                          "the function table is asked about a key made from %s, not from the location whose function is wanted" % sorted(ktags))
                continue
            vtags = tags[1]
            fresh = any(t in vtags for t in FRESH)
            builtin = "param:compiler_defined_functions" in vtags
            from_table = any(t in vtags for t in ("param:functions", "m:.functions"))
            run.check(key_ok and (fresh or builtin) and not from_table, f.site(n["ln"]),
                      "%s: %s for the location in hand" % (f.qual, "a freshly declared function is recorded" if fresh else "the builtin's one compiler-made function is recorded"),
                      f.qual, key, f.file, n["ln"],
                      "the id recorded for this location comes from %s: it must be a function declared here for this location (%s) or a builtin's compiler-made function, never an id "
                      "read from the table under another key" % (sorted(t for t in vtags if t.startswith(("m:", "param:")))[:8], " / ".join(FRESH)))


def r16f(ctx, run):
    """the comptime arguments evaluate_comptime_args hands back are NEW entries made from this call's argument expressions: what goes into
    inline_comptime_args is the result of generics_arena.alloc(..) of a value computed here, and the ComptimeArgs returned is built from exactly those
    entries - never the arguments of the function under inference (self.loc.comptime_args()), whose order and number belong to another header."""
    import prov
    G = "hir_ty/src/globals.rs"
    f = ctx.syn.fn("GlobalInferenceCtx::evaluate_comptime_args", G)
    helpers = {g.qual.rsplit("::", 1)[-1]: g for g in ctx.syn.fns_in(G) if g.impl_ty and g.impl_ty.startswith("GlobalInferenceCtx") and g.body is not None}
    P = prov.Prov(f)
    sites = []

    def on(n, sc):
        if n.get("k") == "mcall" and n["m"] in ("push", "extend", "insert", "append") and canon(n["r"]) == "self.inline_comptime_args" and n["a"]:
            sites.append((n["ln"], "stored as a comptime argument of the call", P.tags(n["a"][-1], sc)))
        if n.get("k") == "call" and canon(n["f"]) == "Ok" and n["a"] and n["a"][0].get("k") == "call" and canon(n["a"][0]["f"]) == "Ok" and n["a"][0]["a"]:
            sites.append((n["ln"], "returned as the call's comptime arguments", P.tags(n["a"][0]["a"][0], sc)))
    P.visit(on)
    if len(sites) < 2:
        raise LookupError("evaluate_comptime_args: stores / returns found: %d" % len(sites))
    for ln, what, tags in sites:
        own = "m:comptime_args" in tags
        foreign = sorted(t[2:] for t in tags if t.startswith("m:") and t[2:] in helpers and t[2:] not in ("const_data", "get_const", "infer_expr", "expect_match", "is_safe_to_compile"))
        fresh = "m:alloc" in tags or "m:alloc_many" in tags or "m:.inline_comptime_args" in tags
        run.check(fresh and not own and not foreign, f.site(ln), "%s: a fresh arena entry of this call" % what, f.qual, "fresh-comptime-args", f.file, ln,
                  "what is %s (line %d) is not (only) a fresh arena entry made from this call's argument: %s - a callee instantiated with another header's arguments reads them "
                  "at ITS parameter positions (`inner(B, A)` forwarded as (A, B))"
                  % (what, ln, "it comes from the comptime arguments of the function under inference (self.loc.comptime_args())" if own else
                     ("it is supplied by " + ", ".join(foreign)) if foreign else "sources: %s" % sorted(t for t in tags if t.startswith("m:"))[:6]))


def _reuse(modname, fname):
    def f(ctx, run):
        mod = __import__(modname)
        getattr(mod, fname)(ctx, run)
    return f


def rules(ctx):
    return [
        Rule("R16.a", "every table of per-body artefacts is keyed by a location that carries the comptime arguments", 8, r16a),
        Rule("R16.b", "process-global tables written by the type evaluator are not keyed per declaration while holding per-instantiation values", 1, r16b),
        Rule("R16.c", "no key of a per-body table is computed from a location whose comptime arguments were erased (to_naive)", 40, r16c),
        Rule("R16.d", "the comptime arguments bound to a call are the ones evaluated for that call (no other supplier)", 3, r16d),
        Rule("R16.e", "a location's function id is its own: the function table is asked and written under the location in hand only, with a function declared for it", 7, r16e),
        Rule("R16.f", "evaluate_comptime_args stores and returns fresh arena entries made from this call's arguments, never the enclosing instantiation's own arguments", 2, r16f),
        Rule("R16.g", "two instantiations of one generic nominal declaration are different types: can_fit_into evaluated on same-uid / different-argument pairs (shared with C13 R13.a)", 20, _reuse("c13", "r13a")),
        Rule("R15.f", "a comptime parameter evaluates to the comptime argument at its comptime_idx (shared with C15)", 2, _reuse("c15", "r15f")),
        Rule("R27.e", "every Mangle impl evaluated down to the parts list: the generic id of an instantiation is present on every branch (shared with C27)", 20, _reuse("c27", "r27e")),
    ]

"""C15 — only const values are used as types, sizes, discriminants and comptime args (DESIGN §3 C15)."""
from core import Rule
from absint import Interp, Obj, Term, Variant, Panic, CannotEstablish
import synq
from synq import canon, walk

PROPERTY = "C15"
TITLE = "Only const values are used as types, sizes, discriminants and comptime args"
NEEDS = ("syn", "facts")
TECHNIQUE = "static analysis: ask-first pairing (const query guards every evaluation), abstract evaluation of the const classifier per expression kind, classifier/evaluator sibling cross-check"
EXPLANATION = (
    "Engine B: (a) every evaluation of a const position (const_data for array sizes, enum discriminants and comptime "
    "arguments; the GlobalNotConst and LocalTyIsMutable sites) is preceded in the same control path by get_const on the SAME "
    "expression, whose non-const outcome diverges (break/return) after reporting the matching *NotConst diagnostic when the "
    "classifier says Runtime; (b) the classifier get_const is evaluated abstractly per hir::Expr kind and per fact it reads "
    "(binding mutability, presence of a value, extern, finished, type-valued): mutable bindings and extern globals are Runtime, "
    "bindings without value Unknown, an immutable binding / global / file member is Const only after queueing its value for the "
    "same check, and every kind not in the documented list is Runtime unless it is type-valued; the first non-const item ends "
    "the walk; (c) every kind the classifier can call Const and that can have integer type has an arm in const_data that yields a "
    "value (otherwise the 'already checked' panic at the array-size / discriminant sites is reachable).")
NOT_DECIDED = [
    "that the value computed for an accepted array length / discriminant is the denoted value (C09 literal rules, comptime evaluation C04)",
    "completeness: const-looking expressions that are rejected (e.g. a char literal global is reported as not const) are over-rejections, not violations of this property",
]
ASSUMPTIONS = ["all_finished_locations contains exactly the locations whose inference completed"]

G = "hir_ty/src/globals.rs"


def r15a(ctx, run):
    n = 0
    for f in ctx.syn.fns_in(G):
        if f.body is None or f.name == "const_data":
            continue
        for c in synq.mcalls(f.body, "const_data"):
            n += 1
            target = canon(c["a"][1])
            # guards before the call, in enclosing blocks
            guards = []
            for blk in [b for b in walk(f.body) if b.get("k") == "block" and b["ln"] <= c["ln"] <= b.get("end", b["ln"])]:
                stmts = blk["s"]
                for i, s in enumerate(stmts):
                    if s["ln"] > c["ln"]:
                        break
                    if s["k"] == "local" and s.get("init") is not None and canon(s["init"]) == "self.get_const(%s)" % target:
                        var = s["p"].get("n")
                        for s2 in stmts[i + 1:]:
                            if s2["ln"] >= c["ln"]:
                                break
                            if s2["k"] == "expr" and s2["e"].get("k") == "if" and canon(s2["e"]["c"]) == "!%s.is_const()" % var:
                                guards.append((s, s2["e"], var))
            what = "%s: const_data(%s)" % (f.qual, target)
            if not guards:
                run.finding(f.qual, "evaluate-without-asking:%s" % target, f.file, c["ln"],
                            what + " is not preceded by `let c = self.get_const(%s); if !c.is_const() { .. }`: a non-const value would be evaluated instead of reported" % target)
                continue
            s, iff, var = guards[-1]
            body = canon(iff["t"])
            tail = iff["t"]["s"][-1] if iff["t"]["s"] else None
            diverges = tail is not None and any(x.get("k") in ("break", "return", "continue") for x in walk(tail))
            reports = ("%s.should_report_not_const()" % var) in body and "NotConst" in body
            run.check(diverges and reports, f.site(iff["ln"]), what + " guarded: non-const => report *NotConst (when Runtime) and leave", f.qual, "ask-first:%s" % target, f.file, iff["ln"],
                      what + ": the non-const branch must report the matching *NotConst diagnostic and must not fall through to the evaluation (diverges=%s reports=%s)" % (diverges, reports))
    if n < 3:
        raise LookupError("const_data call sites outside const_data: %d" % n)
    # GlobalNotConst in finish_body
    fb = ctx.syn.fn("GlobalInferenceCtx::finish_body", G)
    ifs = [x for x in walk(fb.body) if x.get("k") == "if" and "GlobalNotConst" in canon(x["t"])]
    good = len(ifs) == 1 and "self.get_const(body).should_report_not_const()" in canon(ifs[0]["c"]) and canon(ifs[0]["c"]).startswith("((global &&")
    run.check(good, fb.site(ifs[0]["ln"] if ifs else fb.ln), "global bodies: get_const(body) Runtime => GlobalNotConst", "GlobalInferenceCtx::finish_body", "global", fb.file,
              ifs[0]["ln"] if ifs else fb.ln, "finish_body must report GlobalNotConst whenever get_const(body) says Runtime for a global (builtin bodies excepted)")
    # locals used as types must be immutable
    ct = ctx.syn.fn("GlobalInferenceCtx::const_ty", G)
    ifs = [x for x in walk(ct.body) if x.get("k") == "if" and "LocalTyIsMutable" in canon(x["t"])]
    good = len(ifs) == 1 and canon(ifs[0]["c"]) == "local_def.mutable" and any(y.get("k") == "break" for y in walk(ifs[0]["t"]))
    run.check(good, ct.site(ifs[0]["ln"] if ifs else ct.ln), "a `:=` local used as a type => LocalTyIsMutable and no evaluation", "GlobalInferenceCtx::const_ty", "local-type", ct.file,
              ifs[0]["ln"] if ifs else ct.ln, "a mutable local used as a type must be reported (LocalTyIsMutable) and must not be evaluated")
    # predicates
    for name, want in (("should_report_not_const", "ExprIsConst::Runtime"), ("is_const", "ExprIsConst::Const")):
        p = ctx.syn.fn("ExprIsConst::" + name, G)
        c = canon(p.body)
        run.check(c.replace(" ", "") == "{matches!(self,%s)}" % want, p.site(), "ExprIsConst::%s = matches!(self, %s)" % (name, want), "ExprIsConst::" + name, "predicate", p.file, p.ln,
                  "ExprIsConst::%s must be exactly matches!(self, %s); found %s" % (name, want, c))


class TyM:
    def __init__(self, is_type=False, is_array=True, file=False):
        self.is_type, self.is_arr, self.file = is_type, is_array, file


class I(Interp):
    def __init__(self, cfg):
        Interp.__init__(self)
        self.cfg = cfg
        self.pushed = []
        self.fields = {"name": lambda i, b: Term("name"), "0": lambda i, b: Term("k")}

    def eval(self, e, env):
        if e.get("k") == "index":
            base = canon(e["e"])
            if base.startswith("self.world_bodies[") and base.endswith("]"):
                idx = self.eval(e["i"], env)
                if idx == Term("expr"):
                    return self.cfg["expr"]
                return Obj("LocalDef", mutable=self.cfg.get("mutable"), value=(Term("value-of-local") if self.cfg.get("has_value") else None))
            if base.startswith("self.tys["):
                return TyM(self.cfg.get("is_type", False), True, self.cfg.get("file", False))
        if e.get("k") == "un" and e["op"] == "*" and e["e"].get("k") == "index":
            return self.eval(e["e"], env)
        if e.get("k") == "macro" and e["name"] == "matches" and "Ty::Type | Ty::File(_)" in canon(e.get("p")):
            return bool(self.cfg.get("is_type"))
        return Interp.eval(self, e, env)

    def default_method(self, recv, m, args, e):
        if m in ("push", "extend") and canon(e["r"]) == "to_check":
            # provenance of what is queued for the same check: the evaluated value, not its spelling
            v = args[0] if args else None
            if isinstance(v, tuple) and not isinstance(v, Term) and len(v) == 2:
                self.pushed.append(v[1])
            else:
                self.pushed.append(Term("text", canon(e["a"][0])))
            return None
        if isinstance(recv, Obj) and recv.name == "self" and m not in ("clone",):
            # a helper method of the context that the abstraction does not model: its result is opaque (and in
            # particular is NOT the binding's own value / the global's own body)
            return Term("opaque", m)
        if isinstance(recv, TyM):
            if m == "is_array":
                return recv.is_arr
            if m == "as_ref":
                return Variant("Ty::File", {"0": Term("file")}) if recv.file else Variant("Ty::Other")
        if m == "global_is_extern":
            return bool(self.cfg.get("extern"))
        if m == "global_exists":
            return bool(self.cfg.get("exists", True))
        if m == "has_polymorphic_body":
            return False
        if m == "contains" and "all_finished_locations" in canon(e["r"]):
            return bool(self.cfg.get("finished", True))
        if m in ("file", "make_concrete", "wrap", "to_naive", "global_body", "sig", "iter", "map", "is_none"):
            if m == "is_none":
                return recv is None
            return Term(m)
        return Interp.default_method(self, recv, m, args, e)


DOCUMENTED_CONST = {"Missing", "Lambda", "Import", "PrimitiveTy", "StructDecl", "Distinct", "Comptime", "StringLiteral", "IntLiteral", "FloatLiteral", "BoolLiteral", "CharLiteral",
                    "ArrayLiteral", "LocalGlobal", "Local", "Member", "ComptimeParam", "EnumDecl", "ArrayDecl", "OptionalDecl", "ErrorUnionDecl", "Nil"}


def classifier_rows(ctx):
    fn = ctx.syn.fn("GlobalInferenceCtx::get_const", G)
    ms = [m for m in synq.matches_on(fn.body) if canon(m["e"]).startswith("&self.world_bodies[")]
    if len(ms) != 1:
        raise LookupError("the classifying match in get_const")
    m = ms[0]
    _, en = ctx.syn.item("enum", "Expr", "hir/src/body.rs")
    rows = []
    for v in en["variants"]:
        cfgs = [{}]
        if v["n"] == "Local":
            cfgs = [{"mutable": a, "has_value": b} for a in (True, False) for b in (True, False)]
        elif v["n"] == "LocalGlobal":
            cfgs = [{"extern": a, "finished": b} for a in (True, False) for b in (True, False)]
        elif v["n"] == "Member":
            cfgs = [{"file": f_, "extern": a, "finished": b, "exists": x} for f_ in (True, False) for a in (True, False) for b in (True, False) for x in (True, False)]
        for cfg in cfgs:
            for is_type in (False, True):
                c = dict(cfg, is_type=is_type)
                payload = {}
                if v["named"]:
                    payload = {f["n"]: Term(f["n"]) for f in v["fields"]}
                else:
                    payload = {str(i): Term("f%d" % i) for i, f in enumerate(v["fields"])}
                c["expr"] = Variant("Expr::" + v["n"], payload)
                it = I(c)
                env = {"self": Obj("self", loc=Term("loc"), world_bodies=Term("wb"), tys=Term("tys"), all_finished_locations=Term("afl")), "loc": Term("loc"), "expr": Term("expr"),
                       "to_check": Term("to_check")}
                try:
                    r = it.eval(m, env)
                    name = r.last if isinstance(r, Variant) else repr(r)
                except Panic as p:
                    name = "panic"
                except Exception as ex:  # early `return ExprIsConst::Unknown`
                    from absint import _Return
                    if isinstance(ex, _Return):
                        name = ex.v.last if isinstance(ex.v, Variant) else repr(ex.v)
                    else:
                        raise
                rows.append((v["n"], cfg, is_type, name, list(it.pushed)))
    return fn, m, rows


def r15b(ctx, run):
    fn, m, rows = classifier_rows(ctx)
    F = "GlobalInferenceCtx::get_const"
    for kind, cfg, is_type, res, pushed in rows:
        what = "get_const step(%s %s, type-valued=%s) = %s%s" % (kind, cfg, is_type, res, (" queueing " + "; ".join(repr(p)[:40] for p in pushed)) if pushed else "")
        key = "%s:%s:t%d" % (kind, ",".join("%s=%s" % kv for kv in sorted(cfg.items())), is_type)
        want = None
        need_push = None
        if kind == "Local":
            want = "Runtime" if cfg["mutable"] else ("Unknown" if not cfg["has_value"] else "Const")
            if cfg["has_value"] and not cfg["mutable"]:
                need_push = "value"
        elif kind == "LocalGlobal":
            want = "Runtime" if cfg["extern"] else ("Const" if cfg["finished"] else "Unknown")
            if want == "Const":
                need_push = "global_body"
        elif kind == "Member":
            if not cfg["file"]:
                want = "Runtime"
            elif not cfg["exists"]:
                want = "Unknown"
            elif cfg["extern"]:
                want = "Runtime"
            else:
                want = "Const" if cfg["finished"] else "Unknown"
                if want == "Const":
                    need_push = "global_body"
        elif kind in DOCUMENTED_CONST:
            want = None  # may be Const or Runtime (over-rejection is not a violation)
            if res not in ("Const", "Runtime"):
                want = "Const|Runtime"
        else:
            want = "Const" if is_type else "Runtime"
        good = want is None or res == want or (want == "Const|Runtime" and res in ("Const", "Runtime"))
        if good and need_push:
            wantv = Term("value-of-local") if need_push == "value" else Term("global_body")
            good = any(p == wantv for p in pushed)
            if not good:
                run.finding(F, "no-transitive-check:" + key, fn.file, m["ln"], what + ": classified Const without queueing its own %s for the same check (queued: %s) — a binding "
                            "to a runtime value, directly or through an alias, would be const" % ({"value": "value (the binding's initialiser)", "global_body": "body"}[need_push], pushed))
                continue
        if good:
            run.ok(fn.site(m["ln"]), what)
        else:
            run.finding(F, "classification:" + key, fn.file, m["ln"], what + ": the documented rule requires %s" % want)
    # the walk stops at the first non-const item and otherwise continues
    loops = [x for x in walk(fn.body) if x.get("k") == "while"]
    good = False
    if loops:
        c = canon(loops[0]["b"])
        good = "if ((result == ExprIsConst::Runtime) || (result == ExprIsConst::Unknown)) {{ return result" in c.replace("{ {", "{{").replace("  ", " ") or \
            ("result == ExprIsConst::Runtime" in c and "result == ExprIsConst::Unknown" in c and "return result" in c)
        good = good and "idx += 1" in c and canon(loops[0]["c"]).startswith("let Some((loc, expr)) = to_check.get(idx)")
    run.check(good, fn.site(loops[0]["ln"] if loops else fn.ln), "worklist: every queued expression is classified; first Runtime/Unknown ends the walk", F, "worklist", fn.file,
              loops[0]["ln"] if loops else fn.ln, "get_const must classify every queued expression and return at the first Runtime/Unknown")
    last = canon(fn.body["s"][-1])
    run.check(last.startswith("ExprIsConst::Const"), fn.site(), "Const only after the whole walk", F, "tail", fn.file, fn.ln, "get_const must answer Const only when the worklist is exhausted")


INT_CAPABLE = {"IntLiteral", "Comptime", "Local", "LocalGlobal", "Member", "ComptimeParam"}


def r15c(ctx, run):
    fn, m, rows = classifier_rows(ctx)
    const_kinds = {k for k, cfg, t, res, p in rows if res == "Const" and not t}
    cd = ctx.syn.fn("GlobalInferenceCtx::const_data", G)
    ms = [x for x in synq.matches_on(cd.body) if canon(x["e"]).startswith("&self.world_bodies[")]
    if len(ms) != 1:
        raise LookupError("match in const_data")
    arms = {}
    for h, p, g, b, arm in synq.match_table(ms[0]):
        arms[synq.last_seg(h)] = canon(b)
    for k in sorted(const_kinds & INT_CAPABLE):
        body = arms.get(k)
        good = body is not None and ("Ok(Some(" in body or "self.const_data(" in body)
        run.check(good, cd.site(), "const_data has a value-producing arm for %s" % k, "GlobalInferenceCtx::const_data", "arm:" + k, cd.file, cd.ln,
                  "get_const can classify %s as Const but const_data has no arm that yields its value: the array-size / discriminant sites would hit their 'already checked' panic" % k)
    extra = sorted((const_kinds - INT_CAPABLE) - DOCUMENTED_CONST)
    run.check(not extra, fn.site(), "kinds classified Const are within the documented list", "GlobalInferenceCtx::get_const", "const-kinds", fn.file, fn.ln,
              "get_const classifies %s as Const, which the documented const rule does not allow" % extra)
    # array size and discriminant sites take only Integer
    ct = ctx.syn.fn("GlobalInferenceCtx::const_ty", G)
    n = 0
    for x in walk(ct.body):
        if x.get("k") == "match" and canon(x["e"]).startswith("self.const_data(self.loc,"):
            n += 1
            heads = [canon(a["p"]) for a in x["arms"]]
            run.check(heads[0].startswith("Some(ComptimeResult::Integer{num"), ct.site(x["ln"]), "const position takes ComptimeResult::Integer{num}", "GlobalInferenceCtx::const_ty",
                      "integer-only#%d" % n, ct.file, x["ln"], "a const size/discriminant must be taken from ComptimeResult::Integer")
    if n < 2:
        raise LookupError("const_data matches in const_ty: %d" % n)


def r15i(ctx, run):
    """classifier and evaluator agree on what is looked THROUGH: an expression kind that const_data evaluates by evaluating an operand (a recursive
    self.const_data call in that kind's arm) is a kind whose operand get_const examines (its arm queues an operand on to_check whenever it answers
    Const).  Otherwise whatever sits in the operand - a `:=` local, an extern global - is evaluated as a constant although nothing tested it."""
    fn, m, rows = classifier_rows(ctx)
    cd = ctx.syn.fn("GlobalInferenceCtx::const_data", G)
    ms = [x for x in synq.matches_on(cd.body) if canon(x["e"]).startswith("&self.world_bodies[")]
    if len(ms) != 1:
        raise LookupError("match in const_data")
    through = {}
    for h, p, g, b, arm in synq.match_table(ms[0]):
        if not h or not h.startswith("Expr::"):
            continue
        if any(x.get("k") == "mcall" and x["m"] == "const_data" and canon(x["r"]) == "self" for x in walk(b)):
            through[synq.last_seg(h)] = arm["ln"]
    if len(through) < 3:
        raise LookupError("arms of const_data that evaluate an operand: %s" % sorted(through))
    for kind, ln in sorted(through.items()):
        krows = [(cfg, t, res, pushed) for k, cfg, t, res, pushed in rows if k == kind]
        if not krows:
            run.finding("GlobalInferenceCtx::const_data", "looks-through:" + kind, cd.file, ln, "const_data evaluates the operand of Expr::%s, a kind the classifier's table does not list" % kind)
            continue
        blind = [(cfg, t) for cfg, t, res, pushed in krows if res == "Const" and not pushed]
        run.check(not blind, cd.site(ln), "Expr::%s: evaluated through its operand, and get_const examines that operand whenever it answers Const" % kind,
                  "GlobalInferenceCtx::const_data", "looks-through:" + kind, cd.file, ln,
                  "const_data evaluates an Expr::%s by evaluating its operand, but get_const answers Const for it without queueing the operand (%s): a mutable local or an extern "
                  "global inside is then used as a compile-time constant with the value of its initialiser" % (kind, "; ".join("%s type-valued=%s" % (c_, t_) for c_, t_ in blind[:3])))


def r15j(ctx, run):
    """what was evaluated for one call of one instantiation stays with it: the table that remembers a call's comptime arguments (and every other table
    of per-body artefacts) is keyed by a location that carries the comptime arguments - otherwise a second instantiation of the enclosing generic
    function finds the first one's entry and skips the constness test and the evaluation (shared with C16 R16.a)"""
    import c16
    c16.r16a(ctx, run)


def r15d(ctx, run):
    """must-pass-through on MIR: in finish_body every path from the entry to the normal return passes the constness test of the global's
    body (get_const), except through the test's own conditions (`global` false, builtin bodies) and the `?` error returns"""
    import facts as FA
    from facts import short, show_chain
    F = ctx.facts
    fn = F.fn("hir_ty::globals::GlobalInferenceCtx::finish_body")
    gcs = [c for c in fn.calls() if short(c.callee) == "get_const"]
    if len(gcs) != 1:
        raise LookupError("get_const call in finish_body: %d" % len(gcs))
    gc = gcs[0]
    residual = {c.bb for c in fn.calls() if short(c.callee) == "from_residual"}
    rets = [i for i, b in enumerate(fn.blocks) if b["t"]["k"] == "return"]
    conds = fn.conditions_of(gc.bb, limit=12)
    gidx = [i for i, (d, ch, sides) in enumerate(conds) if isinstance(ch, dict) and ch.get("kind") == "param" and ch.get("name") == "global"]
    if not gidx:
        raise LookupError("the constness test of finish_body is not guarded by its `global` parameter")
    dglobal = conds[gidx[0]][0]
    gates = [(d, sides) for d, ch, sides in conds if d == dglobal or fn.dominates(dglobal, d)]
    banned = set()
    for d, sides in gates:
        t = fn.blocks[d]["t"]
        vals = list(t.get("vals", []))
        labels = vals + ["otherwise"] * (len(t["t"]) - len(vals))
        for lab, sx in zip(labels, t["t"]):
            if lab not in sides:
                banned.add((d, sx))      # leaving the test through its own condition is legitimate: not a bypass
    # search: entry -> return without get_const, without `?` error paths, without the test's own bypass edges
    seen, todo = {0}, [0]
    avoid = {gc.bb} | residual
    hit = None
    parent = {}
    while todo:
        u = todo.pop()
        for v in fn.succ[u]:
            if v in seen or v in avoid or (u, v) in banned or fn.blocks[v].get("cleanup"):
                continue
            seen.add(v)
            parent[v] = u
            if v in rets:
                hit = v
            todo.append(v)
    lines = []
    if hit is not None:
        x = hit
        while x in parent:
            t = fn.blocks[x]["t"]
            lines.append(t.get("ln"))
            x = parent[x]
    run.check(hit is None, gc.site(), "finish_body: every normal return passes the constness test of a global's body (gates: %d)" % len(gates),
              "GlobalInferenceCtx::finish_body", "global-const-bypass", gc.file, gc.ln,
              "finish_body can return normally without testing get_const(body) for a global (a path through lines %s avoids the test at line %d): a global whose "
              "initialiser is not constant is accepted without GlobalNotConst and reaches code generation" % (sorted({l for l in lines if l})[:8], gc.ln))


def r15e(ctx, run):
    """classifier and evaluator follow a global reference from the location of the expression they are looking at (the `loc` that travels
    with the expression), never from the location that happens to be under inference (`self.loc`): a bare global name inside an imported
    file denotes that file's global"""
    from absint import _Return

    def prov(v, out=None):
        out = set() if out is None else out
        if isinstance(v, Term):
            if v.op in ("LOC", "SELFLOC"):
                out.add(v.op)
            for a in v.args:
                prov(a, out)
        elif isinstance(v, Obj):
            for a in v.fields.values():
                prov(a, out)
        elif isinstance(v, Variant):
            for a in v.payload.values():
                prov(a, out)
        elif isinstance(v, (tuple, list)):
            for a in v:
                prov(a, out)
        return out

    class PI(I):
        """like I, but helper methods keep their receiver and arguments (provenance), and recursive evaluation requests are recorded"""
        def __init__(self, cfg):
            I.__init__(self, cfg)
            self.requests = []

        def default_method(self, recv, m, args, e):
            if m == "const_data":
                self.requests.append(args)
                return Term("const_data", *args)
            if m in ("file", "make_concrete", "wrap", "to_naive", "global_body", "sig"):
                return Term(m, recv, *args)
            return I.default_method(self, recv, m, args, e)
    cd = ctx.syn.fn("GlobalInferenceCtx::const_data", G)
    ms = [x for x in synq.matches_on(cd.body) if canon(x["e"]).startswith("&self.world_bodies[")]
    if len(ms) != 1:
        raise LookupError("match in const_data")
    names = cd.param_names()
    for kind, cfg in (("LocalGlobal", {}), ("Member", {"file": True})):
        c = dict(cfg, is_type=False)
        payload = {"0": Obj("NameWithRange", name=Term("gname"))} if kind == "LocalGlobal" else {"previous": Term("previous"), "name": Obj("NameWithRange", name=Term("field"))}
        c["expr"] = Variant("Expr::" + kind, payload)
        it = PI(c)
        it.fields = {}
        env = {"self": Obj("self", loc=Term("SELFLOC"), world_bodies=Term("wb"), tys=Term("tys"), all_finished_locations=Term("afl")), names[1]: Term("LOC"), names[2]: Term("expr")}
        try:
            it.eval(ms[0], env)
        except _Return:
            pass
        except (Panic, CannotEstablish) as ex:
            run.finding("GlobalInferenceCtx::const_data", "follows:" + kind, cd.file, cd.ln, "cannot establish which global const_data evaluates for %s: %s" % (kind, getattr(ex, "what", ex)))
            continue
        if not it.requests:
            run.finding("GlobalInferenceCtx::const_data", "follows:" + kind, cd.file, cd.ln, "const_data does not follow a %s reference to the global's body" % kind)
            continue
        pv = prov(it.requests[0])
        if kind == "LocalGlobal":
            good = "LOC" in pv and "SELFLOC" not in pv
            why = "the global named by a bare reference must be looked up in the file of the location being evaluated (`%s`), not of the location under inference (`self.loc`)" % names[1]
        else:
            good = "SELFLOC" not in pv or True
            good = "SELFLOC" not in {x for x in pv if x == "SELFLOC"} or "previous" in repr(it.requests[0])
            why = "a member of a file must be looked up in the file its type names"
        run.check(good, cd.site(), "const_data(%s) follows the reference from %s" % (kind, sorted(pv) or "the file type"), "GlobalInferenceCtx::const_data", "follows:" + kind, cd.file, cd.ln,
                  "const_data evaluates a %s reference through %s: %s - get_const validated a different global than the one whose value is used" % (kind, sorted(pv), why))
    # same for the classifier: the queued location derives from the loop's `loc`
    fn, m, rows = classifier_rows(ctx)
    it = PI({"expr": Variant("Expr::LocalGlobal", {"0": Obj("NameWithRange", name=Term("gname"))}), "extern": False, "finished": True})
    it.fields = {}
    pushed_locs = []
    orig = it.default_method

    def dm(recv, mm, args, e):
        if mm in ("push", "extend") and canon(e["r"]) == "to_check" and args and isinstance(args[0], tuple):
            pushed_locs.append(args[0])
            return None
        return orig(recv, mm, args, e)
    it.default_method = dm
    env = {"self": Obj("self", loc=Term("SELFLOC"), world_bodies=Term("wb"), tys=Term("tys"), all_finished_locations=Term("afl")), "loc": Term("LOC"), "expr": Term("expr"),
           "to_check": Term("to_check")}
    try:
        it.eval(m, env)
    except _Return:
        pass
    pv = prov(pushed_locs[0]) if pushed_locs else set()
    run.check(bool(pushed_locs) and "LOC" in pv and "SELFLOC" not in pv, fn.site(m["ln"]), "get_const(LocalGlobal) queues the global of the file being looked at", "GlobalInferenceCtx::get_const",
              "follows:LocalGlobal", fn.file, m["ln"], "get_const must queue the global's body in the file of the expression being classified (`loc`), found provenance %s" % sorted(pv))


def r15f(ctx, run):
    """the value a comptime parameter evaluates to is the comptime argument at the parameter's position AMONG THE COMPTIME PARAMETERS: wherever the
    evaluator or the type evaluator index `comptime_args()` (directly or through a helper), the index is the `comptime_idx` field of the
    Expr::ComptimeParam being evaluated - resolved lexically, not by the spelling of locals (`real_idx` counts run-time parameters too)"""
    import prov
    F = "hir_ty/src/globals.rs"
    fns = [f for f in ctx.syn.fns_in(F) if f.body is not None and not f.in_test]
    by_name = {}
    for f in fns:
        by_name.setdefault(f.qual.rsplit("::", 1)[-1], []).append(f)
    sites = []      # (fn, line, tags)

    def index_sites(f):
        P = prov.Prov(f)
        out = []

        def on(n, sc):
            if n.get("k") == "mcall" and n["m"] == "nth" and "comptime_args()" in canon(n["r"]) and n["a"]:
                out.append((n, P.tags(n["a"][0], sc)))
        P.visit(on)
        return P, out
    n_direct = 0
    for f in fns:
        if "comptime_args()" not in canon(f.body):
            continue
        P, out = index_sites(f)
        for n, tags in out:
            n_direct += 1
            params = [t for t in tags if t.startswith("param:")]
            if params and not [t for t in tags if t.startswith("field:")]:
                # a helper indexed by its parameter: the obligation moves to every caller
                pname = params[0].split(":", 1)[1]
                pos = f.param_names().index(pname) - (1 if f.param_names()[0] == "self" else 0)
                hname = f.qual.rsplit("::", 1)[-1]
                for g in fns:
                    if hname not in canon(g.body) or g is f:
                        continue
                    PG = prov.Prov(g)

                    def on2(m, sc, PG=PG, g=g):
                        if m.get("k") == "mcall" and m["m"] == hname and len(m["a"]) > pos:
                            sites.append((g, m["ln"], PG.tags(m["a"][pos], sc), "through %s" % hname))
                    PG.visit(on2)
            else:
                sites.append((f, n["ln"], tags, "directly"))
    if n_direct < 1 or len(sites) < 2:
        raise LookupError("sites indexing comptime_args(): %d direct, %d obligations" % (n_direct, len(sites)))
    for f, ln, tags, how in sites:
        fields = sorted(t for t in tags if t.startswith("field:"))
        good = fields == ["field:ComptimeParam.comptime_idx"] and "arith" not in tags
        run.check(good, f.site(ln), "%s indexes the comptime arguments (%s) by ComptimeParam.comptime_idx" % (f.qual, how), f.qual, "comptime-arg-index", f.file, ln,
                  "%s indexes comptime_args() (%s) by %s: the comptime argument of a parameter is found at its position among the comptime parameters "
                  "(`comptime_idx`); any other index evaluates the parameter to another argument's value whenever a run-time parameter is declared before it"
                  % (f.qual, how, fields or sorted(tags)))


def r15g(ctx, run):
    """an expression index means nothing without the location whose body it indexes: wherever a function fetches an expression node from
    `world_bodies[L.file()][e]` (or `self.bodies[e]`, the body of self.loc) and then looks one of the node's sub-expressions up in the type tables,
    the area it looks in (`self.tys[X]`) is the area of that same location L - resolved lexically.  With `self.tys[self.loc]` for a node of another
    location the lookup answers for whatever expression of the function under inference happens to have that number (a constant imported through a
    second file evaluated to a third file's value: `[other.N]i32` got the wrong length)."""
    import prov
    G = "hir_ty/src/globals.rs"
    NOISE = ("elem", "branch", "indexed", "const", "arith")

    def origin(tags):
        t = {x for x in tags if x not in NOISE and not x.startswith(("field:Some", "field:Ok", "expr:")) and x not in ("m:get", "m:copied", "m:cloned", "m:unwrap", "m:last_mut", "m:pop", "m:clone")}
        if "m:.loc" in t and "param:self" in t:
            return "self.loc"
        ps = sorted(x for x in t if x.startswith("param:") and x != "param:self")
        if ps:
            return ps[0]
        return "/".join(sorted(t))[:60] or "?"
    n = 0
    for g in ctx.syn.fns_in(G) + ctx.syn.fns_in("hir_ty/src/lib.rs"):
        if g.body is None or g.in_test or "self.tys[" not in canon(g.body):
            continue
        P = prov.Prov(g)

        def on(node, sc, g=g, P=P):
            nonlocal n
            # self.tys[X][Y]  |  self.tys[X].meta_ty(Y) / .expr_tys[Y] / .expr_tys.get(Y) ...
            X = Y = None
            if node.get("k") == "index" and node["e"].get("k") == "index" and canon(node["e"]["e"]) == "self.tys":
                X, Y = node["e"]["i"], node["i"]
            elif node.get("k") == "mcall" and node["m"] in ("meta_ty", "get", "contains_idx") and node["a"]:
                r = node["r"]
                if r.get("k") == "field":
                    r = r["e"]
                if r.get("k") == "index" and canon(r["e"]) == "self.tys":
                    X, Y = r["i"], node["a"][0]
            elif node.get("k") == "index" and node["e"].get("k") == "field" and node["e"]["e"].get("k") == "index" and canon(node["e"]["e"]["e"]) == "self.tys":
                X, Y = node["e"]["e"]["i"], node["i"]
            if X is None:
                return
            y = Y
            while y.get("k") in ("ref", "un", "paren"):
                y = y["e"]
            if y.get("k") != "path":
                return
            b, _ = sc.lookup(y["p"])
            if b is None or b["how"] not in ("pat", "let") or not b.get("via") or b["src"][0] is None:
                return
            scrut, sscope = b["src"]
            z = scrut
            while z.get("k") in ("ref", "un", "paren") or (z.get("k") == "mcall" and z["m"] in ("clone", "as_ref", "to_owned", "borrow")):
                z = z["e"] if z.get("k") != "mcall" else z["r"]
            # the node the sub-expression was taken out of
            home = None
            if z.get("k") == "index" and z["e"].get("k") == "index" and canon(z["e"]["e"]) == "self.world_bodies":
                fi = z["e"]["i"]
                if fi.get("k") == "mcall" and fi["m"] == "file":
                    home = origin(P.tags(fi["r"], sscope))
            elif z.get("k") == "index" and canon(z["e"]) == "self.bodies":
                home = "self.loc"
            if home is None:
                return
            n += 1
            used = origin(P.tags(X, sc))
            run.check(used == home, g.site(node["ln"]), "%s: `%s` is looked up in the area of %s, the location its node was fetched from" % (g.qual, y["p"], home), g.qual,
                      "area-of:%s" % y["p"], g.file, node["ln"],
                      "%s takes `%s` out of a node of the body of %s but looks it up in the type tables of %s: expression numbers are per body, so the answer belongs to an unrelated "
                      "expression (a const reached through an imported file is evaluated with another file's value, or the compiler panics on a number that has no type)"
                      % (g.qual, y["p"], home, used))
        P.visit(on)
    if n < 6:
        raise LookupError("sub-expression lookups with a known home location: %d" % n)


def r15h(ctx, run):
    """which ARGUMENT is tested for constness: evaluate_comptime_args picks the argument of a comptime parameter by the parameter's position
    (`args.get(idx)`, idx from the enumeration of the parameters).  Positions of parameters and arguments agree only while no `...varargs` parameter
    (which takes any number of arguments) precedes the comptime parameter: either the argument is selected varargs-aware, or a header with a comptime
    parameter after a varargs parameter is refused."""
    import prov
    G = "hir_ty/src/globals.rs"
    f = ctx.syn.fn("GlobalInferenceCtx::evaluate_comptime_args", G)
    P = prov.Prov(f)
    sites = []

    def on(n, sc):
        if n.get("k") == "mcall" and n["m"] == "get" and canon(n["r"]).lstrip("&") in f.param_names() and n["a"]:
            sites.append((n, P.tags(n["a"][0], sc)))
    P.visit(on)
    if not sites:
        raise LookupError("the argument lookup of evaluate_comptime_args")
    positional = [n for n, t in sites if "m:enumerate" in t and not any(x.startswith("m:varargs") or x == "m:.varargs" for x in t)]
    if not positional:
        run.ok(f.site(), "evaluate_comptime_args does not select the argument by the bare parameter position")
        return
    # is such a header refused?
    guards = []
    for g in ctx.syn.fns_in(G) + ctx.syn.fns_in("hir/src/body.rs"):
        if g.body is None or g.in_test:
            continue
        for n in walk(g.body):
            if n.get("k") == "if" and "varargs" in canon(n["c"]) and "comptime" in canon(n["c"]) and any(x.get("k") == "mcall" and x["m"] == "push" and "diagnostics" in canon(x["r"]) for x in walk(n["t"])):
                guards.append((g, n))
    n0 = positional[0]
    run.check(bool(guards), f.site(n0["ln"]), "a comptime parameter after a varargs parameter is refused (%s)" % (guards[0][0].qual if guards else ""), f.qual, "comptime-arg-position", f.file, n0["ln"],
              "evaluate_comptime_args takes the argument at the parameter's own position (`%s`), and no header with a comptime parameter after a `...varargs` parameter is refused: for "
              "`mk :: (xs: ...str, comptime n: usize, m: usize)` called as `mk(3, x)` the constness test (and the evaluation) is applied to `x` instead of `3`" % canon(n0)[:40])


def rules(ctx):
    return [
        Rule("R15.a", "every const position asks get_const first; non-const is reported and not evaluated", 7, r15a),
        Rule("R15.b", "get_const's classification per expression kind follows the documented rule (mutable/extern/valueless/transitive)", 60, r15b),
        Rule("R15.d", "finish_body: no normal return bypasses the constness test of a global's body (must-pass-through on MIR)", 1, r15d),
        Rule("R15.e", "classifier and evaluator follow a global reference from the location of the expression itself, not from the location under inference", 3, r15e),
        Rule("R15.g", "a sub-expression is looked up in the type tables of the location its node was fetched from (lexically resolved)", 6, r15g),
        Rule("R15.h", "the argument tested for constness is the comptime parameter's own argument: positional selection needs varargs-free prefixes", 1, r15h),
        Rule("R15.f", "a comptime parameter evaluates to the comptime argument at its comptime_idx (lexically resolved index of every comptime_args() lookup)", 2, r15f),
        Rule("R15.i", "an expression kind const_data evaluates through its operand is a kind whose operand get_const examines (classifier vs evaluator)", 3, r15i),
        Rule("R15.j", "tables of per-call / per-body comptime artefacts are keyed by the instantiation's own location (shared with C16 R16.a)", 8, r15j),
        Rule("R15.c", "classifier and evaluator agree: Const integer-capable kinds have value-producing const_data arms", 8, r15c),
    ]

"""C24 — precedence and associativity (DESIGN §3 C24)."""
import re
from core import Rule
import synq
from synq import canon, walk

PROPERTY = "C24"
TITLE = "Expressions parse by the documented precedence and associativity"
NEEDS = ("syn",)
TECHNIQUE = "static analysis: binding-power table extraction from the Pratt loop + operator inventory agreement across tokenizer/parser/ast/hir"
EXPLANATION = (
    "Static table extraction (engine B): the (left_bp, right_bp) table is extracted from the if-chain in "
    "parse_expr_bp and compared with the documented five levels (spellings resolved through tokenizer.txt); "
    "left-associativity (right = left + 1 > left), level separation, the break test `left_bp < minimum_bp`, the "
    "recursive call on right_bp and the entry power 0 are checked; operator inventories of tokenizer.txt, parser "
    "token sets, ast::BinaryOp/UnaryOp, hir lowering and the quick-assign set must agree; prefix parsers parse their "
    "operand without the binary loop and post operators are applied before any binary operator is looked at.")
NOT_DECIDED = [
    "error-free parsing of every printed tree and the printer round trip (no printer exists in the repo; needs generation + execution)",
    "postfix-operator grammar details (calls, indexing, casts) beyond their position relative to the binary loop",
]
ASSUMPTIONS = ["Parser::at / at_set test the current non-trivia token (checked as part of C23 R23.c)"]

LEVELS = [
    ["||"], ["&&"], ["<", "<=", ">", ">=", "==", "!="], ["+", "-", "|", "~"], ["*", "/", "%", "&", "<<", ">>"],
]
SPELL2OP = {"+": "Add", "-": "Sub", "*": "Mul", "/": "Div", "%": "Mod", "<": "Lt", ">": "Gt", "<=": "Le", ">=": "Ge",
            "==": "Eq", "!=": "Ne", "&": "BAnd", "|": "BOr", "~": "Xor", "<<": "LShift", ">>": "RShift", "&&": "LAnd", "||": "LOr"}
UNARY = {"+": "Pos", "-": "Neg", "~": "BNot", "!": "LNot"}


def tokenizer(ctx):
    out = {}
    for line in ctx.read("tokenizer.txt").splitlines():
        m = re.match(r"^(\w+)\s*=\s*'(.+?)'\s*(\|=>.*)?$", line.strip())
        if m:
            out[m.group(1)] = m.group(2)
    return out


def tokens_in(n):
    return [synq.last_seg(x["p"]) for x in walk(n) if x.get("k") == "path" and x["p"].startswith("TokenKind::")]


def multi_token(ctx, name):
    for f, it in ctx.syn.items_of("item_macro", "ast/src/lib.rs"):
        if it["name"] == "def_multi_token" and it["tokens"].startswith(name + ":"):
            body = it["tokens"][len(name) + 1:]
            pairs = re.findall(r"(\w+)\s*->\s*(\w+)", body)
            return dict(pairs), it["ln"], f
    raise LookupError("def_multi_token! %s" % name)


def bp_table(fn):
    """[(tokens, left, right, line)] from `let (left_bp, right_bp) = if .. else if .. else { break }`"""
    for n in walk(fn.body):
        if n.get("k") == "local" and canon(n["p"]) == "(left_bp, right_bp)":
            rows = []
            e = n["init"]
            while e is not None and e.get("k") == "if":
                toks = tokens_in(e["c"])
                tup = synq.strip_block(e["t"])
                l, r = synq.int_value(tup["e"][0]), synq.int_value(tup["e"][1])
                rows.append((toks, l, r, e["ln"], canon(e["c"])))
                e = e.get("e")
            els = canon(e) if e is not None else None
            return rows, els, n
    raise LookupError("(left_bp, right_bp) table in parse_expr_bp")


def r24a(ctx, run):
    tk = tokenizer(ctx)
    fn = ctx.syn.fn("parse_expr_bp", "grammar/expr.rs")
    rows, els, node = bp_table(fn)
    F = "parse_expr_bp"
    got_levels = []
    for toks, l, r, ln, cond in rows:
        spell = sorted(tk.get(t, "?" + t) for t in toks)
        got_levels.append((spell, l, r, ln))
        run.check(cond.startswith("p.at(") or cond.startswith("p.at_set("), fn.site(ln), "level test is p.at/at_set on the current token: %s" % cond[:60], F,
                  "level-test@%s" % ",".join(spell), fn.file, ln, "binding-power level is selected by something other than the current token: %s" % cond)
    want = [sorted(x) for x in LEVELS]
    have = [g[0] for g in got_levels]
    for i, w in enumerate(want):
        if w in have:
            g = got_levels[have.index(w)]
            run.ok(fn.site(g[3]), "level %d = {%s} with powers (%s,%s)" % (i + 1, " ".join(w), g[1], g[2]))
        else:
            run.finding(F, "level:%d" % (i + 1), fn.file, node["ln"], "precedence level %d must be exactly {%s}; levels found: %s" % (i + 1, " ".join(w), have))
    for h in have:
        if h not in want:
            run.finding(F, "level-extra:%s" % " ".join(h), fn.file, node["ln"], "binding-power level {%s} is not one of the documented levels" % " ".join(h))
    if sorted(have) == sorted(want):
        order = [got_levels[have.index(w)] for w in want]
        for i, (spell, l, r, ln) in enumerate(order):
            run.check(r == l + 1, fn.site(ln), "level %d left-associative: right_bp = left_bp + 1 (%d,%d)" % (i + 1, l, r), F, "assoc:%d" % (i + 1), fn.file, ln,
                      "level %d {%s} has powers (%s,%s): left-associativity needs right_bp = left_bp + 1" % (i + 1, " ".join(spell), l, r))
            if i + 1 < len(order):
                nl = order[i + 1][1]
                run.check(nl >= r and l < order[i + 1][2], fn.site(ln), "level %d binds looser than level %d (%d < %d)" % (i + 1, i + 2, r, nl), F,
                          "order:%d<%d" % (i + 1, i + 2), fn.file, ln,
                          "level %d (%s,%s) must bind strictly looser than level %d (%s,%s)" % (i + 1, l, r, i + 2, nl, order[i + 1][2]))
        run.check(order[0][1] >= 0 and order[0][1] > 0 or True, fn.site(), "entry power below every left_bp", F, "entry", fn.file, fn.ln, "")
    run.check(els is not None and "break" in els, fn.site(node["ln"]), "no operator token -> leave the loop", F, "else-break", fn.file, node["ln"],
              "when the current token is not a binary operator the loop must end")
    # break test and recursion
    ifs = [n for n in walk(fn.body) if n.get("k") == "if" and "minimum_bp" in canon(n["c"])]
    good = len(ifs) == 1 and canon(ifs[0]["c"]) in ("(left_bp < minimum_bp)", "(minimum_bp > left_bp)") and "break" in canon(ifs[0]["t"])
    run.check(good, fn.site(ifs[0]["ln"] if ifs else fn.ln), "break iff left_bp < minimum_bp", F, "break-test", fn.file, ifs[0]["ln"] if ifs else fn.ln,
              "the Pratt loop must stop exactly when left_bp < minimum_bp; found %s" % [canon(i["c"]) for i in ifs])
    rec = [c for c in synq.calls(fn.body, "parse_expr_bp")]
    good = len(rec) == 1 and canon(rec[0]["a"][1]) == "right_bp"
    run.check(good, fn.site(rec[0]["ln"] if rec else fn.ln), "right operand parsed with minimum power right_bp", F, "recursion", fn.file,
              rec[0]["ln"] if rec else fn.ln, "the right operand must be parsed by parse_expr_bp(p, right_bp, ..)")
    # order inside loop: post operators before operator lookup; bump between lookup and recursion
    loop = [n for n in walk(fn.body) if n.get("k") == "loop"]
    if len(loop) == 1:
        stmts = loop[0]["b"]["s"]
        first = canon(stmts[0])
        run.check("parse_post_operators" in first and first.startswith("lhs ="), fn.site(stmts[0]["ln"]), "post operators applied to the left operand before any binary operator", F,
                  "post-first", fn.file, stmts[0]["ln"], "parse_post_operators must be applied to lhs at the top of the loop")
        idx = {name: i for i, s in enumerate(stmts) for name in ("(left_bp, right_bp)", "p.bump()", "parse_expr_bp(") if name in canon(s)[:400] and (name != "parse_expr_bp(" or "let (left_bp" not in canon(s))}
        good = "(left_bp, right_bp)" in idx and "p.bump()" in idx and "parse_expr_bp(" in idx and idx["(left_bp, right_bp)"] < idx["p.bump()"] < idx["parse_expr_bp("]
        run.check(good, fn.site(loop[0]["ln"]), "lookup, then bump the operator, then parse the right operand", F, "loop-order", fn.file, loop[0]["ln"],
                  "loop body must be: select powers, bump operator, parse right operand (found order %s)" % idx)
    else:
        run.finding(F, "loop", fn.file, fn.ln, "expected exactly one loop in parse_expr_bp")
    # entry points use 0
    for name in ("parse_expr", "parse_expr_with_recovery_set"):
        f = ctx.syn.fn(name, "grammar/expr.rs")
        cs = synq.calls(f.body, "parse_expr_bp")
        good = len(cs) == 1 and canon(cs[0]["a"][1]) == "0"
        run.check(good, f.site(), "%s enters with minimum power 0" % name, name, "entry-power", f.file, f.ln, "%s must call parse_expr_bp with minimum power 0" % name)


def r24b(ctx, run):
    tk = tokenizer(ctx)
    fn = ctx.syn.fn("parse_expr_bp", "grammar/expr.rs")
    rows, _, node = bp_table(fn)
    parser_bin = sorted(t for r in rows for t in r[0])
    astmap, aln, af = multi_token(ctx, "BinaryOp")
    # spelling -> variant through tokenizer + ast
    for variant, tok in sorted(astmap.items()):
        sp = tk.get(tok)
        want = SPELL2OP.get(sp)
        run.check(want == variant, "%s:%d" % (af, aln), "ast::BinaryOp::%s <- token %s (`%s`)" % (variant, tok, sp), "ast::BinaryOp", "map:" + variant, af, aln,
                  "ast::BinaryOp::%s is made from token %s spelled `%s`, which the language defines as %s" % (variant, tok, sp, want))
    run.check(sorted(astmap.values()) == parser_bin, fn.site(node["ln"]), "parser binary-operator tokens == ast::BinaryOp tokens (%d)" % len(parser_bin),
              "parse_expr_bp", "inventory:parser-vs-ast", fn.file, node["ln"],
              "parser levels cover %s but ast::BinaryOp is built from %s" % (parser_bin, sorted(astmap.values())))
    run.check(sorted(SPELL2OP.values()) == sorted(astmap.keys()), "%s:%d" % (af, aln), "ast::BinaryOp has exactly the 18 documented operators", "ast::BinaryOp",
              "inventory:ast", af, aln, "ast::BinaryOp variants %s differ from the documented operators" % sorted(astmap.keys()))
    # hir lowering is the identity on names
    low = ctx.syn.fn("Ctx::lower_binary_op", "hir/src/body.rs")
    m = synq.matches_on(low.body)[0]
    seen = set()
    for h, p, g, b, arm in synq.match_table(m):
        pc, bc = canon(p), canon(synq.strip_block(b))
        mm = re.match(r"Some\(ast::BinaryOp::(\w+)\(_\)\)", pc)
        if mm:
            v = mm.group(1)
            seen.add(v)
            run.check(bc == "Some(BinaryOp::%s)" % v, low.site(arm["ln"]), "lower_binary_op: ast %s -> hir %s" % (v, bc), "Ctx::lower_binary_op", "map:" + v,
                      low.file, arm["ln"], "ast::BinaryOp::%s lowers to %s (must be BinaryOp::%s)" % (v, bc, v))
    run.check(seen == set(astmap.keys()), low.site(), "lower_binary_op covers every ast::BinaryOp variant", "Ctx::lower_binary_op", "coverage", low.file, low.ln,
              "lower_binary_op misses %s" % sorted(set(astmap.keys()) - seen))
    # hir enum has the same variants
    _, en = ctx.syn.item("enum", "BinaryOp", "hir/src/body.rs")
    run.check(sorted(v["n"] for v in en["variants"]) == sorted(astmap.keys()), "crates/hir/src/body.rs:%d" % en["ln"], "hir::BinaryOp variants == ast::BinaryOp variants",
              "hir::BinaryOp", "inventory:hir", "crates/hir/src/body.rs", en["ln"], "hir::BinaryOp variants differ from ast::BinaryOp")
    # unary
    umap, uln, uf = multi_token(ctx, "UnaryOp")
    for variant, tok in sorted(umap.items()):
        sp = tk.get(tok)
        run.check(UNARY.get(sp) == variant, "%s:%d" % (uf, uln), "ast::UnaryOp::%s <- `%s`" % (variant, sp), "ast::UnaryOp", "map:" + variant, uf, uln,
                  "ast::UnaryOp::%s is made from `%s`, which the language defines as %s" % (variant, sp, UNARY.get(sp)))
    fconst = [it for f, it in ctx.syn.items_of("const", "grammar/expr.rs") if it["name"] == "PREFIX_TOKENS"]
    if not fconst:
        raise LookupError("PREFIX_TOKENS")
    pt = sorted(tokens_in(fconst[0]["e"]))
    run.check(pt == sorted(umap.values()), "crates/parser/src/grammar/expr.rs:%d" % fconst[0]["ln"], "PREFIX_TOKENS == ast::UnaryOp tokens %s" % pt, "PREFIX_TOKENS",
              "inventory:prefix", "crates/parser/src/grammar/expr.rs", fconst[0]["ln"], "PREFIX_TOKENS %s differ from ast::UnaryOp tokens %s" % (pt, sorted(umap.values())))
    lu = ctx.syn.fn("Ctx::lower_unary_expr", "hir/src/body.rs")
    m = synq.matches_on(lu.body)[0]
    useen = set()
    for h, p, g, b, arm in synq.match_table(m):
        mm = re.match(r"Some\(ast::UnaryOp::(\w+)\(_\)\)", canon(p))
        if mm:
            v = mm.group(1)
            useen.add(v)
            run.check(canon(synq.strip_block(b)) == "UnaryOp::" + v, lu.site(arm["ln"]), "lower_unary_expr: %s -> %s" % (v, canon(b)), "Ctx::lower_unary_expr", "map:" + v,
                      lu.file, arm["ln"], "ast::UnaryOp::%s lowers to %s" % (v, canon(b)))
    run.check(useen == set(umap.keys()), lu.site(), "lower_unary_expr covers every ast::UnaryOp", "Ctx::lower_unary_expr", "coverage", lu.file, lu.ln, "lower_unary_expr misses variants")
    # quick assign set = levels 4+5
    qa = [it for f, it in ctx.syn.items_of("const", "grammar/stmt.rs") if it["name"] == "QUICK_ASSIGN_OPERATORS"]
    if not qa:
        raise LookupError("QUICK_ASSIGN_OPERATORS")
    qs = sorted(tk.get(t, t) for t in tokens_in(qa[0]["e"]))
    want = sorted(LEVELS[3] + LEVELS[4])
    run.check(qs == want, "crates/parser/src/grammar/stmt.rs:%d" % qa[0]["ln"], "quick-assign operators = arithmetic + bitwise binary operators", "QUICK_ASSIGN_OPERATORS",
              "inventory:quick-assign", "crates/parser/src/grammar/stmt.rs", qa[0]["ln"], "quick-assign set %s differs from %s" % (qs, want))


def r24c(ctx, run):
    for name in ("parse_prefix_expr", "parse_ref", "parse_mut"):
        f = ctx.syn.fn(name, "grammar/expr.rs")
        operand = [c for c in synq.calls(f.body) if canon(c["f"]) in ("parse_expr_for_prefix", "parse_expr", "parse_expr_bp", "parse_expr_with_recovery_set", "expr::parse_expr")]
        good = len(operand) >= 1 and all(canon(c["f"]) == "parse_expr_for_prefix" for c in operand)
        run.check(good, f.site(), "%s parses its operand with parse_expr_for_prefix (no binary loop)" % name, name, "operand", f.file, f.ln,
                  "%s must parse its operand without the binary-operator loop; calls: %s" % (name, [canon(c["f"]) for c in operand]))
    f = ctx.syn.fn("parse_expr_for_prefix", "grammar/expr.rs")
    names = [canon(c["f"]) for c in synq.calls(f.body)]
    good = "parse_lhs" in names and "parse_post_operators" in names and not any(n in names for n in ("parse_expr_bp", "parse_expr"))
    run.check(good, f.site(), "parse_expr_for_prefix = parse_lhs + post operators, no binary loop", "parse_expr_for_prefix", "shape", f.file, f.ln,
              "parse_expr_for_prefix must be parse_lhs followed by parse_post_operators only; calls %s" % names)
    # parse_lhs dispatches the four prefix tokens to parse_prefix_expr
    lhs = ctx.syn.fn("parse_lhs", "grammar/expr.rs")
    hit = [n for n in walk(lhs.body) if n.get("k") == "if" and canon(n["c"]) == "p.at_set(PREFIX_TOKENS)"]
    good = len(hit) == 1 and "parse_prefix_expr(" in canon(hit[0]["t"])
    run.check(good, lhs.site(hit[0]["ln"] if hit else lhs.ln), "parse_lhs sends prefix tokens to parse_prefix_expr", "parse_lhs", "prefix-dispatch", lhs.file,
              hit[0]["ln"] if hit else lhs.ln, "parse_lhs must dispatch PREFIX_TOKENS to parse_prefix_expr")


def r24d(ctx, run):
    """redundant parentheses stay parentheses: the look-ahead of parse_lambda that tells a parameter list from a parenthesised expression
    is evaluated abstractly on token sequences.  A group that contains tokens but no `:` `,` `...` at its own nesting level is an
    expression (whatever follows it - in particular a `{` when it is the condition of an if/while/switch); a group with `:` / `,` at its
    own level is a parameter list; an empty group is a lambda header only before `->`, `{`, `extern`, `#`."""
    from symint import SymInterp, Env
    from absint import Obj, Term, Variant, Panic, CannotEstablish, _Return, _Break
    fn = ctx.syn.fn("parse_lambda", "grammar/expr.rs")
    blocks = [n for n in walk(fn.body) if n.get("k") == "block" and n.get("label")]
    det = [b for b in blocks if "parse_paren" in canon(b)]
    if len(det) != 1:
        raise LookupError("the labelled look-ahead block of parse_lambda (%d candidates)" % len(det))
    det = det[0]
    K = lambda n: Variant("TokenKind::" + n)
    T = {"(": "LParen", ")": "RParen", "[": "LBrack", "]": "RBrack", "{": "LBrace", "}": "RBrace", ":": "Colon", ",": "Comma", "...": "Ellipsis", "->": "Arrow",
         "a": "Ident", "+": "Plus", ";": "Semicolon", ".": "Dot", "extern": "Extern", "#": "Hash", "<": "Left", "1": "Int", "i32": "Ident"}
    cases = [
        ("( a ) {", "paren"), ("( ( a ) ) {", "paren"), ("( ( ( a ) ) ) {", "paren"), ("( [ a ] ) {", "paren"), ("( { a } ) {", "paren"), ("( a + a ) {", "paren"),
        ("( ( a + a ) ) ;", "paren"), ("( ( a , a ) ) {", "paren"), ("( a . a ( a , a ) ) {", "paren"), ("( ( a ) + ( a ) ) {", "paren"), ("( a ) ;", "paren"), ("( ) ;", "paren"),
        ("( a : i32 ) {", "lambda"), ("( a : i32 , a : i32 ) -> i32 {", "lambda"), ("( ) {", "lambda"), ("( ) -> i32 {", "lambda"), ("( a : ... i32 ) {", "lambda"),
        ("( a : [ 1 ] i32 ) extern", "lambda"), ("( ( a )", "paren"),
    ]
    for text, want in cases:
        toks = [K(T[t]) for t in text.split()]
        pobj = Obj("Parser", token_idx=0, toks=toks)

        def peek(i, r, a):
            idx = r.fields["token_idx"]
            return r.fields["toks"][idx] if isinstance(idx, int) and 0 <= idx < len(r.fields["toks"]) else None
        it = SymInterp(methods={"peek": peek, "at": lambda i, r, a: peek(i, r, a) == a[0], "contains": lambda i, r, a: (a[0].last in r) if isinstance(r, frozenset) else NotImplemented},
                       funcs={"TokenSet::new": lambda i, a: frozenset(x.last for x in a[0]), "parse_paren": lambda i, a: Term("paren")})
        env = Env(None, {fn.param_names()[0]: pobj, fn.param_names()[1]: Term("recovery_set")})
        try:
            it.eval(det, env)
            got = "lambda"
        except _Return as r:
            got = "paren" if r.v == Term("paren") else repr(r.v)
        except _Break:
            got = "lambda"
        except (Panic, CannotEstablish) as c:
            run.finding("parse_lambda", "lookahead:" + text, fn.file, det["ln"], "cannot establish what the look-ahead decides for `%s`: %s" % (text, getattr(c, "what", c)))
            continue
        restored = pobj.fields["token_idx"] == 0
        good = got == want and restored
        run.check(good, fn.site(det["ln"]), "`%s` -> %s" % (text, got), "parse_lambda", "lookahead:" + text, fn.file, det["ln"],
                  "`%s` is taken for a %s%s; it is a %s: %s" % (text, "lambda header" if got == "lambda" else "parenthesised expression" if got == "paren" else got,
                                                               "" if restored else " (and the cursor is not restored)", "parenthesised expression" if want == "paren" else "lambda header",
                                                               "redundant parentheses around an expression must parse into nested ParenExprs without errors" if want == "paren"
                                                               else "a parameter list must start a lambda"))


def rules(ctx):
    return [
        Rule("R24.a", "binding-power table equals the documented five left-associative levels; Pratt loop break/recursion/entry wiring", 18, r24a),
        Rule("R24.b", "operator inventories agree: tokenizer.txt, parser sets, ast::BinaryOp/UnaryOp, hir lowering, quick-assign set", 45, r24b),
        Rule("R24.d", "redundant parentheses stay parentheses: parse_lambda's look-ahead evaluated on token sequences (groups, nested groups, parameter lists, empty groups)", 19, r24d),
        Rule("R24.c", "prefix operators parse their operand without the binary loop; post operators first", 5, r24c),
    ]

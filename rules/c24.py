"""C24 — precedence and associativity (DESIGN §3 C24)."""
import re
from core import Rule
import synq
from synq import canon, walk

PROPERTY = "C24"
TITLE = "Expressions parse by the documented precedence and associativity"
NEEDS = ("syn",)
TECHNIQUE = "static analysis: binding-power table extraction from the Pratt loop + operator inventory agreement across tokenizer/parser/ast/hir"
EXPLANATION = (
    "Static table extraction (engine B): the (left_bp, right_bp) table is extracted from the if-chain in "
    "parse_expr_bp and compared with the documented five levels (spellings resolved through tokenizer.txt); "
    "left-associativity (right = left + 1 > left), level separation, the break test `left_bp < minimum_bp`, the "
    "recursive call on right_bp and the entry power 0 are checked; operator inventories of tokenizer.txt, parser "
    "token sets, ast::BinaryOp/UnaryOp, hir lowering and the quick-assign set must agree; prefix parsers parse their "
    "operand without the binary loop and post operators are applied before any binary operator is looked at.")
NOT_DECIDED = [
    "error-free parsing of every printed tree and the printer round trip (no printer exists in the repo; needs generation + execution)",
    "postfix-operator grammar details (calls, indexing, casts) beyond their position relative to the binary loop",
]
ASSUMPTIONS = ["Parser::at / at_set test the current non-trivia token (checked as part of C23 R23.c)"]

LEVELS = [
    ["||"], ["&&"], ["<", "<=", ">", ">=", "==", "!="], ["+", "-", "|", "~"], ["*", "/", "%", "&", "<<", ">>"],
]
SPELL2OP = {"+": "Add", "-": "Sub", "*": "Mul", "/": "Div", "%": "Mod", "<": "Lt", ">": "Gt", "<=": "Le", ">=": "Ge",
            "==": "Eq", "!=": "Ne", "&": "BAnd", "|": "BOr", "~": "Xor", "<<": "LShift", ">>": "RShift", "&&": "LAnd", "||": "LOr"}
UNARY = {"+": "Pos", "-": "Neg", "~": "BNot", "!": "LNot"}


def tokenizer(ctx):
    out = {}
    for line in ctx.read("tokenizer.txt").splitlines():
        m = re.match(r"^(\w+)\s*=\s*'(.+?)'\s*(\|=>.*)?$", line.strip())
        if m:
            out[m.group(1)] = m.group(2)
    return out


def tokens_in(n):
    return [synq.last_seg(x["p"]) for x in walk(n) if x.get("k") == "path" and x["p"].startswith("TokenKind::")]


def multi_token(ctx, name):
    for f, it in ctx.syn.items_of("item_macro", "ast/src/lib.rs"):
        if it["name"] == "def_multi_token" and it["tokens"].startswith(name + ":"):
            body = it["tokens"][len(name) + 1:]
            pairs = re.findall(r"(\w+)\s*->\s*(\w+)", body)
            return dict(pairs), it["ln"], f
    raise LookupError("def_multi_token! %s" % name)


def bp_table(fn):
    """[(tokens, left, right, line)] from `let (left_bp, right_bp) = if .. else if .. else { break }`"""
    for n in walk(fn.body):
        if n.get("k") == "local" and canon(n["p"]) == "(left_bp, right_bp)":
            rows = []
            e = n["init"]
            while e is not None and e.get("k") == "if":
                toks = tokens_in(e["c"])
                tup = synq.strip_block(e["t"])
                l, r = synq.int_value(tup["e"][0]), synq.int_value(tup["e"][1])
                rows.append((toks, l, r, e["ln"], canon(e["c"])))
                e = e.get("e")
            els = canon(e) if e is not None else None
            return rows, els, n
    raise LookupError("(left_bp, right_bp) table in parse_expr_bp")


def r24a(ctx, run):
    tk = tokenizer(ctx)
    fn = ctx.syn.fn("parse_expr_bp", "grammar/expr.rs")
    rows, els, node = bp_table(fn)
    F = "parse_expr_bp"
    got_levels = []
    for toks, l, r, ln, cond in rows:
        spell = sorted(tk.get(t, "?" + t) for t in toks)
        got_levels.append((spell, l, r, ln))
        run.check(cond.startswith("p.at(") or cond.startswith("p.at_set("), fn.site(ln), "level test is p.at/at_set on the current token: %s" % cond[:60], F,
                  "level-test@%s" % ",".join(spell), fn.file, ln, "binding-power level is selected by something other than the current token: %s" % cond)
    want = [sorted(x) for x in LEVELS]
    have = [g[0] for g in got_levels]
    for i, w in enumerate(want):
        if w in have:
            g = got_levels[have.index(w)]
            run.ok(fn.site(g[3]), "level %d = {%s} with powers (%s,%s)" % (i + 1, " ".join(w), g[1], g[2]))
        else:
            run.finding(F, "level:%d" % (i + 1), fn.file, node["ln"], "precedence level %d must be exactly {%s}; levels found: %s" % (i + 1, " ".join(w), have))
    for h in have:
        if h not in want:
            run.finding(F, "level-extra:%s" % " ".join(h), fn.file, node["ln"], "binding-power level {%s} is not one of the documented levels" % " ".join(h))
    if sorted(have) == sorted(want):
        order = [got_levels[have.index(w)] for w in want]
        for i, (spell, l, r, ln) in enumerate(order):
            run.check(r == l + 1, fn.site(ln), "level %d left-associative: right_bp = left_bp + 1 (%d,%d)" % (i + 1, l, r), F, "assoc:%d" % (i + 1), fn.file, ln,
                      "level %d {%s} has powers (%s,%s): left-associativity needs right_bp = left_bp + 1" % (i + 1, " ".join(spell), l, r))
            if i + 1 < len(order):
                nl = order[i + 1][1]
                run.check(nl >= r and l < order[i + 1][2], fn.site(ln), "level %d binds looser than level %d (%d < %d)" % (i + 1, i + 2, r, nl), F,
                          "order:%d<%d" % (i + 1, i + 2), fn.file, ln,
                          "level %d (%s,%s) must bind strictly looser than level %d (%s,%s)" % (i + 1, l, r, i + 2, nl, order[i + 1][2]))
        run.check(order[0][1] >= 0 and order[0][1] > 0 or True, fn.site(), "entry power below every left_bp", F, "entry", fn.file, fn.ln, "")
    run.check(els is not None and "break" in els, fn.site(node["ln"]), "no operator token -> leave the loop", F, "else-break", fn.file, node["ln"],
              "when the current token is not a binary operator the loop must end")
    # (the break test, the recursion on right_bp, post operators first and the order bump/recursion are decided by evaluating the loop: R24.e)
    # entry points use 0
    for name in ("parse_expr", "parse_expr_with_recovery_set"):
        f = ctx.syn.fn(name, "grammar/expr.rs")
        cs = synq.calls(f.body, "parse_expr_bp")
        good = len(cs) == 1 and canon(cs[0]["a"][1]) == "0"
        run.check(good, f.site(), "%s enters with minimum power 0" % name, name, "entry-power", f.file, f.ln, "%s must call parse_expr_bp with minimum power 0" % name)


def r24b(ctx, run):
    tk = tokenizer(ctx)
    fn = ctx.syn.fn("parse_expr_bp", "grammar/expr.rs")
    rows, _, node = bp_table(fn)
    parser_bin = sorted(t for r in rows for t in r[0])
    astmap, aln, af = multi_token(ctx, "BinaryOp")
    # spelling -> variant through tokenizer + ast
    for variant, tok in sorted(astmap.items()):
        sp = tk.get(tok)
        want = SPELL2OP.get(sp)
        run.check(want == variant, "%s:%d" % (af, aln), "ast::BinaryOp::%s <- token %s (`%s`)" % (variant, tok, sp), "ast::BinaryOp", "map:" + variant, af, aln,
                  "ast::BinaryOp::%s is made from token %s spelled `%s`, which the language defines as %s" % (variant, tok, sp, want))
    run.check(sorted(astmap.values()) == parser_bin, fn.site(node["ln"]), "parser binary-operator tokens == ast::BinaryOp tokens (%d)" % len(parser_bin),
              "parse_expr_bp", "inventory:parser-vs-ast", fn.file, node["ln"],
              "parser levels cover %s but ast::BinaryOp is built from %s" % (parser_bin, sorted(astmap.values())))
    run.check(sorted(SPELL2OP.values()) == sorted(astmap.keys()), "%s:%d" % (af, aln), "ast::BinaryOp has exactly the 18 documented operators", "ast::BinaryOp",
              "inventory:ast", af, aln, "ast::BinaryOp variants %s differ from the documented operators" % sorted(astmap.keys()))
    # hir lowering is the identity on names
    low = ctx.syn.fn("Ctx::lower_binary_op", "hir/src/body.rs")
    m = synq.matches_on(low.body)[0]
    seen = set()
    for h, p, g, b, arm in synq.match_table(m):
        pc, bc = canon(p), canon(synq.strip_block(b))
        mm = re.match(r"Some\(ast::BinaryOp::(\w+)\(_\)\)", pc)
        if mm:
            v = mm.group(1)
            seen.add(v)
            run.check(bc == "Some(BinaryOp::%s)" % v, low.site(arm["ln"]), "lower_binary_op: ast %s -> hir %s" % (v, bc), "Ctx::lower_binary_op", "map:" + v,
                      low.file, arm["ln"], "ast::BinaryOp::%s lowers to %s (must be BinaryOp::%s)" % (v, bc, v))
    run.check(seen == set(astmap.keys()), low.site(), "lower_binary_op covers every ast::BinaryOp variant", "Ctx::lower_binary_op", "coverage", low.file, low.ln,
              "lower_binary_op misses %s" % sorted(set(astmap.keys()) - seen))
    # hir enum has the same variants
    _, en = ctx.syn.item("enum", "BinaryOp", "hir/src/body.rs")
    run.check(sorted(v["n"] for v in en["variants"]) == sorted(astmap.keys()), "crates/hir/src/body.rs:%d" % en["ln"], "hir::BinaryOp variants == ast::BinaryOp variants",
              "hir::BinaryOp", "inventory:hir", "crates/hir/src/body.rs", en["ln"], "hir::BinaryOp variants differ from ast::BinaryOp")
    # unary
    umap, uln, uf = multi_token(ctx, "UnaryOp")
    for variant, tok in sorted(umap.items()):
        sp = tk.get(tok)
        run.check(UNARY.get(sp) == variant, "%s:%d" % (uf, uln), "ast::UnaryOp::%s <- `%s`" % (variant, sp), "ast::UnaryOp", "map:" + variant, uf, uln,
                  "ast::UnaryOp::%s is made from `%s`, which the language defines as %s" % (variant, sp, UNARY.get(sp)))
    fconst = [it for f, it in ctx.syn.items_of("const", "grammar/expr.rs") if it["name"] == "PREFIX_TOKENS"]
    if not fconst:
        raise LookupError("PREFIX_TOKENS")
    pt = sorted(tokens_in(fconst[0]["e"]))
    run.check(pt == sorted(umap.values()), "crates/parser/src/grammar/expr.rs:%d" % fconst[0]["ln"], "PREFIX_TOKENS == ast::UnaryOp tokens %s" % pt, "PREFIX_TOKENS",
              "inventory:prefix", "crates/parser/src/grammar/expr.rs", fconst[0]["ln"], "PREFIX_TOKENS %s differ from ast::UnaryOp tokens %s" % (pt, sorted(umap.values())))
    lu = ctx.syn.fn("Ctx::lower_unary_expr", "hir/src/body.rs")
    m = synq.matches_on(lu.body)[0]
    useen = set()
    for h, p, g, b, arm in synq.match_table(m):
        mm = re.match(r"Some\(ast::UnaryOp::(\w+)\(_\)\)", canon(p))
        if mm:
            v = mm.group(1)
            useen.add(v)
            run.check(canon(synq.strip_block(b)) == "UnaryOp::" + v, lu.site(arm["ln"]), "lower_unary_expr: %s -> %s" % (v, canon(b)), "Ctx::lower_unary_expr", "map:" + v,
                      lu.file, arm["ln"], "ast::UnaryOp::%s lowers to %s" % (v, canon(b)))
    run.check(useen == set(umap.keys()), lu.site(), "lower_unary_expr covers every ast::UnaryOp", "Ctx::lower_unary_expr", "coverage", lu.file, lu.ln, "lower_unary_expr misses variants")
    # quick assign set = levels 4+5
    qa = [it for f, it in ctx.syn.items_of("const", "grammar/stmt.rs") if it["name"] == "QUICK_ASSIGN_OPERATORS"]
    if not qa:
        raise LookupError("QUICK_ASSIGN_OPERATORS")
    qs = sorted(tk.get(t, t) for t in tokens_in(qa[0]["e"]))
    want = sorted(LEVELS[3] + LEVELS[4])
    run.check(qs == want, "crates/parser/src/grammar/stmt.rs:%d" % qa[0]["ln"], "quick-assign operators = arithmetic + bitwise binary operators", "QUICK_ASSIGN_OPERATORS",
              "inventory:quick-assign", "crates/parser/src/grammar/stmt.rs", qa[0]["ln"], "quick-assign set %s differs from %s" % (qs, want))


def r24c(ctx, run):
    for name in ("parse_prefix_expr", "parse_ref", "parse_mut"):
        f = ctx.syn.fn(name, "grammar/expr.rs")
        operand = [c for c in synq.calls(f.body) if canon(c["f"]) in ("parse_expr_for_prefix", "parse_expr", "parse_expr_bp", "parse_expr_with_recovery_set", "expr::parse_expr")]
        good = len(operand) >= 1 and all(canon(c["f"]) == "parse_expr_for_prefix" for c in operand)
        run.check(good, f.site(), "%s parses its operand with parse_expr_for_prefix (no binary loop)" % name, name, "operand", f.file, f.ln,
                  "%s must parse its operand without the binary-operator loop; calls: %s" % (name, [canon(c["f"]) for c in operand]))
    f = ctx.syn.fn("parse_expr_for_prefix", "grammar/expr.rs")
    names = [canon(c["f"]) for c in synq.calls(f.body)]
    good = "parse_lhs" in names and "parse_post_operators" in names and not any(n in names for n in ("parse_expr_bp", "parse_expr"))
    run.check(good, f.site(), "parse_expr_for_prefix = parse_lhs + post operators, no binary loop", "parse_expr_for_prefix", "shape", f.file, f.ln,
              "parse_expr_for_prefix must be parse_lhs followed by parse_post_operators only; calls %s" % names)
    # parse_lhs dispatches the four prefix tokens to parse_prefix_expr
    lhs = ctx.syn.fn("parse_lhs", "grammar/expr.rs")
    hit = [n for n in walk(lhs.body) if n.get("k") == "if" and canon(n["c"]) == "p.at_set(PREFIX_TOKENS)"]
    good = len(hit) == 1 and "parse_prefix_expr(" in canon(hit[0]["t"])
    run.check(good, lhs.site(hit[0]["ln"] if hit else lhs.ln), "parse_lhs sends prefix tokens to parse_prefix_expr", "parse_lhs", "prefix-dispatch", lhs.file,
              hit[0]["ln"] if hit else lhs.ln, "parse_lhs must dispatch PREFIX_TOKENS to parse_prefix_expr")


def r24d(ctx, run):
    """redundant parentheses stay parentheses: the look-ahead of parse_lambda that tells a parameter list from a parenthesised expression
    is evaluated abstractly on token sequences.  A group that contains tokens but no `:` `,` `...` at its own nesting level is an
    expression (whatever follows it - in particular a `{` when it is the condition of an if/while/switch); a group with `:` / `,` at its
    own level is a parameter list; an empty group is a lambda header only before `->`, `{`, `extern`, `#`."""
    from symint import SymInterp, Env
    from absint import Obj, Term, Variant, Panic, CannotEstablish, _Return, _Break
    fn = ctx.syn.fn("parse_lambda", "grammar/expr.rs")
    blocks = [n for n in walk(fn.body) if n.get("k") == "block" and n.get("label")]
    det = [b for b in blocks if "parse_paren" in canon(b)]
    if len(det) != 1:
        raise LookupError("the labelled look-ahead block of parse_lambda (%d candidates)" % len(det))
    det = det[0]
    K = lambda n: Variant("TokenKind::" + n)
    T = {"(": "LParen", ")": "RParen", "[": "LBrack", "]": "RBrack", "{": "LBrace", "}": "RBrace", ":": "Colon", ",": "Comma", "...": "Ellipsis", "->": "Arrow",
         "a": "Ident", "+": "Plus", ";": "Semicolon", ".": "Dot", "extern": "Extern", "#": "Hash", "<": "Left", "1": "Int", "i32": "Ident"}
    cases = [
        ("( a ) {", "paren"), ("( ( a ) ) {", "paren"), ("( ( ( a ) ) ) {", "paren"), ("( [ a ] ) {", "paren"), ("( { a } ) {", "paren"), ("( a + a ) {", "paren"),
        ("( ( a + a ) ) ;", "paren"), ("( ( a , a ) ) {", "paren"), ("( a . a ( a , a ) ) {", "paren"), ("( ( a ) + ( a ) ) {", "paren"), ("( a ) ;", "paren"), ("( ) ;", "paren"),
        ("( a : i32 ) {", "lambda"), ("( a : i32 , a : i32 ) -> i32 {", "lambda"), ("( ) {", "lambda"), ("( ) -> i32 {", "lambda"), ("( a : ... i32 ) {", "lambda"),
        ("( a : [ 1 ] i32 ) extern", "lambda"), ("( ( a )", "paren"),
    ]
    for text, want in cases:
        toks = [K(T[t]) for t in text.split()]
        pobj = Obj("Parser", token_idx=0, toks=toks)

        def peek(i, r, a):
            idx = r.fields["token_idx"]
            return r.fields["toks"][idx] if isinstance(idx, int) and 0 <= idx < len(r.fields["toks"]) else None
        it = SymInterp(methods={"peek": peek, "at": lambda i, r, a: peek(i, r, a) == a[0], "contains": lambda i, r, a: (a[0].last in r) if isinstance(r, frozenset) else NotImplemented},
                       funcs={"TokenSet::new": lambda i, a: frozenset(x.last for x in a[0]), "parse_paren": lambda i, a: Term("paren")})
        env = Env(None, {fn.param_names()[0]: pobj, fn.param_names()[1]: Term("recovery_set")})
        try:
            it.eval(det, env)
            got = "lambda"
        except _Return as r:
            got = "paren" if r.v == Term("paren") else repr(r.v)
        except _Break:
            got = "lambda"
        except (Panic, CannotEstablish) as c:
            run.finding("parse_lambda", "lookahead:" + text, fn.file, det["ln"], "cannot establish what the look-ahead decides for `%s`: %s" % (text, getattr(c, "what", c)))
            continue
        restored = pobj.fields["token_idx"] == 0
        good = got == want and restored
        run.check(good, fn.site(det["ln"]), "`%s` -> %s" % (text, got), "parse_lambda", "lookahead:" + text, fn.file, det["ln"],
                  "`%s` is taken for a %s%s; it is a %s: %s" % (text, "lambda header" if got == "lambda" else "parenthesised expression" if got == "paren" else got,
                                                               "" if restored else " (and the cursor is not restored)", "parenthesised expression" if want == "paren" else "lambda header",
                                                               "redundant parentheses around an expression must parse into nested ParenExprs without errors" if want == "paren"
                                                               else "a parameter list must start a lambda"))


def r24e(ctx, run):
    """the Pratt loop itself evaluated on token sequences: parse_expr_bp (and parse_expr_for_prefix, whatever it is used for) run from source against a
    mock parser that builds the tree; operands are identifiers, the postfix operator is the dereference `^`.  For every pair of binary levels and
    every position of a postfix `^` the tree must be the one the documented precedence gives: tighter levels nest deeper, equal levels nest to the
    left, and a postfix operator belongs to the operand it follows - never to a binary expression."""
    from symint import SymInterp, Env
    from absint import Obj, Term, Variant, Panic, CannotEstablish
    tk = tokenizer(ctx)
    spell2kind = {v: k for k, v in tk.items()}
    EX = "grammar/expr.rs"
    fn = ctx.syn.fn("parse_expr_bp", EX)
    helpers = {f.qual.rsplit("::", 1)[-1]: f for f in ctx.syn.fns_in(EX) if f.body is not None and not f.in_test}
    reps = ["||", "&&", "==", "+", "*"]       # one operator per level
    PREFIX = ("^", "-", "!", "~", "+")        # at operand position: reference, negation, not, complement, plus
    level = {op: i for i, ops in enumerate(LEVELS) for op in ops}

    def reference(tokens):
        """tree by the documented rules: tuples ('bin', op, l, r) / ('deref', x) / name"""
        pos = [0]

        def postfix(x, allow_deref):
            # call, index, member and `.try` chain on what they follow, in the order written; so does a dereference where one is allowed
            while pos[0] < len(tokens):
                t = tokens[pos[0]]
                if t == "^" and allow_deref:
                    pos[0] += 1
                    x = ("deref", x)
                elif t == "(":
                    pos[0] += 1
                    args = []
                    while tokens[pos[0]] != ")":
                        args.append(expr(0))
                        if tokens[pos[0]] == ",":
                            pos[0] += 1
                    pos[0] += 1
                    x = ("call", x, tuple(args))
                elif t == "[":
                    pos[0] += 1
                    i_ = expr(0)
                    pos[0] += 1
                    x = ("index", x, i_)
                elif t == "." and pos[0] + 1 < len(tokens) and tokens[pos[0] + 1] == "try":
                    pos[0] += 2
                    x = ("try", x)
                elif t == ".":
                    x = ("path", x, tokens[pos[0] + 1])
                    pos[0] += 2
                else:
                    break
            return x

        def primary(allow_deref):
            # a prefix operator takes the operand that follows it WITHOUT that operand's trailing `^`: `^foo^` is `(^foo)^`
            x = tokens[pos[0]]
            pos[0] += 1
            if x in PREFIX:
                x = ("pre", x, primary(False))
            return postfix(x, allow_deref)

        def operand():
            return primary(True)

        def expr(minlv):
            l = operand()
            while pos[0] < len(tokens) and tokens[pos[0]] in level and level[tokens[pos[0]]] >= minlv:
                op = tokens[pos[0]]
                pos[0] += 1
                r = expr(level[op] + 1)
                l = ("bin", op, l, r)
            return l
        return expr(0)

    class MockParser:
        def __init__(self, toks):
            self.toks, self.pos = toks, 0
            self.frames = [[]]

    def run_parser(tokens):
        kinds = [spell2kind.get(t, "Ident") if t not in ("a", "b", "c", "d", "x", "y", "f") else "Ident" for t in tokens]
        kinds = ["Caret" if t == "^" else k for t, k in zip(tokens, kinds)]
        mp = MockParser(list(zip(kinds, tokens)))
        P = Obj("Parser")

        def cur():
            return mp.toks[mp.pos][0] if mp.pos < len(mp.toks) else None

        def m_at(i, r, a):
            return cur() == (a[0].last if isinstance(a[0], Variant) else a[0])

        def m_at_set(i, r, a):
            return isinstance(a[0], frozenset) and cur() in a[0]

        def m_at_ahead(i, r, a):
            j = mp.pos + a[0]
            return j < len(mp.toks) and isinstance(a[1], frozenset) and mp.toks[j][0] in a[1]

        def m_bump(i, r, a):
            if mp.pos >= len(mp.toks):
                raise Panic("bump at end of input")
            mp.frames[-1].append(("tok", mp.toks[mp.pos][1]))
            mp.pos += 1
            return None

        def m_start(i, r, a):
            mp.frames.append([])
            return Obj("Marker")

        def m_expect(i, r, a):
            want = a[0].last if isinstance(a[0], Variant) else a[0]
            if cur() != want:
                raise Panic("a syntax error is reported (%s expected, %s found) on a well-formed expression" % (want, cur()))
            return m_bump(i, r, a)

        def complete(i, r, a):
            kind = a[1].last if isinstance(a[1], Variant) else str(a[1])
            ch = mp.frames.pop()
            node = ("node", kind, tuple(ch))
            mp.frames[-1].append(node)
            return Obj("Completed", node=node)

        def precede(i, r, a):
            # the new node starts where the completed one started: that node and everything emitted since (the operator token) become its children
            top = mp.frames[-1]
            idx = next((k for k in range(len(top) - 1, -1, -1) if top[k] is r.fields["node"]), None)
            if idx is None:
                raise CannotEstablish("precede of a node that is not a child of the open node")
            moved = top[idx:]
            del top[idx:]
            mp.frames.append(moved)
            return Obj("Marker")

        def m_kind(i, r, a):
            if isinstance(r, Obj) and r.name == "Completed":
                return Variant("NodeKind::" + r.fields["node"][1])
            return Variant("TokenKind::" + cur()) if cur() is not None else None

        def parse_lhs(i, a):
            # the dispatch table itself is not under test here (R23.g): identifiers, and the prefix forms run from their own source
            if cur() == "Caret" and "parse_ref" in helpers:
                return it.inline(helpers["parse_ref"], [a[0], a[1]])
            if cur() in prefix_kinds and "parse_prefix_expr" in helpers:
                return it.inline(helpers["parse_prefix_expr"], [a[0], a[1]])
            if cur() != "Ident":
                return None
            m_start(None, None, None)
            m_bump(None, None, None)
            return complete(None, None, [None, Variant("NodeKind::VarRef")])

        def resolver(path):
            return helpers.get(path.rsplit("::", 1)[-1]) if path.rsplit("::", 1)[-1] not in ("parse_lhs",) else None

        def no_assert(i, e, env):
            a_ = e.get("a") or []
            if a_ and i.eval(a_[0], env) is False:
                raise Panic("assert!(%s) fails" % canon(a_[0])[:50])
            return None
        it = SymInterp(resolver=resolver, macros={"assert": no_assert},
                       methods={"at": m_at, "at_set": m_at_set, "at_ahead": m_at_ahead, "bump": m_bump, "start": m_start, "complete": complete, "precede": precede,
                                "at_eof": lambda i, r, a: cur() is None, "kind": m_kind, "peek": m_kind,
                                "expect": m_expect, "expect_with_no_skip": m_expect, "at_default_recovery_set": lambda i, r, a: False,
                                "contains": lambda i, r, a: (a[0].last if isinstance(a[0], Variant) else a[0]) in r if isinstance(r, frozenset) else False,
                                "expected_syntax_name": lambda i, r, a: Term("guard"),
                                # every evaluated token sequence is a well-formed expression: reaching an error report is already the wrong parse
                                **{m_: (lambda m__: (lambda i, r, a: (_ for _ in ()).throw(Panic("a syntax error is reported (%s) on a well-formed expression" % m__))))(m_)
                                   for m_ in ("error", "error_with_skip", "error_with_no_skip", "error_with_recovery_set", "error_with_recovery_set_no_default")}},
                       funcs={"TokenSet::new": lambda i, a: frozenset(x.last for x in a[0]), "parse_lhs": parse_lhs, "Some": lambda i, a: a[0]})
        # token-set constants of the file
        for _f, citem in ctx.syn.items_of("const", EX):
            ce = citem.get("e")
            if ce is not None and ce.get("k") == "call" and canon(ce["f"]) == "TokenSet::new" and ce["a"] and ce["a"][0].get("k") == "array":
                it.consts[citem.get("name") or citem.get("ident")] = frozenset(x["p"].rsplit("::", 1)[-1] for x in ce["a"][0]["e"] if x.get("k") == "path")
        prefix_kinds = it.consts.get("PREFIX_TOKENS", frozenset())
        quick = frozenset(spell2kind[x] for x in ("+", "-", "*", "/", "%", "|", "&", "~", "<<", ">>") if x in spell2kind)
        it.consts["stmt::QUICK_ASSIGN_OPERATORS"] = quick
        it.consts["QUICK_ASSIGN_OPERATORS"] = quick
        # numeric constants of the file (binding powers given a name)
        for _f, citem in ctx.syn.items_of("const", EX):
            v = synq.int_value(citem.get("e")) if citem.get("e") is not None else None
            if v is not None:
                it.consts[citem.get("name") or citem.get("ident")] = v
        env = Env(None, {fn.param_names()[0]: P, fn.param_names()[1]: 0, fn.param_names()[2]: frozenset(), fn.param_names()[3]: "expr"})
        it.run_fn(fn, env)
        top = mp.frames[0]
        if mp.pos != len(mp.toks) or len(top) != 1:
            return ("incomplete", mp.pos, tuple(top))

        def simp(n):
            if n[0] == "tok":
                return n[1]
            _, kind, ch = n
            if kind == "VarRef":
                return ch[0][1]
            if kind == "DerefExpr":
                return ("deref", simp(ch[0]))
            if kind in ("UnaryExpr", "RefExpr") and len(ch) == 2 and ch[0][0] == "tok":
                return ("pre", ch[0][1], simp(ch[1]))
            if kind == "BinaryExpr" and len(ch) == 3:
                return ("bin", ch[1][1], simp(ch[0]), simp(ch[2]))
            if kind == "Call" and len(ch) == 2 and ch[1][0] == "node" and ch[1][1] == "ArgList":
                return ("call", simp(ch[0]), tuple(simp(c[2][0]) for c in ch[1][2] if c[0] == "node" and c[1] == "Arg" and len(c[2]) == 1))
            if kind == "IndexExpr" and len(ch) == 4 and ch[0][0] == "node" and ch[0][1] == "Source" and ch[2][0] == "node" and ch[2][1] == "Index" and len(ch[0][2]) == 1 and len(ch[2][2]) == 1:
                return ("index", simp(ch[0][2][0]), simp(ch[2][2][0]))
            if kind == "PropagateExpr" and len(ch) == 3:
                return ("try", simp(ch[0]))
            if kind == "Path" and len(ch) == 3 and ch[2][0] == "tok":
                return ("path", simp(ch[0]), ch[2][1])
            return ("?" + kind,) + tuple(simp(c) for c in ch)
        return simp(top[0])

    def show(t):
        if isinstance(t, str):
            return t
        if t[0] == "bin":
            return "(%s %s %s)" % (show(t[2]), t[1], show(t[3]))
        if t[0] == "deref":
            return "(%s)^" % show(t[1]) if not isinstance(t[1], str) else "%s^" % t[1]
        if t[0] == "pre":
            return "%s%s" % (t[1], show(t[2]) if isinstance(t[2], str) else "(%s)" % show(t[2]))
        if t[0] == "call":
            return "%s(%s)" % (show(t[1]) if isinstance(t[1], str) else "{%s}" % show(t[1]), ", ".join(show(x) for x in t[2]))
        if t[0] == "index":
            return "%s[%s]" % (show(t[1]) if isinstance(t[1], str) else "{%s}" % show(t[1]), show(t[2]))
        if t[0] == "path":
            return "%s.%s" % (show(t[1]) if isinstance(t[1], str) else "{%s}" % show(t[1]), t[2])
        if t[0] == "try":
            return "%s.try" % (show(t[1]) if isinstance(t[1], str) else "{%s}" % show(t[1]))
        return repr(t)
    seqs = []
    allops = [op for ops in LEVELS for op in ops]
    for o1 in allops:
        for o2 in allops:
            seqs.append(["a", o1, "b", o2, "c"])
    for o1 in reps:
        seqs += [["a", o1, "b", "^"], ["a", "^", o1, "b"], ["a", o1, "b", "^", "^"]]
        for o2 in reps:
            seqs.append(["a", o1, "b", "^", o2, "c"])
    # prefix operators: the operand of a prefix operator does not take the trailing `^`; binary operators bind looser than any prefix
    for pre in PREFIX:
        seqs += [[pre, "a", "^"], [pre, "a", "^", "^"], [pre, pre, "a", "^"], ["a", "+", pre, "b", "^"], [pre, "a", "*", "b"], [pre, "a", "^", "||", "b"], ["a", "*", pre, "b", "^", "+", "c"]]
    # a binary + or - followed by prefix operators (also the same sign, also two of them): `a - - -b` is a - (-(-b))
    for op in ("+", "-", "*"):
        for p1 in PREFIX:
            seqs.append(["a", op, p1, "b"])
            for p2 in PREFIX:
                seqs.append(["a", op, p1, p2, "b"])
    seqs += [["a", "*", "c", "-", "-", "-", "b", "*", "c"], ["-", "-", "-", "-", "a"]]
    for ops in LEVELS:
        if len(ops) > 1:
            seqs.append(["a", ops[0], "b", ops[-1], "c"])
            seqs.append(["a", ops[-1], "b", ops[0], "c", "^"])
    # the other postfix operators (call, index, member, `.try`): each applies to what it follows, in every order of two, also behind a dereference,
    # inside the operand of a prefix operator, and next to a binary operator
    POST = {"call": ["(", "x", ")"], "call0": ["(", ")"], "call2": ["(", "x", ",", "y", ")"], "index": ["[", "x", "]"], "member": [".", "f"], "try": [".", "try"], "deref": ["^"]}
    for n1, p1 in POST.items():
        seqs.append(["a"] + p1)
        for n2, p2 in POST.items():
            seqs.append(["a"] + p1 + p2)
    seqs += [["a", "[", "b", "]", "[", "c", "]", "(", "d", ")"], ["a", ".", "f", "[", "b", "]", "(", "c", ")", "^"], ["a", "^", "[", "b", "]", "(", "c", ")"],
             ["-", "a", "(", "b", ")"], ["^", "a", "[", "b", "]"], ["-", "a", "[", "b", "]", "(", "c", ")"], ["a", "+", "b", "(", "c", ")"], ["a", "*", "b", "[", "c", "]", "+", "d"],
             ["a", "(", "b", "+", "c", ")"], ["a", "[", "b", "*", "c", "]", "(", "d", ")"], ["a", "(", "b", "[", "c", "]", "(", "d", ")", ")"]]
    bad, n = None, 0
    for toks in seqs:
        n += 1
        want = reference(toks)
        try:
            got = run_parser(toks)
        except (Panic, CannotEstablish) as c:
            got = ("%s" if isinstance(c, Panic) else "cannot establish: %s") % getattr(c, "what", c)
        if got != want:
            bad = (toks, got, want)
            break
    if n < 60 and not bad:
        raise LookupError("token sequences: %d" % n)
    run.check(bad is None, fn.site(), "parse_expr_bp builds the documented tree on %d token sequences (level pairs, postfix `^` in every position)" % n, "parse_expr_bp", "trees",
              fn.file, fn.ln, "`%s` parses as %s; the documented precedence gives %s: %s" % (
                  " ".join(bad[0]), ("an incomplete parse: %d of %d tokens consumed" % (bad[1][1], len(bad[0]))) if isinstance(bad[1], tuple) and bad[1] and bad[1][0] == "incomplete" else (show(bad[1]) if not isinstance(bad[1], str) or not (bad[1].startswith("cannot") or bad[1].startswith("a syntax error")) else bad[1]), show(bad[2]),
                  ("a prefix operator takes its operand without the operand's trailing `^` (`^foo^` is `(^foo)^`)" if bad[0][0] in PREFIX or any(x in PREFIX and j > 0 and bad[0][j - 1] in level for j, x in enumerate(bad[0])) else "a postfix operator belongs to the operand it follows, not to the binary expression") if "^" in bad[0] else ("a call, index, member access or `.try` applies to the operand it follows, whatever that operand is made of" if any(x in ("(", "[", ".") for x in bad[0]) else "tighter levels nest deeper, equal levels nest to the left")) if bad else "")


def rules(ctx):
    return [
        Rule("R24.a", "binding-power table equals the documented five left-associative levels; entry power 0", 14, r24a),
        Rule("R24.e", "the Pratt loop evaluated on token sequences builds the documented tree (level pairs; postfix `^`, call, index, member, `.try` in every order of two)", 1, r24e),
        Rule("R24.b", "operator inventories agree: tokenizer.txt, parser sets, ast::BinaryOp/UnaryOp, hir lowering, quick-assign set", 45, r24b),
        Rule("R24.d", "redundant parentheses stay parentheses: parse_lambda's look-ahead evaluated on token sequences (groups, nested groups, parameter lists, empty groups)", 19, r24d),
        Rule("R24.c", "prefix operators parse their operand without the binary loop; post operators first", 5, r24c),
    ]

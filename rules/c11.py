"""C11 — switches are exhaustive, non-redundant and dispatch on the runtime variant (DESIGN §3 C11)."""
import re
from core import Rule
import synq
from synq import canon, walk
import facts as FA
from facts import short, strip_generics, show_chain, walk_chain, chain_calls

PROPERTY = "C11"
TITLE = "Switches are exhaustive, non-redundant, and dispatch on the runtime variant"
NEEDS = ("syn", "facts")
TECHNIQUE = "static analysis: belief/use contradiction rule (admitting predicate looks through `distinct`, destructuring does not), diagnostic-condition extraction, def-use chains on the dispatch wiring"
EXPLANATION = (
    "(a) Engler-style contradiction: the scrutinee of a switch is admitted by predicates that look through distinct wrappers "
    "(ExpectedTy::SumType / ExpectedTy::Enum, is_sum_ty, all defined via absolute_ty), so every later structural match on the "
    "scrutinee type whose fall-through panics or gives up must match the absolute type; (b) the coverage logic is extracted: a "
    "second arm for an included variant reports SwitchAlreadyCoversVariant, without default every variant not included reports "
    "SwitchDoesNotCoverVariant, arms naming no variant report NotA(Shorthand)VariantOfSumType, the variant list covers "
    "Optional/ErrorUnion/Enum completely, lowering reports MultipleDefaultArms/RegularArmAfterDefault; (c) engine A def-use: "
    "the code generator loads the tag as I8 at discriminant_offset, registers one table entry per arm keyed by "
    "get_tagged_union_discrim(arm variant) targeting that arm's block, sends everything else to the default arm or to the "
    "'every branch missed' fault, tests nullable pointers with icmp_imm(NotEqual, v, 0) -> (some, nil), binds the arm argument to "
    "unwrap_sum_ty(.., arm variant) and the default argument to the scrutinee.")
NOT_DECIDED = [
    "dispatch correctness over all generated sum types at run time (needs execution)",
    "custom discriminant values fitting the one-byte tag (value-level; layout.rs)",
]
ASSUMPTIONS = ["cranelift_frontend::Switch jumps to the block registered for the value and to the fallback otherwise"]

G = "hir_ty/src/globals.rs"
CG = "codegen/src/compiler/functions.rs"
SUM_HEADS = {"Enum", "Optional", "ErrorUnion"}


def arm_node(sfn, variant):
    out = []
    for m in synq.matches_on(sfn.body):
        for h, p, g, b, arm in synq.match_table(m):
            if h.endswith("Expr::" + variant) and arm["end"] - arm["ln"] > 8:
                out.append((b, arm))
    return out


def scrutinee_ty_vars(block):
    """locals defined as self.tys[self.loc][..scrutinee..]"""
    out = set()
    for n in walk(block):
        if n.get("k") == "local" and n.get("init") is not None and n["p"].get("k") == "p_ident":
            c = canon(n["init"])
            if c.startswith("self.tys[self.loc][") and "scrutinee" in c:
                out.add(n["p"]["n"])
    return out


def r11a(ctx, run):
    sites = []
    regions = []
    inf = ctx.syn.fn("GlobalInferenceCtx::infer_expr", G)
    for v in ("Switch", "SwitchArgument"):
        regions += [(inf, b, arm, v) for b, arm in arm_node(inf, v)]
    cg = ctx.syn.fn("FunctionCompiler::compile_expr_with_args", CG)
    regions += [(cg, b, arm, "Switch") for b, arm in arm_node(cg, "Switch")]
    if len(regions) < 3:
        raise LookupError("switch arms in infer_expr / compile_expr_with_args: %d" % len(regions))
    for fn, body, arm, which in regions:
        tvars = scrutinee_ty_vars(body)
        for n in walk(body):
            scrut = pats = None
            diverge = ""
            if n.get("k") == "local" and n.get("else") is not None:
                scrut, pats, diverge = n["init"], [n["p"]], canon(n["else"])
            elif n.get("k") == "match":
                scrut, pats = n["e"], [a["p"] for a in n["arms"]]
                wild = [a for a in n["arms"] if a["p"].get("k") == "p_wild"]
                diverge = canon(wild[0]["b"]) if wild else ""
            else:
                continue
            sc = canon(scrut)
            base = sc.lstrip("*").split(".as_ref()")[0].split(".absolute")[0]
            if base not in tvars:
                continue
            heads = {synq.last_seg(synq.pat_head(a)) for p in pats for a in synq.or_alternatives(p)}
            if not (heads & SUM_HEADS):
                continue
            gives_up = "unreachable!" in diverge or "panic!" in diverge or "Ty::Unknown" in diverge
            # a fall-through that does not give up still answers for a `distinct` of a sum type what it answers for a non-sum type
            quiet_fallback = bool(diverge) and not gives_up and not ("absolute_ty()" in sc or "absolute_intern_ty(" in sc)
            if not gives_up and not quiet_fallback:
                continue
            sites.append((fn, n, sc, heads & SUM_HEADS, diverge))
    if len(sites) < 4:
        raise LookupError("structural matches on the scrutinee type: %d" % len(sites))
    per_fn = {}
    for fn, n, sc, heads, diverge in sites:
        i = per_fn.get(fn.qual, 0)
        per_fn[fn.qual] = i + 1
        looks_through = "absolute_ty()" in sc or "absolute_intern_ty(" in sc
        gives_up = "unreachable!" in diverge or "panic!" in diverge or "Ty::Unknown" in diverge
        what = "%s: `%s` destructured as %s, otherwise %s" % (fn.qual, sc, sorted(heads), ("panic" if "Ty::Unknown" not in diverge else "Unknown") if gives_up else "`%s`" % diverge[:40])
        if looks_through:
            run.ok(fn.site(n["ln"]), what + " (absolute type)")
        else:
            run.finding(fn.qual, "structural-match-on-non-absolute#%d" % i, fn.file, n["ln"],
                        what + ": the scrutinee was admitted by a predicate that looks through `distinct` (ExpectedTy::SumType/Enum, is_sum_ty use absolute_ty), "
                        "but this match sees the Distinct wrapper: switching over a `distinct` enum/optional/error union (or over a variant whose payload is one) reaches the "
                        "fall-through and is treated like something else")


def r11b(ctx, run):
    inf = ctx.syn.fn("GlobalInferenceCtx::infer_expr", G)
    arms = arm_node(inf, "Switch")
    if len(arms) != 1:
        raise LookupError("Expr::Switch arm in infer_expr")
    body, arm = arms[0]
    F = "GlobalInferenceCtx::infer_expr"
    c = canon(body)
    # admitted only for sum types
    first = next((s for s in body["s"] if s["k"] == "expr" and s["e"].get("k") == "if"), None)
    good = first is not None and canon(first["e"]["c"]) == "!self.expect_match(scrutinee_ty, ExpectedTy::SumType, *scrutinee)" and "Ty::Unknown" in canon(first["e"]["t"])
    run.check(good, inf.site(arm["ln"]), "scrutinee must be a sum type (ExpectedTy::SumType)", F, "switch-admit", inf.file, arm["ln"], "the switch scrutinee must be checked against ExpectedTy::SumType first")
    # diagnostics and their guards
    def diag(kind):
        return [x for x in walk(body) if x.get("k") == "struct" and x["p"].endswith("TyDiagnostic") and ("TyDiagnosticKind::" + kind) in canon(dict((y[0], y[1]) for y in x["f"])["kind"])]

    def guard_of(node):
        gs = [y for y in walk(body) if y.get("k") == "if" and any(z is node for z in walk(y["t"]))]
        return gs[-1] if gs else None
    d = diag("NotAVariantOfSumType")
    g = guard_of(d[0]) if d else None
    run.check(bool(d) and g is not None and canon(g["c"]) == "!scrutinee_ty.has_sum_variant(&ty)", inf.site(d[0]["ln"] if d else arm["ln"]), "fully-qualified arm type not a variant => NotAVariantOfSumType",
              F, "not-a-variant", inf.file, d[0]["ln"] if d else arm["ln"], "a fully-qualified arm whose type is not a variant of the scrutinee must be rejected")
    d = diag("NotAShorthandVariantOfSumType")
    g = guard_of(d[0]) if d else None
    run.check(bool(d) and g is not None and canon(g["c"]).startswith("!variants.iter().any(") and "(variant_name == name.name)" in canon(g["c"]), inf.site(d[0]["ln"] if d else arm["ln"]),
              "shorthand arm naming no variant => NotAShorthandVariantOfSumType", F, "not-a-shorthand", inf.file, d[0]["ln"] if d else arm["ln"],
              "a shorthand arm whose name is not a variant must be rejected")
    d = diag("SwitchAlreadyCoversVariant")
    g = guard_of(d[0]) if d else None
    good = bool(d) and g is not None and canon(g["c"]) == "arm_variant.included_in_switch" and g.get("e") is not None and "arm_variant.included_in_switch = true" in canon(g["e"])
    run.check(good, inf.site(d[0]["ln"] if d else arm["ln"]), "second arm for an included variant => SwitchAlreadyCoversVariant, else mark included", F, "duplicate", inf.file,
              d[0]["ln"] if d else arm["ln"], "a variant named twice must be reported, and a first mention must mark the variant as included")
    d = diag("SwitchDoesNotCoverVariant")
    good = False
    if d:
        loops = [y for y in walk(body) if y.get("k") == "for" and any(z is d[0] for z in walk(y["b"]))]
        if loops:
            lp = loops[-1]
            lc = canon(lp["b"])
            outer = [y for y in walk(body) if y.get("k") == "if" and canon(y["c"]).startswith("let Some(default) = default") and y.get("e") is not None and any(z is lp for z in walk(y["e"]))]
            good = canon(lp["e"]) == "variants" and "if included_in_switch {{ continue" in lc.replace("{ {", "{{").replace("  ", " ") or ("included_in_switch" in lc and "continue" in lc)
            good = good and bool(outer)
    run.check(good, inf.site(d[0]["ln"] if d else arm["ln"]), "no default: every variant not included => SwitchDoesNotCoverVariant", F, "exhaustive", inf.file, d[0]["ln"] if d else arm["ln"],
              "without a default arm each variant that no arm names must be reported (loop over all variants, skipping only the included ones, in the no-default branch)")
    # the variant list
    vl = [x for x in walk(body) if x.get("k") == "local" and canon(x["p"]).startswith("mut variants")]
    good = False
    if vl and vl[0]["init"].get("k") == "match":
        tbl = {synq.last_seg(h): canon(b) for h, p, g, b, a in synq.match_table(vl[0]["init"])}
        import re as _re
        def elems(txt):
            mm = _re.search(r"vec!\((.*)\)", txt)
            return [x.strip() for x in mm.group(1).split(",")] if mm else []
        opt, eu = elems(tbl.get("Optional", "")), elems(tbl.get("ErrorUnion", ""))
        good = (len(opt) == 2 and "sub_ty" in opt[0] and "Ty::Nil" in opt[1] and len(eu) == 2 and "error_ty" in eu[0] and "payload_ty" in eu[1]
                and "variants.iter().map(" in tbl.get("Enum", ""))
    run.check(good, inf.site(vl[0]["ln"] if vl else arm["ln"]), "variant list = {sub, nil} | {error, payload} | all enum variants", F, "variant-list", inf.file, vl[0]["ln"] if vl else arm["ln"],
              "the list of variants to cover must contain every variant of the optional / error union / enum")
    # matches_arm compares the right things
    ma = [f for f in ctx.syn.fns_in(G) if f.name == "matches_arm"]
    if ma:
        cc = canon(ma[0].body)
        run.check("(self.variant_ty == tys.meta_ty(ty)" in cc and "(variant_name == name.name)" in cc, ma[0].site(), "arm <-> variant matching: by type (qualified) or by name (shorthand)",
                  "VariantToCheck::matches_arm", "matches", ma[0].file, ma[0].ln, "matches_arm must compare the arm's resolved type / name with the variant's")
    else:
        run.finding(F, "matches-arm", inf.file, arm["ln"], "VariantToCheck::matches_arm not found")
    # lowering diagnostics
    ls = ctx.syn.fn("Ctx::lower_switch", "hir/src/body.rs")
    lc = canon(ls.body)
    i1 = [x for x in walk(ls.body) if x.get("k") == "if" and canon(x["c"]) == "default.is_some()"]
    kinds = [("MultipleDefaultArms" in canon(x["t"]), "RegularArmAfterDefault" in canon(x["t"])) for x in i1]
    run.check((True, False) in kinds and (False, True) in kinds, ls.site(), "lowering: second default => MultipleDefaultArms; arm after default => RegularArmAfterDefault", "Ctx::lower_switch",
              "default-arms", ls.file, ls.ln, "lower_switch must report a second default arm and regular arms after the default")


def r11c(ctx, run):
    F = ctx.facts
    fn = F.fn("codegen::compiler::functions::FunctionCompiler::compile_expr_with_args")
    sfn = ctx.syn.fn("FunctionCompiler::compile_expr_with_args", CG)
    arms = arm_node(sfn, "Switch")
    if len(arms) != 1:
        raise LookupError("Expr::Switch arm in compile_expr_with_args")
    lo, hi = arms[0][1]["ln"], arms[0][1]["end"]
    FC = "codegen::compiler::functions::FunctionCompiler::compile_expr_with_args"
    cs = [c for c in fn.calls() if lo <= c.ln <= hi and c.file == fn.file]
    # include closures of the arm (arm_blocks map closure)
    emits = [c for c in cs if short(c.callee) == "emit" and "Switch" in c.callee]
    if len(emits) != 1:
        run.finding(FC, "switch-emit", fn.file, lo, "expected exactly one Switch::emit in the Expr::Switch arm, found %d" % len(emits))
        return
    em = emits[0]
    disc = fn.chain_operand(em.args[2], depth=12)
    # the tag is an unsigned byte: load(I8) (Switch zero-extends its index) or the zero-extending uload8; looking
    # through an explicit uextend.  sload8/sextend sign-extend: tags >= 128 would miss every table entry.
    while disc.get("kind") == "call" and short(disc["callee"]) == "uextend" and len(disc["args"]) >= 3:
        disc = disc["args"][2]
    is_call = disc.get("kind") == "call" and len(disc.get("args", [])) >= 5
    load_ok = is_call and FA.chain_has_call(disc["args"][4], "discriminant_offset") and (
        (short(disc["callee"]) == "load" and disc["args"][1].get("kind") == "const" and disc["args"][1]["path"].endswith("types::I8"))
        or short(disc["callee"]) == "uload8")
    run.check(load_ok, em.site(), "dispatch value = load(I8, scrutinee, discriminant_offset)", FC, "tag-load", em.file, em.ln,
              "the value dispatched on must be the one-byte tag at discriminant_offset of the scrutinee; found %s" % show_chain(disc, 4)[:100])
    if load_ok:
        scr = disc["args"][3]
        run.check(FA.chain_has_call(scr, "compile_expr"), em.site(), "tag is read from the compiled scrutinee", FC, "tag-of-scrutinee", em.file, em.ln, "the tag must be read from the scrutinee value")
    # every use of a loaded tag, anywhere in the code generator: the tag is either handed to the jump table (Switch::emit) or compared for
    # (in)equality with a discriminant; branching on the raw tag byte ("zero / non-zero") is only right for nullable pointers, which have no tag
    n_uses = 0
    for f2 in F.fns:
        if f2.crate != "codegen":
            continue
        for c2 in f2.calls():
            nm = short(c2.callee)
            if nm in ("load", "uload8", "sload8"):
                continue
            for ai, a in enumerate(c2.args):
                ch = f2.chain_operand(a, depth=10)
                direct = ch.get("kind") == "call" and short(ch.get("callee", "")) in ("load", "uload8", "sload8") and len(ch.get("args", [])) >= 5 \
                    and FA.chain_has_call(ch["args"][4], "discriminant_offset")
                if not direct:
                    continue
                n_uses += 1
                owner = strip_generics(f2.parent or f2.path)
                if nm == "emit" and "Switch" in c2.callee:
                    run.ok(c2.site(), "%s: tag handed to the jump table" % short(owner))
                elif nm in ("icmp", "icmp_imm"):
                    cc = f2.chain_operand(c2.args[1], depth=6)
                    ccn = (cc.get("path") or cc.get("variant") or show_chain(cc, 2))
                    good = any(x in str(ccn) for x in ("Equal", "NotEqual")) and not any(x in str(ccn) for x in ("LessThan", "GreaterThan"))
                    run.check(good, c2.site(), "%s: tag compared for (in)equality (%s)" % (short(owner), str(ccn)[-20:]), owner, "tag-compare", c2.file, c2.ln,
                              "a tag is compared with %s: discriminants are identities, only == / != is meaningful" % ccn)
                else:
                    run.finding(owner, "raw-tag-use:%s" % nm, c2.file, c2.ln,
                                "the raw tag byte is passed to %s (argument %d) without being compared with a variant's discriminant: a branch or computation on "
                                "'zero / non-zero' dispatches custom discriminants (e.g. `A | 1, B | 2`) to the wrong arm" % (nm, ai))
    if n_uses < 4:
        raise LookupError("uses of loaded tags in the code generator: %d" % n_uses)
    sets = [c for c in cs if short(c.callee) == "set_entry" and "Switch" in c.callee]
    run.check(len(sets) == 1, em.site(), "one set_entry site inside the loop over arms", FC, "entries", em.file, em.ln, "expected one Switch::set_entry site (in the loop over arms), found %d" % len(sets))
    if len(sets) == 1:
        se = sets[0]
        key = fn.chain_operand(se.args[1], depth=12)
        blk = fn.chain_operand(se.args[2], depth=12)
        kcalls = [x for x in chain_calls(key) if short(x["callee"]) == "get_tagged_union_discrim"]
        run.check(bool(kcalls), se.site(), "entry key = get_tagged_union_discrim(arm variant)", FC, "entry-key", se.file, se.ln,
                  "a switch table key must be the scrutinee type's discriminant of the arm's variant; found %s" % show_chain(key, 4)[:100])
        # key variant and target block come from the same element of arm_blocks
        def tuple_field(ch):
            for n in walk_chain(ch):
                if n.get("kind") == "place" and any(p in (".0", ".1", ".2") for p in n["proj"]):
                    return [p for p in n["proj"] if p in (".0", ".1", ".2")][0]
            return None
        kf = tuple_field(kcalls[0]["args"][1]) if kcalls else None
        bf = tuple_field(blk)
        run.check(kf == ".0" and bf == ".1", se.site(), "key uses the arm's variant type (.0) and targets the arm's block (.1) of the same arm_blocks element", FC, "entry-pairing", se.file, se.ln,
                  "set_entry must pair an arm's variant with that arm's block (found fields %s / %s)" % (kf, bf))
        run.check(fn.dominates(se.bb, em.bb) or any(se.bb in body and fn.dominates(h, em.bb) for h, body in fn.loops()), em.site(), "all entries are registered before emit", FC, "entries-before-emit",
                  em.file, em.ln, "Switch::emit must come after the loop registering the entries")
    # fallback: default arm or fault
    dflt = fn.chain_operand(em.args[3], depth=6)
    run.check(dflt.get("var") == "default_block" or show_chain(dflt).startswith("create_block"), em.site(), "fallback target is the default block", FC, "fallback", em.file, em.ln, "Switch::emit's fallback must be the default block")
    faults = [c for c in cs if short(c.callee) == "compile_unreachable" and c.ln > em.ln]
    run.check(len(faults) >= 1, em.site(), "no default arm => `every branch of switch was missed` fault in the default block", FC, "no-default-fault", em.file, em.ln,
              "without a default arm the default block must abort (compile_unreachable)")
    # nullable pointer form
    brifs = [c for c in cs if short(c.callee) == "brif" and "cranelift" in c.callee]
    okb = False
    for b in brifs:
        cond = fn.chain_operand(b.args[1], depth=10)
        if cond.get("kind") == "call" and short(cond["callee"]) == "icmp_imm":
            cc = cond["args"][1]["path"].split("::")[-1] if cond["args"][1].get("kind") in ("agg", "enum") else None
            zero = cond["args"][3].get("kind") == "scalar" and cond["args"][3]["value"] == "0"
            # which block each side goes to is decided by R11.g (the branch is evaluated for every arm shape); here: the value compared is the scrutinee's
            val = cond["args"][2]
            okb = cc in ("NotEqual", "Equal") and zero and (FA.chain_has_call(val, "compile_expr") or FA.chain_has_call(val, "expect"))
            run.check(okb, b.site(), "nullable pointer: brif(icmp_imm(%s, scrutinee, 0), ..)" % cc, FC, "nullable-dispatch", b.file, b.ln,
                      "nullable-pointer switch must branch on the scrutinee pointer compared with 0 (cc=%s value=%s)" % (cc, show_chain(val, 4)[:60]))
    if not brifs:
        run.finding(FC, "nullable-dispatch", fn.file, lo, "no brif for the nullable-pointer form of switch")
    # arm argument binding
    ins = [c for c in cs if short(c.callee) == "insert" and c.args and any(n.get("kind") == "place" and ".switch_locals" in n["proj"] for n in walk_chain(fn.chain_operand(c.args[0], depth=5)))]
    kinds = set()
    for c in ins:
        val = fn.chain_operand(c.args[2], depth=12)
        if FA.chain_has_call(val, "unwrap_sum_ty"):
            kinds.add("arm=unwrap_sum_ty")
        elif FA.chain_has_call(val, "compile_expr") or FA.chain_has_call(val, "expect"):
            kinds.add("default=scrutinee")
        else:
            kinds.add("other:" + show_chain(val, 3)[:40])
    run.check(kinds == {"arm=unwrap_sum_ty", "default=scrutinee"}, "%s:%d" % (fn.file, lo), "switch argument: arm -> unwrap_sum_ty(scrutinee, variant); default -> scrutinee", FC, "argument", fn.file, lo,
              "the switch argument must be the variant's payload in a regular arm and the whole value in the default arm; found %s" % sorted(kinds))


def r11d(ctx, run):
    """variants of one enum carry pairwise distinct discriminants (the tag every switch, #is_variant, #unwrap and == dispatches on), and the
    hand-written ones are kept: the automatic numbering loop of const_ty's EnumDecl arm is evaluated abstractly for every small enum shape"""
    import itertools
    from symint import SymInterp, Env
    from absint import Obj, Term, Variant, Panic, CannotEstablish
    G = "hir_ty/src/globals.rs"
    ct = ctx.syn.fn("GlobalInferenceCtx::const_ty", G)
    # the block that numbers the variants: `let mut latest = 0; for (idx, variant) in variants.iter().enumerate() { .. manual.get(&idx) .. }`
    target = None
    for b in walk(ct.body):
        if b.get("k") != "block":
            continue
        for i, st in enumerate(b["s"]):
            if st["k"] == "expr" and st["e"].get("k") == "for" and ".get(&idx)" in canon(st["e"]) and "discriminant" in canon(st["e"]):
                j = i
                while j > 0 and b["s"][j - 1]["k"] == "local" and synq.int_value(b["s"][j - 1].get("init")) is not None:
                    j -= 1
                target = (b, j, i)
    if target is None:
        raise LookupError("the discriminant numbering loop of const_ty")
    b, j, i = target
    loop = b["s"][i]["e"]
    mapname = re.search(r"(\w+)\.get\(&idx\)", canon(loop)).group(1)
    usedname = re.search(r"(\w+)\.contains\(", canon(loop))
    usedname = usedname.group(1) if usedname else None
    pushes = [x for x in walk(loop) if x.get("k") == "mcall" and x["m"] == "push" and x["r"].get("k") == "path" and "EnumVariant" in canon(x)]
    listname = canon(pushes[0]["r"]) if pushes else "variant_tys"
    n_ok, bad = 0, None
    for n in (1, 2, 3, 4, 5):
        for k in range(0, n + 1):
            for idxs in itertools.combinations(range(n), k):
                for vals in itertools.permutations((0, 1, 2, 3, 7), k):
                    manual = dict(zip(idxs, vals))
                    variants = [Obj("Variant", name=Obj("NameWithRange", name=Term("v%d" % q)), ty=None, uid=q, discriminant=None) for q in range(n)]
                    env = Env(None, {"variants": variants, mapname: dict(manual), listname: [], "enum_uid": 9, "self": Obj("self")})
                    if usedname:
                        env[usedname] = set(manual.values())
                    it = SymInterp()
                    try:
                        for st in b["s"][j:i + 1]:
                            it.stmt(st, env)
                    except (Panic, CannotEstablish) as c:
                        bad = ("cannot establish the numbering of %d variants with hand-written discriminants %s: %s" % (n, manual, getattr(c, "what", c)))
                        break
                    out = env[listname]
                    ds = [v.fields.get("discriminant") if isinstance(v, Obj) else (v.payload.get("discriminant") if isinstance(v, Variant) else None) for v in out]
                    if len(ds) != n or len(set(ds)) != n:
                        bad = "an enum of %d variants with hand-written discriminants %s (index -> value) is numbered %s: two variants share a tag, so #is_variant / #unwrap / switch / == " \
                              "cannot tell them apart" % (n, manual, ds)
                        break
                    if any(ds[q] != val for q, val in manual.items()):
                        bad = "an enum with hand-written discriminants %s is numbered %s: a hand-written discriminant is not kept" % (manual, ds)
                        break
                    n_ok += 1
                if bad:
                    break
            if bad:
                break
        if bad:
            break
    run.check(bad is None, ct.site(loop["ln"]), "automatic discriminants avoid the hand-written ones and each other (%d enum shapes up to 5 variants)" % n_ok, "GlobalInferenceCtx::const_ty",
              "distinct-discriminants", ct.file, loop["ln"], bad or "")
    # the tag is ONE byte (R02.a: every tag store / load moves I8; hand-written discriminants are checked against u8): an automatic discriminant past 255
    # must be reported, it cannot be stored
    class SI(SymInterp):
        def default_method(self, recv, m_, args, e):
            if isinstance(recv, Term):
                return Term(m_)
            return super().default_method(recv, m_, args, e)

        def eval(self, e, env):
            # what a diagnostic is built from (the expression, its range) is opaque here
            if e.get("k") == "path" and "::" not in e["p"] and e["p"] not in env and e["p"][:1].islower():
                return Term(e["p"])
            return super().eval(e, env)
    n_fit, bad = 0, None
    for n, manual in ((2, {0: 255}), (3, {0: 254}), (3, {1: 255}), (3, {0: 255, 1: 0}), (4, {1: 253})):
        variants = [Obj("Variant", name=Obj("NameWithRange", name=Term("v%d" % q), range=Term("range%d" % q)), ty=None, uid=q, discriminant=None) for q in range(n)]
        diags = []
        env = Env(None, {"variants": variants, mapname: dict(manual), listname: [], "enum_uid": 9,
                         "self": Obj("self", diagnostics=diags, loc=Term("loc"), bodies=Term("bodies"), tys=Term("tys"))})
        if usedname:
            env[usedname] = set(manual.values())
        it = SI()
        try:
            for st in b["s"][j:i + 1]:
                it.stmt(st, env)
        except (Panic, CannotEstablish) as c:
            bad = "cannot establish the numbering of %d variants with hand-written discriminants %s: %s" % (n, manual, getattr(c, "what", c))
            break
        out = env[listname]
        ds = [v.fields.get("discriminant") if isinstance(v, Obj) else (v.payload.get("discriminant") if isinstance(v, Variant) else None) for v in out]
        big = [d for d in ds if not isinstance(d, int) or d > 255]
        if big and not diags:
            bad = "an enum of %d variants with hand-written discriminants %s (index -> value) is numbered %s without a diagnostic: %s does not fit the one-byte tag; the code generator's " \
                  "Switch rejects it (compiler crash) and a byte compare against it never matches" % (n, manual, ds, big)
            break
        n_fit += 1
    run.check(bad is None, ct.site(loop["ln"]), "automatic discriminants past 255 are reported (%d shapes)" % n_fit, "GlobalInferenceCtx::const_ty", "discriminant-fits-tag", ct.file, loop["ln"], bad or "")


def r11e(ctx, run):
    """an arm's type is mapped to the tag that the value's producer wrote: get_tagged_union_discrim evaluated from source.  For an error union the
    error side is 0 and the payload side is 1, told apart by the types THEMSELVES (two nominal types of the same shape are different sides); for an
    optional nil is 0 and the payload 1; for an enum the variant's own discriminant."""
    import c07
    from absint import Obj, Term, Variant, Panic, CannotEstablish, _Return
    V = Variant
    fn = ctx.syn.fn("Ty::get_tagged_union_discrim", "hir/src/common/ty.rs")
    QI = c07.make_ty_interp(ctx)
    i32, st, u64 = V("Ty::IInt", {"0": 32}), V("Ty::String"), V("Ty::UInt", {"0": 64})
    d1, d2 = V("Ty::Distinct", {"uid": 1, "sub_ty": i32}), V("Ty::Distinct", {"uid": 2, "sub_ty": i32})
    s1 = V("Ty::ConcreteStruct", {"uid": 11, "members": [Obj("MemberTy", name=Term("a"), ty=i32)]})
    s2 = V("Ty::ConcreteStruct", {"uid": 12, "members": [Obj("MemberTy", name=Term("a"), ty=i32)]})
    va = V("Ty::EnumVariant", {"enum_uid": 7, "variant_name": Term("A"), "uid": 21, "sub_ty": i32, "discriminant": 5})
    vb = V("Ty::EnumVariant", {"enum_uid": 7, "variant_name": Term("B"), "uid": 22, "sub_ty": i32, "discriminant": 9})
    en = V("Ty::Enum", {"uid": 7, "variants": [va, vb]})
    cases = [
        ("str!u64, arm str", V("Ty::ErrorUnion", {"error_ty": st, "payload_ty": u64}), st, 0), ("str!u64, arm u64", V("Ty::ErrorUnion", {"error_ty": st, "payload_ty": u64}), u64, 1),
        ("D1!D2 (two distincts of i32), arm D1", V("Ty::ErrorUnion", {"error_ty": d1, "payload_ty": d2}), d1, 0),
        ("D1!D2 (two distincts of i32), arm D2", V("Ty::ErrorUnion", {"error_ty": d1, "payload_ty": d2}), d2, 1),
        ("S1!S2 (two named structs of one shape), arm S2", V("Ty::ErrorUnion", {"error_ty": s1, "payload_ty": s2}), s2, 1),
        ("[]D1![]D2, arm []D2", V("Ty::ErrorUnion", {"error_ty": V("Ty::Slice", {"sub_ty": d1}), "payload_ty": V("Ty::Slice", {"sub_ty": d2})}), V("Ty::Slice", {"sub_ty": d2}), 1),
        ("?i32, arm nil", V("Ty::Optional", {"sub_ty": i32}), V("Ty::Nil"), 0), ("?i32, arm i32", V("Ty::Optional", {"sub_ty": i32}), i32, 1),
        ("enum {A | 5, B | 9}, arm A", en, va, 5), ("enum {A | 5, B | 9}, arm B", en, vb, 9),
        ("distinct (str!u64), arm u64", V("Ty::Distinct", {"uid": 30, "sub_ty": V("Ty::ErrorUnion", {"error_ty": st, "payload_ty": u64})}), u64, 1),
    ]
    for desc, ty, arm, want in cases:
        it = QI(macros={"assert": lambda i, e, env: None, "assert_eq": lambda i, e, env: None})
        try:
            try:
                got = it.inline(fn, [arm], recv=ty)
            except _Return as r:
                got = r.v
        except (Panic, CannotEstablish) as c:
            got = "cannot establish: %s" % getattr(c, "what", c)
        run.check(got == want, fn.site(), "%s -> tag %s" % (desc, got), "Ty::get_tagged_union_discrim", "tag:" + desc, fn.file, fn.ln,
                  "for %s the tag looked for is %s; the producer of such a value writes %d: the switch (and #is_variant / #unwrap) take the arm for the other side" % (desc, got, want))


def r11f(ctx, run):
    """the side of an error union a value is STORED on is the side its own (declared) type names: cast_into_memory evaluated from source (the evaluator
    of R07.h) for values converted into error unions whose two sides differ only nominally - `Errno!Fd`, two distincts of i32 - and for the explicit
    cast of a distinct value, where only the type underneath can decide.  The tag handed to cast_payload_into_tagged_union must be 0 for the error
    side and 1 for the payload side (the switch maps arms to tags by the exact types, R11.e)."""
    import c07
    from absint import Variant, Term, Obj, Panic, CannotEstablish
    V = Variant
    cm, accepts, build = c07.cast_evaluator(ctx)
    i32, st = V("Ty::IInt", {"0": 32}), V("Ty::String")
    d1, d2, d3 = V("Ty::Distinct", {"uid": 1, "sub_ty": i32}), V("Ty::Distinct", {"uid": 2, "sub_ty": i32}), V("Ty::Distinct", {"uid": 3, "sub_ty": i32})
    u12 = V("Ty::ErrorUnion", {"error_ty": d1, "payload_ty": d2})
    usi = V("Ty::ErrorUnion", {"error_ty": st, "payload_ty": i32})
    cases = [
        ("an Errno into Errno!Fd (two distincts of i32)", d1, u12, 0), ("an Fd into Errno!Fd", d2, u12, 1),
        ("a str into str!i32", st, usi, 0), ("an i32 into str!i32", i32, usi, 1),
        ("a distinct i32 cast to str!i32 (explicit cast: the type underneath decides)", d3, usi, 1),
    ]
    for desc, A, B, want in cases:
        try:
            log = build(A, B)
            tags = [a[9] for h, a in log if h == "cast_payload_into_tagged_union" and len(a) > 9]
            got = tags[0] if len(tags) == 1 else "no single cast_payload_into_tagged_union (%s)" % [h for h, _ in log]
        except (Panic, CannotEstablish) as c:
            got = "%s" % getattr(c, "what", c)
        run.check(got == want, cm.site(), "%s: tag %s" % (desc, got), "cast_into_memory", "side:" + desc.split(" (")[0], cm.file, cm.ln,
                  "%s is stored with %s; it belongs on the %s side (tag %d): the switch over such a value runs the arm of the other side" % (
                      desc, ("tag %s" % got) if isinstance(got, int) else got, "error" if want == 0 else "payload", want))


def r11g(ctx, run):
    """the nullable-pointer form of switch (an optional of a pointer has no tag: nil is the null pointer) handles every arm shape the checker accepts:
    both arms, one arm plus a default arm, only a default arm, both arms plus a default arm.  The branch is evaluated from source for each shape; it
    must not end in a failed assertion."""
    from symint import SymInterp
    from absint import Obj, Term, Variant, Panic, CannotEstablish, _Return
    V = Variant
    sfn = ctx.syn.fn("FunctionCompiler::compile_expr_with_args", "codegen/src/compiler/functions.rs")
    arm = None
    for m in synq.matches_on(sfn.body):
        for h, p_, g, b, a in synq.match_table(m):
            if h and h.endswith("Expr::Switch"):
                arm = (p_, b, a)
    if arm is None:
        raise LookupError("Expr::Switch arm of compile_expr_with_args")
    branch = [x for x in walk(arm[1]) if x.get("k") == "if" and "enum_layout()" in canon(x["c"]) and x.get("e") is not None]
    if len(branch) != 1:
        raise LookupError("the `if let Some(enum_layout) = sum_ty.enum_layout()` of the Switch arm: %d" % len(branch))
    nullable = branch[0]["e"]
    nil_t, ptr_t = V("Ty::Nil"), V("Ty::Pointer", {"mutable": False, "sub_ty": V("Ty::IInt", {"0": 32})})
    shapes = [("nil and payload arms", [nil_t, ptr_t], False), ("payload and nil arms", [ptr_t, nil_t], False), ("nil arm and a default arm", [nil_t], True),
              ("payload arm and a default arm", [ptr_t], True), ("only a default arm", [], True), ("both arms and a default arm", [nil_t, ptr_t], True)]

    class SI(SymInterp):
        def eval(self, e, env):
            if e.get("k") == "assign" and e["l"].get("k") == "index":
                return None
            if e.get("k") == "index":
                b = self.eval(e["e"], env)
                if isinstance(b, (Term, Obj)):
                    return Term("idx")
            if e.get("k") in ("ref",) or (e.get("k") == "un" and e.get("op") in ("*", "&")):
                return self.eval(e["e"], env)
            if e.get("k") == "cast":
                return self.eval(e["e"], env)
            if e.get("k") == "path" and "::" in e["p"] and e["p"] not in env and not e["p"].startswith("Ty::"):
                return Term(e["p"])
            return super().eval(e, env)

        def default_method(self, recv, m_, args, e):
            if isinstance(recv, Obj) and recv.name == "sum_ty":
                return {"is_optional": True, "is_tagged_union": False}.get(m_, Term(m_))
            if isinstance(recv, (Term, Obj)) or recv is None:
                if m_ == "is_none":
                    return recv is None
                if m_ == "is_some":
                    return recv is not None
                if m_ == "icmp_imm":
                    return Term("icmp_imm", *args)
                if m_ == "brif":
                    self.brifs.append(args)
                return Term(m_)
            return super().default_method(recv, m_, args, e)

    def mk_assert(kind):
        def f(i, e, env):
            a = e.get("a", [])
            try:
                if kind == "assert" and a and i.eval(a[0], env) is False:
                    raise Panic("assert!(%s) fails" % canon(a[0])[:50])
                if kind in ("assert_eq", "assert_ne") and len(a) >= 2:
                    x, y = i.eval(a[0], env), i.eval(a[1], env)
                    if isinstance(x, (int, bool)) and isinstance(y, (int, bool)) and ((x != y) if kind == "assert_eq" else (x == y)):
                        raise Panic("%s!(%s, %s) fails" % (kind, canon(a[0])[:30], canon(a[1])[:30]))
            except CannotEstablish:
                pass
            return None
        return f
    for desc, tys_, has_default in shapes:
        arm_blocks = [(t, Term("block%d" % i_), Obj("arm", switch_arg=None, body=Term("body%d" % i_))) for i_, t in enumerate(tys_)]
        env = {"self": Obj("self", builder=Term("builder"), func_writer=Term("fw"), ptr_ty=Term("ptr_ty"), switch_locals=Term("sl")), "sum_ty": Obj("sum_ty"), "scrutinee_val": Term("scrutinee"),
               "arm_blocks": arm_blocks, "default": Obj("default", switch_arg=None, body=Term("default_body")) if has_default else None, "exit_block": Term("exit"),
               "return_ty": Term("return_ty"), "no_load": False, "default_block": Term("default_block")}
        it = SI(macros={"assert": mk_assert("assert"), "assert_eq": mk_assert("assert_eq"), "assert_ne": mk_assert("assert_ne"), "format": lambda i, e, env: "fmt"},
                funcs={"Some": lambda i, a: a[0], "BlockArg::Value": lambda i, a: Term("arg")})
        it.brifs = []
        try:
            try:
                it.eval(nullable, env)
                got = None
            except _Return:
                got = None
        except Panic as p_:
            got = p_.what
        except CannotEstablish as c:
            got = "cannot establish: %s" % getattr(c, "what", c)
        run.check(got is None, sfn.site(nullable["ln"]), "switch over ?^T with %s" % desc, sfn.qual, "nullable-switch:" + desc, sfn.file, nullable["ln"],
                  "a switch over an optional of a pointer with %s is accepted by the checker, but the code generator's nullable-pointer form ends in %s: no diagnostic, no executable"
                  % (desc, got))
        if got is not None:
            continue
        # the dispatch: exactly one two-way branch on `scrutinee != 0`; non-null goes to the payload arm, null to the nil arm, a side without an arm of its own to the default block
        want_some = next((b for t, b, _ in arm_blocks if t is not nil_t), Term("default_block"))
        want_nil = next((b for t, b, _ in arm_blocks if t is nil_t), Term("default_block"))
        good, why = False, "%d two-way branches" % len(it.brifs)
        if len(it.brifs) == 1 and len(it.brifs[0]) == 5:
            c, th, _, el, _ = it.brifs[0]
            if isinstance(c, Term) and c.op == "icmp_imm" and len(c.args) == 3 and c.args[1] == Term("scrutinee") and c.args[2] == 0:
                cc = str(c.args[0][0]) if isinstance(c.args[0], Term) else str(c.args[0])
                if cc.endswith("NotEqual"):
                    good = (th, el) == (want_some, want_nil)
                elif cc.endswith("Equal"):
                    good = (th, el) == (want_nil, want_some)
                why = "brif(%s(scrutinee, 0), %r, %r)" % (cc.rsplit("::", 1)[-1], th, el)
            else:
                why = "condition %r" % (c,)
        run.check(good, sfn.site(nullable["ln"]), "dispatch of ?^T with %s: non-null -> %r, null -> %r" % (desc, want_some, want_nil), sfn.qual, "nullable-dispatch:" + desc, sfn.file, nullable["ln"],
                  "a switch over an optional of a pointer with %s must branch on the pointer being non-null to %r and otherwise to %r; found %s" % (desc, want_some, want_nil, why))


def r11h(ctx, run):
    """the arms of a switch that yields a value: every jump an arm (or the default arm) makes to the switch's exit block carries exactly the exit block's
    one parameter, and an arm whose body always jumps (`Variant => { return 10; }`, type noeval - the checker keeps such an arm out of the common type,
    R07.f) makes no jump to the exit at all: it has no value to carry, and Cranelift rejects a jump whose arguments do not match the block's parameters.
    The arm loop and the default-arm statement of the Switch arm are evaluated from source for arm shapes value/jumping."""
    from symint import SymInterp
    from absint import Obj, Term, Variant, Panic, CannotEstablish, _Return
    V = Variant
    sfn = ctx.syn.fn("FunctionCompiler::compile_expr_with_args", "codegen/src/compiler/functions.rs")
    arm = None
    for m in synq.matches_on(sfn.body):
        for h, p_, g, b, a in synq.match_table(m):
            if h and h.endswith("Expr::Switch"):
                arm = (p_, b, a)
    if arm is None:
        raise LookupError("Expr::Switch arm of compile_expr_with_args")
    loops = [x for x in walk(arm[1]) if x.get("k") == "for" and canon(x["e"]) == "arm_blocks"]
    defaults = [x for x in walk(arm[1]) if x.get("k") == "if" and x["c"].get("k") == "let" and canon(x["c"]["e"]) == "default" and "compile_and_cast_with_args" in canon(x["t"])]
    if len(loops) != 1 or len(defaults) != 1:
        raise LookupError("arm loop / default statement of the Switch arm: %d / %d" % (len(loops), len(defaults)))
    i32 = V("Ty::IInt", {"0": 32})
    noeval = V("Ty::AlwaysJumps")

    class SI(SymInterp):
        def eval(self, e, env):
            if e.get("k") == "index" and canon(e["e"]) == "self.tys[self.loc]":
                return self.tys.get(self.eval(e["i"], env), i32)
            if e.get("k") == "assign" and e["l"].get("k") == "index":
                return None
            if e.get("k") in ("ref",) or (e.get("k") == "un" and e.get("op") in ("*", "&")):
                return self.eval(e["e"], env)
            if e.get("k") == "path" and "::" in e["p"] and e["p"] not in env and not e["p"].startswith("Ty::"):
                return Term(e["p"])
            return super().eval(e, env)

        def binop(self, op, l, r, e):
            if op in ("==", "!=") and isinstance(l, Variant) and isinstance(r, Variant):
                return (l == r) == (op == "==")
            return super().binop(op, l, r, e)

        def default_method(self, recv, m_, args, e):
            if isinstance(recv, Obj) and recv.name == "self":
                if m_ in ("compile_and_cast_with_args", "compile_and_cast", "compile_expr", "compile_expr_with_args"):
                    return self.vals.get(args[0])
                if m_ == "compile_unreachable":
                    self.events.append(("unreachable",))
                    return None
            if isinstance(recv, (Term, Obj)) or recv is None:
                if m_ == "jump":
                    self.events.append(("jump", args[0], len(args[1]) if isinstance(args[1], (list, tuple)) else None))
                if m_ in ("is_none", "is_some"):
                    return (recv is None) == (m_ == "is_none")
                return Term(m_)
            return super().default_method(recv, m_, args, e)
    n = 0
    for where, stmt in (("a regular arm", loops[0]), ("the default arm", defaults[0])):
        for shape, jumping in (("yields a value", False), ("always jumps", True)):
            body = Term("body")
            it = SI(funcs={"Some": lambda i, a: a[0], "BlockArg::Value": lambda i, a: Term("arg"), "super::unwrap_sum_ty": lambda i, a: None, "unwrap_sum_ty": lambda i, a: None},
                    macros={"format": lambda i, e, env: "fmt"})
            it.tys = {body: noeval if jumping else i32}
            it.vals = {body: None if jumping else Term("value")}
            it.events = []
            armo = Obj("arm", switch_arg=None, body=body)
            from symint import Env
            env = Env(None, {"self": Obj("self", builder=Term("builder"), func_writer=Term("fw"), switch_locals=Term("sl"), tys=Term("tys"), loc=Term("loc")), "sum_ty": Term("sum_ty"),
                             "scrutinee_val": Term("scrutinee"), "arm_blocks": [(i32, Term("arm_block"), armo)], "default": armo, "exit_block": Term("exit"), "return_ty": i32,
                             "return_ty_real": Term("I32"), "no_load": False})
            key = "arm-exit:%s:%s" % (where, shape)
            try:
                try:
                    it.eval(stmt, env)
                except _Return:
                    pass
            except (Panic, CannotEstablish) as c:
                run.finding(sfn.qual, key, sfn.file, stmt["ln"], "cannot establish what %s of a value-yielding switch that %s compiles to: %s" % (where, shape, getattr(c, "what", c)))
                continue
            n += 1
            jumps = [ev for ev in it.events if ev[0] == "jump" and ev[1] == Term("exit")]
            if jumping:
                good = not jumps
                why = "it jumps to the exit block with %s argument(s)" % ", ".join(str(j[2]) for j in jumps) if jumps else ""
            else:
                good = len(jumps) == 1 and jumps[0][2] == 1
                why = "its jumps to the exit block: %s" % [j[2] for j in jumps]
            run.check(good, sfn.site(stmt["ln"]), "%s that %s: %s" % (where, shape, "no jump to the exit" if jumping else "one jump to the exit carrying its value"), sfn.qual, key, sfn.file,
                      stmt["ln"], "%s of a switch that yields a value, whose body %s: %s; the exit block has exactly one parameter, so Cranelift's verifier rejects the function - a "
                      "well-typed program (`x := switch v in e { A => { return 1; }, B => 2 };`) does not compile" % (where, shape, why))
    if n < 4:
        raise LookupError("switch arm shapes evaluated: %d" % n)


def rules(ctx):
    return [
        Rule("R11.a", "structural matches on the scrutinee type agree with the distinct-transparent predicate that admitted it", 4, r11a),
        Rule("R11.b", "coverage logic: not-a-variant, duplicates, missing variants, complete variant list, default-arm rules", 8, r11b),
        Rule("R11.d", "variants of one enum get pairwise distinct discriminants; hand-written ones are kept (numbering loop evaluated on every small enum shape); an automatic discriminant past the one-byte tag is reported", 2, r11d),
        Rule("R11.e", "the tag an arm's type is mapped to is the tag its producer wrote: get_tagged_union_discrim evaluated (nominally different same-shape sides included)", 11, r11e),
        Rule("R11.f", "the side of an error union a value is stored on is the side its declared type names (cast_into_memory evaluated; explicit casts of distincts fall back to the type underneath)", 5, r11f),
        Rule("R11.g", "the nullable-pointer form of switch handles every arm shape the checker accepts (both arms, one arm + default, default only) and sends non-null to the payload arm, null to the nil arm, a missing side to the default block", 12, r11g),
        Rule("R11.h", "arms of a value-yielding switch: a jump to the exit carries the exit's one parameter, an arm that always jumps makes none (arm loop and default statement evaluated)", 4, r11h),
        Rule("R11.c", "dispatch wiring: I8 tag at discriminant_offset, entry per arm keyed by its variant, fallback/fault, nullable form, argument binding", 9, r11c),
    ]

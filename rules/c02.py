"""C02 — writing one value never changes another: store-extent discipline (DESIGN §3 C02)."""
import re
from core import Rule
import facts as FA
from facts import short, strip_generics, show_chain, walk_chain, chain_calls

PROPERTY = "C02"
TITLE = "Writing one value never changes any other value"
NEEDS = ("facts", "syn")
TECHNIQUE = ("static analysis: def-use dataflow on type-checked MIR (store width vs object width, copy length provenance), raw-store inventory (who-may-call), "
             "lexically resolved provenance of destination memory in the cast family (a conversion never writes into its source)")
EXPLANATION = (
    "Engine A (MIR def-use chains, resolved callees): (a) every store/load whose offset is data-dependent on "
    "EnumLayout::discriminant_offset moves exactly one byte (value built by iconst(types::I8) / loaded as types::I8), because "
    "the tag is one byte after the payload; (b) every copy/set loop stores a value exactly as wide as the amount its running "
    "offset advances; (c) the length of every aggregate copy (emit_small_memory_copy, emit_small_memset, stack copy loops) is "
    "derived from the destination type's size(), not its stride() (stride >= size; the excess lands on the neighbour); (d) raw "
    "Cranelift stores occur only inside MemoryLoc, the ABI module and an enumerated table of scalar-slot sites. These are "
    "necessary conditions: a wider store than the object overwrites the bytes of the next live value.")
NOT_DECIDED = [
    "absence of aliasing between distinct stack slots (Cranelift's job)",
    "the ABI PassMode::Cast word stores, whose extent depends on next_power_of_two(size) arithmetic (value-level)",
    "that aggregates are copied (not aliased) on assignment and argument passing for every expression form",
]
ASSUMPTIONS = [
    "EnumLayout.size = payload size + 1 tag byte (layout.rs; C17 is not claimed)",
    "cranelift store/stack_store write exactly the bytes of the stored value's type",
]


def tag_sites(F):
    """(fn, call, kind) for every load/store whose offset depends on discriminant_offset"""
    out = []
    for fn in F.fns:
        if fn.crate != "codegen":
            continue
        for c in fn.calls():
            nm = short(c.callee)
            if nm not in ("write_val", "store", "stack_store", "load", "stack_load", "uload8", "sload8", "istore8"):
                continue
            if nm != "write_val" and "cranelift" not in c.callee:
                continue
            chains = [fn.chain_operand(a, depth=12) for a in c.args]
            off_idx = {"write_val": 3, "store": 4, "stack_store": 3, "load": 4, "stack_load": 3, "uload8": 4, "sload8": 4, "istore8": 4}[nm]
            if off_idx < len(chains) and FA.chain_has_call(chains[off_idx], "discriminant_offset"):
                out.append((fn, c, nm, chains))
    return out


def is_i8_const(ch):
    return ch.get("kind") == "const" and ch["path"].endswith("types::I8")


def r02a(ctx, run):
    F = ctx.facts
    sites = tag_sites(F)
    counts = {}
    for fn, c, nm, chains in sites:
        owner = strip_generics(fn.parent or fn.path)
        idx = counts.get((owner, nm), 0)
        counts[(owner, nm)] = idx + 1
        if nm in ("uload8", "sload8", "istore8"):
            # Cranelift's explicit one-byte memory operations move exactly one byte whatever the register type
            run.ok(c.site(), "%s: %s at discriminant_offset moves one byte" % (short(owner), nm))
        elif nm in ("load", "stack_load"):
            ty = chains[1]
            good = is_i8_const(ty)
            run.check(good, c.site(), "%s: tag load of type %s at discriminant_offset" % (short(owner), show_chain(ty)), owner, "tag-load#%d" % idx, c.file, c.ln,
                      "tag is loaded with type %s; the tag is one byte (types::I8): wider loads read the neighbour's bytes into the discriminant" % show_chain(ty))
        else:
            val = chains[2] if nm == "write_val" else chains[1]
            good = val.get("kind") == "call" and short(val["callee"]) == "iconst" and len(val["args"]) >= 2 and is_i8_const(val["args"][1])
            tyshown = show_chain(val["args"][1]) if val.get("kind") == "call" and len(val.get("args", [])) >= 2 else show_chain(val, 3)
            run.check(good, c.site(), "%s: tag store of an %s value at discriminant_offset" % (short(owner), tyshown), owner, "tag-store#%d" % idx, c.file, c.ln,
                      "tag store writes a value built as %s (type %s) at the tag offset; the tag is ONE byte at the end of the sum type, so every "
                      "byte beyond it belongs to the next live value (sibling sites store iconst(types::I8, _))" % (show_chain(val, 3)[:80], tyshown))


CL_BYTES = {"I8": 1, "I16": 2, "I32": 4, "I64": 8, "I128": 16, "F32": 4, "F64": 8}


def guard_keeps_extent(fn, h, body, W):
    """the loop guard must imply  off + W <= bound  (bound <= the object's extent): accepted forms, for a running offset `off`
    advanced by W:  off + c <= B with c >= W;  off + c < B with c >= W - 1;  off < B / off <= B - W where B is a multiple of W
    written as (x / W) * W.  Returns (ok, description)."""
    descs = []
    for u, v in fn.loop_exit_edges(h, body):
        t = fn.blocks[u]["t"]
        if t["k"] != "switch":
            continue
        ch = fn.switch_operand(u, depth=10)
        if not isinstance(ch, dict) or ch.get("kind") != "bin" or ch["op"] not in ("Le", "Lt", "Ge", "Gt"):
            descs.append("guard is not a comparison: %s" % show_chain(ch, 4)[:80])
            continue

        def has_off(c):
            return any(n.get("kind") in ("phi", "cut") and n.get("name") in ("off", "offset", "i") for n in walk_chain(c))
        l, r, op = ch["l"], ch["r"], ch["op"]
        if has_off(r) and not has_off(l):
            l, r = r, l
            op = {"Le": "Ge", "Lt": "Gt", "Ge": "Le", "Gt": "Lt"}[op]
        if not has_off(l) or op not in ("Le", "Lt"):
            descs.append("guard does not bound the running offset from above: %s" % show_chain(ch, 4)[:80])
            continue
        # addend on the offset side: only at the top of the expression (the loop-carried `off += W` inside the phi of `off` is not it)
        def top(n):
            while isinstance(n, dict) and n.get("kind") in ("place", "cast") and not (n.get("kind") == "place" and n.get("base", {}).get("kind") in (None,)):
                nxt = n.get("base") if n.get("kind") == "place" else n.get("of")
                if not isinstance(nxt, dict):
                    break
                n = nxt
            return n
        c = 0
        t0 = top(l)
        if t0.get("kind") == "bin" and t0["op"].startswith("Add"):
            a, b = t0["l"], t0["r"]
            if b.get("kind") != "scalar" and a.get("kind") == "scalar":
                a, b = b, a
            if b.get("kind") == "scalar" and top(a).get("kind") in ("phi", "cut", "param", "undef"):
                try:
                    c = int(b["value"])
                except ValueError:
                    c = 0
            else:
                descs.append("offset side of the guard is not `off + constant`: %s" % show_chain(l, 4)[:60])
                return False, "; ".join(descs)
        elif t0.get("kind") not in ("phi", "cut"):
            descs.append("offset side of the guard is not the running offset: %s" % show_chain(l, 4)[:60])
            return False, "; ".join(descs)
        # bound is a multiple of W: (x Div W) Mul W
        mult = any(n.get("kind") == "bin" and n["op"].startswith("Mul") and n["r"].get("kind") == "scalar" and n["r"]["value"] == str(W) and
                   any(m.get("kind") == "bin" and m["op"] == "Div" and m["r"].get("kind") == "scalar" and m["r"]["value"] == str(W) for m in walk_chain(n["l"]))
                   for n in walk_chain(r))
        ok = (op == "Le" and c >= W) or (op == "Lt" and c >= W - 1) or (op == "Lt" and c == 0 and mult)
        descs.append("guard `off%s %s %s`%s" % (" + %d" % c if c else "", "<=" if op == "Le" else "<", show_chain(r, 4)[:50], "" if ok else
                                               " does not imply off + %d <= bound" % W))
        if not ok:
            return False, "; ".join(descs)
    if not descs:
        return False, "no exit guard found"
    return True, "; ".join(descs)


def loop_facts(fn, h, body):
    """K (byte widths of stored values), W (constant advances of the running offset), bound callee names"""
    K, W, bounds, stores = set(), set(), set(), []
    for c in fn.calls_in(body):
        nm = short(c.callee)
        if nm in ("store", "stack_store") and "cranelift" in c.callee:
            stores.append(c)
            val = fn.chain_operand(c.args[1], depth=10)
            for n in walk_chain(val):
                if n.get("kind") == "call" and short(n["callee"]) == "int_with_byte_size" and n["args"] and n["args"][0].get("kind") == "scalar":
                    K.add(int(n["args"][0]["value"]))
                if n.get("kind") == "call" and short(n["callee"]) in ("load", "stack_load") and len(n["args"]) > 1 and n["args"][1].get("kind") == "const":
                    tyname = n["args"][1]["path"].rsplit("::", 1)[-1]
                    if tyname in CL_BYTES:
                        K.add(CL_BYTES[tyname])
        if nm in ("stride", "size") and "layout" in c.callee:
            bounds.add(nm)
    # the bound may be computed before the loop (`let len = ty.stride(); while off + 8 <= len ..`): follow the guard's operands
    for u, v in fn.loop_exit_edges(h, body):
        if fn.blocks[u]["t"]["k"] != "switch":
            continue
        ch = fn.switch_operand(u, depth=14)
        for n in walk_chain(ch if isinstance(ch, dict) else {}):
            if n.get("kind") == "call" and short(n["callee"]) in ("stride", "size") and "layout" in n["callee"]:
                bounds.add(short(n["callee"]))
            elif n.get("kind") == "call" and short(n["callee"]) not in ("stride", "size") and not any(short(n["callee"]) == k_ for k_ in ("into", "from", "try_into", "unwrap", "clone", "deref")):
                bounds.add("call:" + short(n["callee"]))
            elif n.get("kind") in ("param", "cut") and n.get("name") not in ("off", "offset", "i"):
                bounds.add("unknown:" + str(n.get("name")))
    # running offset: the local stored-at / loaded-from; take constant addends to a named mutable local
    for i in body:
        for s in fn.blocks[i]["s"]:
            rv = s["rv"]
            if rv["k"] == "bin" and rv["op"].startswith("Add") and "k" in rv["b"] and "int" in rv["b"]["k"]:
                a = rv["a"].get("c") or rv["a"].get("m")
                if a and len(a) == 1 and fn.local_name(a[0]) in ("off", "offset", "i"):
                    W.add(int(rv["b"]["k"]["int"]))
    return K, W, bounds, stores


EXEMPT_LOOPS = {
    # key: (function suffix) -> reason.  Empty: the one entry that stood here (MemoryLoc::memset, "only zero-fills a fresh slot, nothing behind it is live") was
    # wrong - `x : [3]?u8;` inside a loop zeroes four bytes of the slot behind it, which is live (seed agent C02-5's witness) - and was removed.
}


def r02b(ctx, run):
    F = ctx.facts
    n = 0
    for fn in F.fns:
        if fn.crate != "codegen":
            continue
        for h, body in fn.innermost_loops():
            K, W, bounds, stores = loop_facts(fn, h, body)
            if not stores or not W:
                continue
            n += 1
            owner = strip_generics(fn.parent or fn.path)
            site = stores[0].site()
            what = "%s loop@%s: stores %s-byte values, offset advances by %s" % (short(owner), stores[0].ln, sorted(K) or "?", sorted(W))
            if not K:
                # value width not determined by int_with_byte_size: e.g. ABI word copies with typed loads
                run.exempt(site, what, "stored value's width is not an int_with_byte_size constant (typed word copy); not a stride loop")
                continue
            good = K == W
            if good and len(W) == 1:
                gok, gdesc = guard_keeps_extent(fn, h, body, list(W)[0])
                if not gok and owner not in EXEMPT_LOOPS:
                    run.finding(owner, "loop-guard:w%d" % list(W)[0], stores[0].file, stores[0].ln,
                                what + ": %s - the last iteration writes past the bound (up to %d bytes beyond the object: the neighbouring value is overwritten)"
                                % (gdesc, list(W)[0] - 1))
                    continue
                what += " (" + gdesc[:90] + ")"
            if good:
                run.ok(site, what)
            elif owner in EXEMPT_LOOPS:
                run.exempt(site, what, EXEMPT_LOOPS[owner])
            else:
                run.finding(owner, "stride-loop:w%s" % "-".join(str(w) for w in sorted(W)), stores[0].file, stores[0].ln,
                            what + ": each iteration writes %s bytes but moves on by %s — the surplus bytes overwrite what follows the object" % (sorted(K), sorted(W)))
    if n < 8:
        raise LookupError("copy/set loops found: %d" % n)


def callers_of(F, fn):
    cg = F.callgraph()
    return [a for a, bs in cg.items() if fn.path in bs and a != fn.path]


def r02c(ctx, run):
    F = ctx.facts
    n = 0
    for fn in F.fns:
        if fn.crate != "codegen":
            continue
        owner = strip_generics(fn.parent or fn.path)
        for c in fn.calls():
            nm = short(c.callee)
            if nm in ("emit_small_memory_copy", "emit_small_memset") and "cranelift" in c.callee:
                n += 1
                ln_arg = fn.chain_operand(c.args[4], depth=10)
                calls = {short(x["callee"]) for x in chain_calls(ln_arg)}
                what = "%s: %s length = %s" % (short(owner), nm, show_chain(ln_arg, 5)[:60])
                if not callers_of(F, fn):
                    run.exempt(c.site(), what, "function has no caller in the resolved call graph (dead code)")
                elif "stride" in calls:
                    run.finding(owner, "%s-length" % nm, c.file, c.ln,
                                what + ": the copy length is the type's stride(), which is >= size(): assigning into a struct field or array slot of this type overwrites the padding "
                                "bytes after it, i.e. the next field's bytes when the next field is less aligned")
                elif "size" in calls:
                    run.ok(c.site(), what)
                else:
                    run.finding(owner, "%s-length-unknown" % nm, c.file, c.ln, what + ": length is not derived from the destination type's size()")
        for h, body in fn.innermost_loops():
            K, W, bounds, stores = loop_facts(fn, h, body)
            if not stores or not W or not K:
                continue
            n += 1
            what = "%s loop@%s bounded by %s()" % (short(owner), stores[0].ln, "/".join(sorted(bounds)) or "?")
            dest = fn.chain_operand(stores[0].args[2], depth=12)
            own_slot = [x for x in chain_calls(dest) if short(x["callee"]) == "create_sized_stack_slot"]
            if own_slot and any(short(y["callee"]) == "stride" for y in chain_calls(own_slot[0])):
                run.ok(stores[0].site(), what + " into a slot created in the same function with that same size")
            elif "stride" in bounds and owner in EXEMPT_LOOPS:
                run.exempt(stores[0].site(), what, EXEMPT_LOOPS[owner])
            elif "stride" in bounds:
                # one finding per function, not per macro expansion
                key = "copy-loop-bound"
                if not any(f["key"].endswith(owner + "/" + key) for f in run.findings):
                    run.finding(owner, key, stores[0].file, stores[0].ln,
                                what + ": the stack copy runs up to stride() bytes although the destination object has size() bytes: the bytes between size and stride "
                                "belong to whatever is laid out next (next struct field / next stack value)")
                else:
                    run.instances.append({"rule": run.rule.id, "site": stores[0].site(), "what": what + " (same finding, other width)", "verdict": "finding"})
            elif "size" in bounds:
                run.ok(stores[0].site(), what)
            elif not bounds:
                run.exempt(stores[0].site(), what, "bound is a constant (fixed-size word copy)")
            else:
                key = "copy-loop-bound-unknown"
                if not any(f["key"].endswith(owner + "/" + key) for f in run.findings):
                    run.finding(owner, key, stores[0].file, stores[0].ln, what + ": cannot establish that the copy is bounded by the destination type's size() (the bound comes from %s)"
                                % ", ".join(sorted(bounds)))
    if n < 6:
        raise LookupError("aggregate copy sites found: %d" % n)


RAW_STORE_ALLOWED = {
    "codegen::compiler::MemoryLoc::write_val": "the single-value store primitive",
    "codegen::compiler::MemoryLoc::write_all": "the whole-object store primitive (checked by R02.b/c)",
    "codegen::compiler::MemoryLoc::memset": "the fill primitive (checked by R02.b/c)",
    "codegen::convert::abi::FnAbi::get_arg_list": "ABI: spills a by-value argument into its own slot",
    "codegen::convert::abi::FnAbi::handle_ret": "ABI: return value into its own slot",
    "codegen::convert::abi::FnAbi::build_fn": "ABI: incoming arguments into their own slots",
    "codegen::compiler::program::generate_main_function": "argc/argv into the dedicated two-word commandline_args global",
    "codegen::compiler::functions::FunctionCompiler::build_memcpy_ty": "unused helper (allow(unused))",
}
# sites inside compile_expr_with_args / cast_into_memory that store a scalar into a slot created for exactly that scalar
SCALAR_SLOT_SITES = {
    "codegen::compiler::functions::FunctionCompiler::compile_expr_with_args": 5,
    "codegen::compiler::cast_into_memory": 1,
}


def r02d(ctx, run):
    F = ctx.facts
    per_owner = {}
    for fn in F.fns:
        if fn.crate != "codegen":
            continue
        owner = strip_generics(fn.parent or fn.path)
        for c in fn.calls():
            nm = short(c.callee)
            if nm in ("store", "stack_store", "emit_small_memory_copy", "emit_small_memset", "call_memcpy", "call_memmove", "call_memset") and "cranelift" in c.callee:
                per_owner.setdefault(owner, []).append((fn, c, nm))
    for owner, sites in sorted(per_owner.items()):
        if owner in RAW_STORE_ALLOWED:
            for fn, c, nm in sites:
                run.ok(c.site(), "%s in %s (%s)" % (nm, short(owner), RAW_STORE_ALLOWED[owner]))
            continue
        if owner in SCALAR_SLOT_SITES:
            # each such store must target a slot created in the same function for a scalar: the stored value is not an aggregate pointer copy loop,
            # and the slot operand comes from create_sized_stack_slot / a MemoryLoc of a fresh alloca, or the address is a fresh global's
            ok_n = 0
            for fn, c, nm in sites:
                slot = fn.chain_operand(c.args[3 if nm == "store" else 2], depth=10)
                calls = {short(x["callee"]) for x in chain_calls(slot)}
                fresh = bool(calls & {"create_sized_stack_slot", "unwrap_or_alloca", "global_value", "symbol_value", "declare_data_in_func"})
                if fresh:
                    ok_n += 1
                    run.ok(c.site(), "%s in %s into a slot/global created for that value (%s)" % (nm, short(owner), sorted(calls & {"create_sized_stack_slot", "unwrap_or_alloca", "global_value", "symbol_value", "declare_data_in_func"})))
                else:
                    run.finding(owner, "raw-store:%s" % nm, c.file, c.ln,
                                "raw %s outside MemoryLoc whose destination is not a slot/global created for the stored value (destination: %s): aggregate/object stores must go through MemoryLoc"
                                % (nm, show_chain(slot, 4)[:80]))
            if len(sites) > SCALAR_SLOT_SITES[owner]:
                run.finding(owner, "raw-store-count", sites[-1][1].file, sites[-1][1].ln,
                            "%s now has %d raw store sites (reviewed: %d): a new raw store needs review against the store-extent rules" % (owner, len(sites), SCALAR_SLOT_SITES[owner]))
            continue
        for fn, c, nm in sites:
            run.finding(owner, "raw-store:%s" % nm, c.file, c.ln, "raw %s in %s: stores must go through MemoryLoc (or the function must be reviewed and listed)" % (nm, owner))


def place_field(ch, field):
    for n in walk_chain(ch):
        if n.get("kind") == "place" and any(p == "." + field for p in n["proj"]):
            return True
    return False


def r02e(ctx, run):
    """distinct variables get distinct storage: a binding is given the address of a slot created for it"""
    F = ctx.facts
    n_local = 0
    for fn in F.fns:
        if fn.crate != "codegen":
            continue
        for c in fn.calls():
            if short(c.callee) != "insert" or len(c.args) < 3:
                continue
            if not place_field(fn.chain_operand(c.args[0], depth=5), "locals"):
                continue
            n_local += 1
            val = fn.chain_operand(c.args[2], depth=10)
            calls = [short(x["callee"]) for x in chain_calls(val)]
            fresh = "create_sized_stack_slot" in calls
            owner = strip_generics(fn.parent or fn.path)
            run.check(fresh, c.site(), "local variable bound to the address of a stack slot created for it (%s)" % show_chain(val, 3)[:90], owner, "local-binding-fresh-slot", c.file, c.ln,
                      "a local definition is bound to an address that does not come from a stack slot created for it (%s): the new variable shares storage with another value, "
                      "so writing either one changes the other" % show_chain(val, 4)[:160])
    if n_local == 0:
        raise LookupError("no insertion into FunctionCompiler::locals found")
    # parameters: by-value aggregates (PassMode::Cast / Indirect) are copied into a slot of the callee; only Direct scalars use the block parameter itself
    bf = [f for f in F.fns if strip_generics(f.path).endswith("FnAbi::build_fn")]
    if len(bf) != 1:
        raise LookupError("FnAbi::build_fn")
    fn = bf[0]
    dv = [c for c in fn.calls() if short(c.callee) == "def_var"]
    ins = [c for c in fn.calls() if short(c.callee) == "insert" and place_field(fn.chain_operand(c.args[0], depth=5), "params")]
    if len(dv) != 1 or len(ins) != 1:
        raise LookupError("def_var / params.insert in build_fn: %d/%d" % (len(dv), len(ins)))
    val = fn.chain_operand(dv[0].args[2], depth=10)
    phis = [n for n in walk_chain(val) if n.get("kind") == "phi"]
    if not phis:
        raise LookupError("parameter value in build_fn is not a merge of the PassMode arms")
    opts = phis[0]["opts"]
    kinds = []
    for o in opts:
        first = o["args"][0] if o.get("kind") == "agg" and o.get("args") else o
        calls = [short(x["callee"]) for x in chain_calls(first)]
        as_direct = any("as:Direct" in str(n.get("proj", "")) or n.get("variant") == "Direct" for n in walk_chain(o))
        kinds.append(("slot" if "create_sized_stack_slot" in calls else "block-param" if "block_params" in calls else "other", as_direct))
    modes = ctx.facts.adt("PassMode")
    variants = [v["n"] for v in modes["variants"]] if modes else []
    n_slot = len([k for k in kinds if k[0] == "slot"])
    n_bp = len([k for k in kinds if k[0] == "block-param"])
    good = len(opts) == len(variants) == 3 and n_slot == 2 and n_bp == 1 and kinds[[k[0] for k in kinds].index("block-param")][1]
    run.check(good, dv[0].site(), "parameters: PassMode::{Cast,Indirect} aggregates are copied into a slot of the callee, only PassMode::Direct uses the incoming value (%s)" % kinds,
              "codegen::convert::abi::FnAbi::build_fn", "param-binding-fresh-slot", dv[0].file, dv[0].ln,
              "a by-value aggregate parameter is bound to the caller's memory instead of a copy in the callee's frame (arms: %s over PassMode %s): a write through another pointer to the "
              "argument becomes visible through the parameter" % (kinds, variants))


def r02f(ctx, run):
    """the value handed to MemoryLoc::write_all has the type whose size write_all uses"""
    F = ctx.facts
    n = 0
    for fn in F.fns:
        if fn.crate != "codegen":
            continue
        for c in fn.calls():
            if short(c.callee) != "write_all" or "MemoryLoc" not in c.callee:
                continue
            n += 1
            owner = strip_generics(fn.parent or fn.path)
            val = fn.chain_operand(c.args[1], depth=8)
            ty = fn.chain_operand(c.args[2], depth=8)
            ty_s = show_chain(ty, 6)
            top = val
            while top.get("kind") in ("agg",) and top.get("args"):   # Some{..}
                top = top["args"][0]
            while top.get("kind") == "place" and top.get("base"):
                top = top["base"]
            guards = [short(x.callee) for b in fn.controlling_switches(c.bb) for x in fn.calls_in([bb for bb in range(len(fn.blocks)) if fn.dominates(bb, b)]) if short(x.callee) == "is_functionally_equivalent_to"]
            verdict, why = None, ""
            if top.get("kind") == "call":
                nm = short(top["callee"])
                if nm in ("cast", "cast_into_memory", "compile_and_cast", "compile_and_cast_with_args"):
                    to = top["args"][-2] if nm == "cast_into_memory" else top["args"][-1]
                    verdict = show_chain(to, 6) == ty_s
                    why = "value = %s(.., to = %s), stored as %s" % (nm, show_chain(to, 4)[:60], ty_s[:60])
                elif nm == "cast_num":
                    verdict = "cast_to" in show_chain(top["args"][-1], 8) and "cast_to" in ty_s
                    why = "value = cast_num(.., to = cast_to's number type), stored as cast_to"
                elif nm == "compile_expr":
                    verdict = bool(guards)
                    why = "value = compile_expr(e), stored as ty on the path where tys[e] is functionally equivalent to ty"
                else:
                    verdict = False
                    why = "value = %s(..) is computed in that operation's own type, but it is stored as %s without a cast to it" % (nm, ty_s[:80])
            elif top.get("kind") == "param":
                # cast_into_memory's own contract: val has type cast_from
                if "sub_ty" in ty_s:
                    asserted = any(x.exp and any("assert" in e for e in x.exp) and short(x.callee) == "eq" and fn.dominates(x.bb, c.bb) for x in fn.calls())
                    verdict = asserted
                    why = "variant -> enum: the payload type written is asserted equal to the variant's payload type"
                else:
                    verdict = bool(guards)
                    why = "value of type cast_from stored as cast_to on the path where the two are functionally equivalent"
            else:
                verdict = False
                why = "unrecognised producer of the stored value (%s)" % show_chain(val, 3)[:80]
            run.check(verdict, c.site(), "write_all in %s: %s" % (short(owner), why), owner, "write_all-type:%s" % (short(top.get("callee", top.get("name", "?")))), c.file, c.ln,
                      "MemoryLoc::write_all stores a scalar with the width of the VALUE but is told type %s: %s — a wider value overwrites the neighbouring bytes" % (ty_s[:60], why))
    if n < 5:
        raise LookupError("write_all call sites: %d" % n)


def slot_cached(ga):
    """does a container method's generic-argument list say the container holds stack slots?"""
    return bool(re.search(r"\bStackSlot\b", ga or ""))


def r02g(ctx, run):
    """stack slots are created per use site and never cached: a container (map, vector, set) that holds StackSlots hands the same storage to
    two values (e.g. one spill slot per return TYPE: the second call's result overwrites the first one's while it is still in use)"""
    import re as _re
    assert slot_cached("[internment::intern::Intern<hir::common::ty::Ty>, cranelift_codegen::ir::StackSlot, rustc_hash::FxBuildHasher]") and not slot_cached("[u32, Value]")
    F = ctx.facts
    n_create = 0
    hits = {}
    for fn in F.fns:
        if fn.crate != "codegen":
            continue
        for c in fn.calls():
            nm = short(c.callee)
            if nm == "create_sized_stack_slot":
                n_create += 1
            if _re.search(r"(Hash(Map|Set)|BTree(Map|Set)|indexmap::|alloc::vec::Vec|VecDeque|smallvec|ArrayVec|Entry)", c.callee) and slot_cached(c.ga):
                owner = strip_generics(fn.parent or fn.path)
                hits.setdefault(owner, []).append(c)
    for owner, cs in sorted(hits.items()):
        c = cs[0]
        run.finding(owner, "slot-container", c.file, c.ln,
                    "%s keeps stack slots in a container (%s on %s): slots handed out from a cache are shared between values - the later value's store overwrites the earlier "
                    "one while it is still live (e.g. both results of f(g(1), g(2)) spilled to one slot)" % (short(owner), short(c.callee), (c.ga or "")[:90]))
    if n_create < 8:
        raise LookupError("create_sized_stack_slot call sites: %d" % n_create)
    if not hits:
        run.ok("crates/codegen/src/compiler/functions.rs:1", "%d create_sized_stack_slot sites; no container in the code generator holds stack slots" % n_create)
    # the spill slot of a register-returned aggregate is created in the call's own handle_ret (def-use)
    hr = F.fn("codegen::convert::abi::FnAbi::handle_ret")
    stores = [c for c in hr.calls() if short(c.callee) in ("stack_store", "stack_addr")]
    for i, c in enumerate(stores):
        ch = hr.chain_operand(c.args[2] if short(c.callee) == "stack_store" else c.args[2], depth=10)
        direct = any(n.get("kind") == "call" and short(n["callee"]) == "create_sized_stack_slot" for n in walk_chain(ch)) and not any(
            n.get("kind") == "call" and short(n["callee"]) in ("get", "entry", "or_insert_with", "or_insert", "index", "get_mut", "insert") for n in walk_chain(ch))
        run.check(direct, c.site(), "handle_ret: %s uses a slot created for this call" % short(c.callee), "codegen::convert::abi::FnAbi::handle_ret", "ret-slot#%d" % i, c.file, c.ln,
                  "the slot a register-returned aggregate is spilled into must be created for this very call (create_sized_stack_slot in handle_ret); found %s" % show_chain(ch, 4)[:100])


def r02h(ctx, run):
    """a value is complete before it overwrites something: the in-place builders (compile_and_cast_into_memory / store_expr_in_memory write the members
    of a struct or array literal one by one into the memory they are given, evaluating each member expression in between) are only handed FRESH memory -
    a stack slot created for the purpose, the caller's return area, a data object - never the address of an existing value.  `s = S.{ a = s.b, b = s.a }`
    built in place in `s` reads `s.a` after it was overwritten."""
    F = ctx.facts
    BUILDERS = ("compile_and_cast_into_memory", "store_expr_in_memory")
    FAMILY = ("store_expr_in_memory", "store_struct_fields", "store_array_items", "compile_and_cast_into_memory")
    n = 0
    for fn in F.fns:
        if fn.crate != "codegen":
            continue
        owner = short(strip_generics(fn.path))
        if owner in FAMILY:
            continue
        for c in fn.calls():
            if short(c.callee) not in BUILDERS or "FunctionCompiler" not in c.callee:
                continue
            n += 1
            mem = fn.chain_operand(c.args[-1], depth=12)
            calls = [short(x["callee"]) for x in walk_chain(mem) if x.get("kind") == "call"]
            fresh = any(x in calls for x in ("create_sized_stack_slot", "block_params", "symbol_value", "unwrap_or_alloca"))
            lvalue = any(x in calls for x in ("compile_expr_with_args", "compile_expr"))
            run.check(fresh and not lvalue, c.site(), "%s builds in place into fresh memory (%s)" % (owner, [x for x in calls if x in ("create_sized_stack_slot", "block_params", "symbol_value")][:1]),
                      strip_generics(fn.path), "in-place-into-existing:" + owner, c.file, c.ln,
                      "%s hands %s the address of an existing value (%s): the literal's members are written one by one while the remaining member expressions are still "
                      "evaluated, so an expression that reads the destination sees it half overwritten (`s = S.{ a = s.b, b = s.a }` gives { 2, 2 })"
                      % (owner, short(c.callee), show_chain(mem, 4)[:70]))
    if n < 4:
        raise LookupError("callers of the in-place builders: %d" % n)


def r02i(ctx, run):
    """an assignment evaluates its destination once: in compile_stmt no path compiles the `dest` expression of an assignment twice (and none compiles
    `value` twice).  `arr[next()] += 5` compiled the destination for its address and again, through compile_binary, for its old value: `next` ran
    twice and the element that was read was not the one that was written."""
    F = ctx.facts
    fn = F.fn("codegen::compiler::functions::FunctionCompiler::compile_stmt")
    COMPILE = ("compile_expr", "compile_expr_with_args", "compile_binary", "compile_and_cast", "compile_and_cast_with_args", "compile_and_cast_into_memory", "store_expr_in_memory")
    n = 0
    for field in ("dest", "value"):
        uses = []
        for c in fn.calls():
            if short(c.callee) not in COMPILE or "FunctionCompiler" not in c.callee:
                continue
            for a in c.args[1:]:
                ch = fn.chain_operand(a, depth=8)
                top = ch
                # the expression handed over is the field itself (not something computed from it)
                while isinstance(top, dict) and top.get("kind") in ("ref", "cast"):
                    top = top.get("of") or top.get("base")
                if isinstance(top, dict) and top.get("kind") == "place" and [x for x in top.get("proj", []) if x != "*"][-1:] == ["." + field] and "Assign" in show_chain(ch, 8):
                    uses.append(c)
                    break
        if field == "dest" and len(uses) < 1:
            raise LookupError("compilations of an assignment's destination in compile_stmt: %d" % len(uses))
        twice = [(a, b) for a in uses for b in uses if a is not b and (a.bb == b.bb and a.ln <= b.ln and a is not b and uses.index(a) < uses.index(b) or (a.bb != b.bb and fn.can_reach(a.bb, b.bb)))]
        n += 1
        if twice:
            a, b = twice[0]
            run.finding("codegen::compiler::functions::FunctionCompiler::compile_stmt", "evaluated-twice:" + field, b.file, b.ln,
                        "an assignment's `%s` is compiled by %s (line %d) and, on a path that continues from there, again by %s (line %d): its side effects run twice and the two "
                        "evaluations can denote different places (`arr[next()] += 5` reads one element and writes another)" % (field, short(a.callee), a.ln, short(b.callee), b.ln))
        else:
            run.ok(uses[0].site() if uses else fn.site(), "compile_stmt compiles an assignment's `%s` once on every path (%d sites)" % (field, len(uses)))
    if n < 2:
        raise LookupError("assignment fields examined: %d" % n)


def r02j(ctx, run):
    """an assignment stores into its destination ONCE, a whole value of the destination's type: in compile_stmt every MemoryLoc::write_all whose target is
    the assignment's destination is outside any loop, writes at the destination itself (not at a member offset) and no path performs two of them.
    Storing the members of a struct literal one by one into the live destination lets the copy of one aggregate member overwrite the memory another
    member is still copied from (`p = Pair.{ first = p.second, second = p.first }`)."""
    F = ctx.facts
    fn = F.fn("codegen::compiler::functions::FunctionCompiler::compile_stmt")
    U = "codegen::compiler::functions::FunctionCompiler::compile_stmt"
    stores = []
    for c in fn.calls():
        if short(c.callee) != "write_all" or "MemoryLoc" not in c.callee:
            continue
        target = fn.chain_operand(c.args[0], depth=14)
        names = [short(x["callee"]) for x in chain_calls(target)]
        # the destination of an assignment: a MemoryLoc made from the address compile_expr_with_args(dest, no_load) returned
        if "from_addr" in names and "compile_expr_with_args" in names:
            stores.append((c, names))
    if len(stores) < 2:
        raise LookupError("stores into an assignment's destination in compile_stmt: %d" % len(stores))
    loops = fn.loops()
    for c, names in stores:
        in_loop = any(c.bb in body for h, body in loops)
        offset = "with_offset" in names
        run.check(not in_loop and not offset, c.site(), "the destination is stored into once, as a whole (line %d)" % c.ln, U, "piecewise-store-into-destination", c.file, c.ln,
                  "compile_stmt stores into an assignment's destination %s: the destination is live while the remaining pieces are still copied from their sources, which may be "
                  "the destination itself" % ("inside a loop" if in_loop else "at a member offset (with_offset)"))
    twice = [(a, b) for a, _ in stores for b, _ in stores if a is not b and a.bb != b.bb and fn.can_reach(a.bb, b.bb)]
    run.check(not twice, stores[0][0].site(), "no path stores into the destination twice", U, "two-stores-into-destination", stores[0][0].file, stores[0][0].ln,
              "a path through compile_stmt stores into the assignment's destination at line %d and again at line %d" % ((twice[0][0].ln, twice[0][1].ln) if twice else (0, 0)))


def r02k(ctx, run):
    """a conversion never writes into its source: the functions of the cast family (a source value `val`, an optional destination `memory`) build their
    result in the destination they are given or in memory allocated for it (`unwrap_or_alloca`); no MemoryLoc that is written through is made from the
    source value's address.  `T.(x)` reads `x`; with the result built in place `x` would hold the converted bytes afterwards."""
    import prov
    from synq import canon
    M = "codegen/src/compiler/mod.rs"
    fam = []
    for f in ctx.syn.fns_in(M):
        if f.body is None or f.in_test:
            continue
        names = f.param_names()
        tys = [str(p_.get("ty", "")) for p_ in f.params]
        if "val" in names and any(n == "memory" and "MemoryLoc" in t for n, t in zip(names, tys)):
            fam.append(f)
    if len(fam) < 4:
        raise LookupError("cast family (val, memory: Option<MemoryLoc>) in compiler/mod.rs: %d" % len(fam))
    for f in fam:
        P = prov.Prov(f)
        bad, dests = [], [0]

        def on(n, sc, P=P, bad=bad, dests=dests):
            if n.get("k") == "call" and canon(n["f"]).endswith(("MemoryLoc::from_addr", "MemoryLoc::from_stack")) and n["a"]:
                tags = P.tags(n["a"][0], sc)
                if "param:val" in tags and "m:stack_addr" not in tags and "m:create_sized_stack_slot" not in tags:
                    bad.append((n["ln"], sorted(t for t in tags if t.startswith(("param:", "m:")))[:6]))
            if n.get("k") == "mcall" and n["m"] == "unwrap_or_alloca":
                dests[0] += 1
        P.visit(on)
        run.check(not bad, f.site(bad[0][0] if bad else None), "%s: result built in the given destination or fresh memory (%d unwrap_or_alloca)" % (f.qual, dests[0]), f.qual,
                  "cast-writes-source", f.file, bad[0][0] if bad else f.ln,
                  "%s makes a MemoryLoc from the address of its SOURCE value (line %d, from %s) and builds the result there: after `y := T.(x)` the variable `x` holds the "
                  "converted bytes - a conversion must leave its source untouched" % (f.qual, bad[0][0] if bad else 0, bad[0][1] if bad else ""))


def rules(ctx):
    return [
        Rule("R02.a", "tag stores/loads (offset derived from discriminant_offset) move exactly one byte", 9, r02a),
        Rule("R02.b", "copy/set loops store exactly as many bytes as their offset advances", 4, r02b),
        Rule("R02.c", "aggregate copies are bounded by the destination type's size(), not stride()", 6, r02c),
        Rule("R02.d", "raw Cranelift stores only in MemoryLoc, the ABI module and reviewed scalar-slot sites", 25, r02d),
        Rule("R02.e", "every local definition and every by-value aggregate parameter is bound to a stack slot created for it (no shared storage)", 2, r02e),
        Rule("R02.h", "in-place construction of aggregates only into fresh memory: an assignment's value is complete before the destination is written", 4, r02h),
        Rule("R02.i", "an assignment compiles its destination (and its value) once on every path", 2, r02i),
        Rule("R02.j", "an assignment stores into its destination once, a whole value (no member-wise stores into the live destination)", 3, r02j),
        Rule("R02.k", "a conversion never writes into its source: the cast family builds its result in the given destination or in fresh memory", 4, r02k),
        Rule("R02.g", "stack slots are created per use site, never cached in a container; a call's spill slot is created for that call", 2, r02g),
        Rule("R02.f", "every MemoryLoc::write_all receives a value already converted to the type it is told to store", 5, r02f),
    ]

"""C07 — a program is built iff no error was reported (DESIGN §3 C07)."""
from core import Rule
import synq
from synq import canon, walk
import facts as FA
from facts import short, strip_generics, show_chain, walk_chain, chain_calls

PROPERTY = "C07"
TITLE = "A program is built if and only if no error was reported"
NEEDS = ("syn", "facts")
TECHNIQUE = "static analysis: dominance on compile_file's MIR CFG (error gate before every code-generation call), def-use of the gate condition, struct-literal lint on diagnostics, match-table rules on the unsafe-to-compile walk; acceptance-vs-construction agreement by abstract evaluation of both sides from source (operators, nested == / !=, casts, common type of a diverging branch, const classification)"
EXPLANATION = (
    "Engine A on capy::compile_file: every call into codegen (compile_obj, compile_jit, the post-check eval_comptime_blocks, "
    "link_to_exec) is dominated by the false edge of the branch on `has_errors` whose true side only reaches exit(1); "
    "`has_errors` is data-dependent on both the type diagnostics (any(TyDiagnostic::is_error)) and the per-file "
    "syntax/indexing/lowering diagnostics (SourceFile::has_errors); the assert on any_were_unsafe_to_compile also dominates them. "
    "Comptime evaluation requested during inference is guarded by is_safe_to_compile at each of its call sites. Engine B: every "
    "TyDiagnostic literal names the offending expression (`expr: Some(_)`) except the enumerated entry-point / extern diagnostics; "
    "is_safe_to_compile builds its error set from all error diagnostics, tests membership first for every visited expression, "
    "and treats Missing, unknown types and unresolved jump labels as unsafe; the severity mapping makes every such diagnostic an error.")
NOT_DECIDED = [
    "that error-free programs pass the Cranelift verifier and the linker (backend)",
    "that no error is reported for well-typed programs (C01/C12 territory)",
]
ASSUMPTIONS = ["std::process::exit does not return"]

CF = "capy::compile_file"
CODEGEN_CALLS = ("compile_obj", "compile_jit", "eval_comptime_blocks", "link_to_exec")


def find_switch_on(fn, varname):
    """blocks whose switch operand derives from the local named varname"""
    out = []
    for i, b in enumerate(fn.blocks):
        t = b["t"]
        if t["k"] != "switch" or b.get("cleanup"):
            continue
        o = t["o"]
        p = o.get("c") or o.get("m")
        if not p:
            continue
        l = p[0]
        if fn.local_name(l) == varname:
            out.append(i)
            continue
        ch = fn.chain_local(l, depth=4)
        if any(n.get("var") == varname or n.get("name") == varname for n in walk_chain(ch)):
            out.append(i)
    return out


def diverges(fn, start):
    """every path from start ends in a call without return target (exit/panic) — never reaches a return"""
    seen = set()
    st = [start]
    while st:
        x = st.pop()
        if x in seen:
            continue
        seen.add(x)
        t = fn.blocks[x]["t"]
        if t["k"] == "return":
            return False
        st.extend(fn.succ[x])
    return True


def r07a(ctx, run):
    F = ctx.facts
    fn = F.fn(CF)
    sw = find_switch_on(fn, "has_errors")
    if len(sw) != 1:
        raise LookupError("branch on has_errors in compile_file: %s" % sw)
    b = sw[0]
    targets = fn.succ[b]
    err_side = [t for t in targets if diverges(fn, t)]
    ok_side = [t for t in targets if not diverges(fn, t)]
    good = len(err_side) == 1 and len(ok_side) == 1
    exit_calls = [c for c in fn.calls_in(fn.reachable_from(err_side[0])) if short(c.callee) == "exit"] if good else []
    run.check(good and bool(exit_calls), "%s:%d" % (fn.file, fn.blocks[b]["t"]["ln"]), "if has_errors { ... exit(1) } — the error side never returns", CF, "gate", fn.file, fn.blocks[b]["t"]["ln"],
              "the branch on has_errors must have one side that only reaches exit(1)")
    if not good:
        return
    gate = ok_side[0]
    # the exit status on the error side is 1
    for c in exit_calls[:1]:
        st = fn.chain_operand(c.args[0])
        run.check(st.get("kind") == "scalar" and st["value"] == "1", c.site(), "error side exits with status 1", CF, "gate-status", c.file, c.ln, "the error gate must exit with status 1")
    n = 0
    for c in fn.calls():
        if short(c.callee) in CODEGEN_CALLS and c.callee.startswith("codegen::"):
            n += 1
            dom = fn.dominates(gate, c.bb)
            run.check(dom, c.site(), "codegen::%s is dominated by the no-error side of the gate" % short(c.callee), CF, "gated:%s" % short(c.callee), c.file, c.ln,
                      "codegen::%s can be reached without passing `if has_errors { exit(1) }`: an object could be produced although errors were reported" % short(c.callee))
    if n < 3:
        raise LookupError("codegen calls in compile_file: %d" % n)
    # has_errors depends on both sources
    sws = fn.blocks[b]["t"]["o"]
    l = (sws.get("c") or sws.get("m"))[0]
    # collect all defs of the has_errors local (it is assigned on both sides of `||`)
    he = [i for i, loc in enumerate(fn.locals) if loc.get("name") == "has_errors"]
    ch = fn.chain_local(he[0], depth=12) if he else fn.chain_local(l, depth=12)
    # `a || b` assigns the constant true under control of `a`: add the controlling conditions of constant definitions
    ctrl = []
    for d in fn.defs.get(he[0] if he else l, []):
        if d[0] == "assign" and d[3]["rv"]["k"] == "use" and "k" in d[3]["rv"]["o"]:
            for sw in fn.controlling_switches(d[1], limit=2):
                ctrl.append(fn.chain_operand(fn.blocks[sw]["t"]["o"], depth=12))
    ch = {"kind": "phi", "name": "has_errors+control", "opts": [ch] + ctrl}
    fnrefs = {n["path"] for n in walk_chain(ch) if n.get("kind") == "fnref"}
    closures = [n["path"] for n in walk_chain(ch) if n.get("kind") == "agg" and n.get("ak") == "closure"]
    anys = [n for n in chain_calls(ch) if short(n["callee"]) == "any"]
    ty_ok = any(p.endswith("TyDiagnostic::is_error") for p in fnrefs)
    src_ok = False
    for cp in closures:
        for cf in F.by_norm.get(strip_generics(cp), []) or [F.by_path.get(cp)]:
            if cf and any(short(c.callee) == "has_errors" and "SourceFile" in c.callee for c in cf.calls()):
                src_ok = True
    site = "%s:%d" % (fn.file, fn.blocks[b]["t"]["ln"])
    run.check(ty_ok and len(anys) >= 2, site, "has_errors covers type diagnostics: any(TyDiagnostic::is_error)", CF, "gate-src:ty", fn.file, fn.blocks[b]["t"]["ln"],
              "has_errors no longer depends on ty_diagnostics.iter().any(TyDiagnostic::is_error): type errors would not stop the build")
    run.check(src_ok and len(anys) >= 2, site, "has_errors covers per-file diagnostics: any(SourceFile::has_errors)", CF, "gate-src:files", fn.file, fn.blocks[b]["t"]["ln"],
              "has_errors no longer depends on SourceFile::has_errors of every file: syntax/indexing/lowering errors would not stop the build")
    # the two `any` iterate the whole collections (ty_diagnostics, source_files)
    recv = set()
    for a in anys:
        for nn in walk_chain(a["args"][0]):
            if nn.get("var"):
                recv.add(nn["var"])
            if nn.get("kind") == "place" and nn["base"].get("var"):
                recv.add(nn["base"]["var"])
    run.check({"ty_diagnostics", "source_files"} <= recv or len(anys) >= 2, site, "both collections are scanned entirely", CF, "gate-collections", fn.file, fn.blocks[b]["t"]["ln"],
              "the gate must scan ty_diagnostics and source_files")
    # assert!(!any_were_unsafe_to_compile) dominates code generation
    asw = find_switch_on(fn, "any_were_unsafe_to_compile")
    asw = [x for x in asw if any(diverges(fn, t) for t in fn.succ[x]) and fn.dominates(gate, x)]
    if not asw:
        run.finding(CF, "unsafe-assert", fn.file, fn.lo, "the assert on any_were_unsafe_to_compile after the error gate is gone")
    else:
        a = asw[0]
        ok2 = [t for t in fn.succ[a] if not diverges(fn, t)]
        for c in fn.calls():
            if short(c.callee) in ("compile_obj", "compile_jit") and c.callee.startswith("codegen::"):
                run.check(bool(ok2) and fn.dominates(ok2[0], c.bb), c.site(), "codegen::%s is dominated by assert!(!any_were_unsafe_to_compile)" % short(c.callee), CF,
                          "asserted:%s" % short(c.callee), c.file, c.ln, "codegen::%s is not dominated by the unsafe-to-compile assert" % short(c.callee))
    # comptime evaluation during inference: every call of the eval_comptime callback is guarded by is_safe_to_compile
    n_ev = 0
    for f in ctx.syn.fns_in("hir_ty/src/globals.rs"):
        if f.body is None:
            continue
        for x in walk(f.body):
            if x.get("k") == "call" and canon(x["f"]) == "(self.eval_comptime)" or (x.get("k") == "call" and canon(x["f"]).replace("(", "").replace(")", "") == "self.eval_comptime"):
                n_ev += 1
                guards = [y for y in walk(f.body) if y.get("k") == "if" and "self.is_safe_to_compile(" in canon(y["c"]) and y["ln"] <= x["ln"] <= y.get("end", y["ln"]) and
                          any(z is x for z in walk(y["t"]))]
                run.check(bool(guards), f.site(x["ln"]), "%s: comptime evaluation guarded by is_safe_to_compile" % f.qual, f.qual, "comptime-guard", f.file, x["ln"],
                          "a comptime block is handed to the JIT without asking is_safe_to_compile first: code containing reported errors would be generated")
    if n_ev < 2:
        raise LookupError("calls of the eval_comptime callback in globals.rs: %d" % n_ev)


EXPR_NONE_OK = {
    ("InferenceCtx::finish", "EntryNotFunction"): "entry-point shape: not inside any compiled body",
    ("InferenceCtx::finish", "EntryHasParams"): "entry-point shape: does not affect compilability of the global (source comment)",
    ("InferenceCtx::finish", "EntryBadReturn"): "entry-point shape",
    ("InferenceCtx::infer_global", "ExternGlobalMissingTy"): "extern global: no body is compiled",
}
EXPR_PASSTHROUGH_OK = {
    ("GlobalInferenceCtx::naive_global_to_ty", "UnknownFile"): "file_expr is the member expression handed in by the caller (Option passed through)",
    ("GlobalInferenceCtx::naive_global_to_ty", "UnknownFqn"): "file_expr passed through",
    ("GlobalInferenceCtx::break_with", "Mismatch"): "value is Some on this path (range_for_expr(value.unwrap()) right below)",
}


def r07b(ctx, run):
    n = 0
    for f in ctx.syn.fns:
        if f.in_test or f.body is None or "hir_ty/src" not in f.file:
            continue
        for x in walk(f.body):
            if x.get("k") == "struct" and x["p"].endswith("TyDiagnostic"):
                n += 1
                fl = {y[0]: y[1] for y in x["f"]}
                e = canon(fl.get("expr"))
                kind = synq.last_seg(canon(fl.get("kind")).split("{")[0].split("(")[0].strip())
                site = f.site(x["ln"])
                if e.startswith("Some("):
                    run.ok(site, "%s: %s names its expression (%s)" % (f.qual, kind, e))
                elif e == "None" and (f.qual, kind) in EXPR_NONE_OK:
                    run.exempt(site, "%s: %s has expr: None" % (f.qual, kind), EXPR_NONE_OK[(f.qual, kind)])
                elif (f.qual, kind) in EXPR_PASSTHROUGH_OK:
                    run.exempt(site, "%s: %s passes `%s` through" % (f.qual, kind, e), EXPR_PASSTHROUGH_OK[(f.qual, kind)])
                else:
                    run.finding(f.qual, "diag-without-expr:%s" % kind, f.file, x["ln"],
                                "TyDiagnostic %s is created with expr: %s — is_safe_to_compile cannot attribute it to any expression, so the code containing the error is not "
                                "flagged unsafe (and a comptime block containing it would still be evaluated)" % (kind, e))
    if n < 80:
        raise LookupError("TyDiagnostic literals: %d" % n)


def r07c(ctx, run):
    f = ctx.syn.fn("GlobalInferenceCtx::is_safe_to_compile", "hir_ty/src/globals.rs")
    F = "GlobalInferenceCtx::is_safe_to_compile"
    # error set
    es = [s for s in f.body["s"] if s["k"] == "local" and canon(s["p"]).startswith("error_exprs")]
    c = canon(es[0]["init"]) if es else ""
    run.check("self.diagnostics.iter()" in c and ".filter(|d| d.is_error())" in c and "d.expr?" in c and "d.file" in c, f.site(es[0]["ln"] if es else f.ln),
              "error set = (file, expr) of every error diagnostic", F, "error-set", f.file, es[0]["ln"] if es else f.ln,
              "is_safe_to_compile must collect (file, expr) of ALL diagnostics that are errors")
    # PreExpr arm: membership test first
    ms = [m for m in synq.matches_on(f.body) if canon(m["e"]) == "desc"]
    if len(ms) != 1:
        raise LookupError("match desc in is_safe_to_compile")
    arms = {synq.last_seg(h): (b, arm) for h, p, g, b, arm in synq.match_table(ms[0])}
    pre = arms["PreExpr"][0]
    first_if = next((s for s in pre["s"] if s["k"] == "expr" and s["e"].get("k") == "if"), None)
    good = first_if is not None and canon(first_if["e"]["c"]) == "error_exprs.contains(&(loc.file(), expr))" and "return Ok(false)" in canon(first_if["e"]["t"])
    before = []
    for s in pre["s"]:
        if s is first_if:
            break
        before += [x for x in walk(s) if x.get("k") in ("continue", "return")]
    run.check(good and not before, f.site(first_if["ln"] if first_if else f.ln), "every visited expression is first tested against the error set", F, "membership-first", f.file,
              first_if["ln"] if first_if else f.ln, "the error-set membership test must be the first thing done for every PreExpr (no continue/return before it)")
    pc = canon(pre)
    run.check("Expr::Missing => { println!" in pc or "Expr::Missing =>" in pc and "return Ok(false)" in pc.split("Expr::Missing =>")[1][:200], f.site(), "Expr::Missing is unsafe", F, "missing", f.file, f.ln,
              "Expr::Missing must be unsafe to compile")
    unknown = pc.count("ty.is_unknown()")
    run.check(unknown >= 2 and "let Some(ty) = self.tys[loc].expr_tys.get(expr) else" in pc, f.site(), "unknown / absent types are unsafe", F, "unknown-ty", f.file, f.ln,
              "expressions with unknown or missing types must be unsafe to compile")
    st = canon(arms["PreStmt"][0])
    run.check("Stmt::Break{label" in st and "Stmt::Continue{label" in st and "label.is_none()" in st and "return Ok(false)" in st, f.site(arms["PreStmt"][1]["ln"]),
              "jumps without a resolved label are unsafe", F, "label-none", f.file, arms["PreStmt"][1]["ln"], "Break/Continue with label None must be unsafe to compile (codegen has unreachable!() there)")
    last = canon(f.body["s"][-1])
    run.check(last.startswith("Ok(true)"), f.site(), "safe only after the whole walk", F, "tail", f.file, f.ln, "is_safe_to_compile must answer true only after visiting every descendant")
    # severity mapping
    ie = ctx.syn.fn("TyDiagnostic::is_error", "hir_ty/src/lib.rs")
    run.check(canon(ie.body["s"][-1]).startswith("true"), ie.site(), "every TyDiagnostic is an error", "TyDiagnostic::is_error", "total", ie.file, ie.ln,
              "TyDiagnostic::is_error is no longer constantly true: a diagnostic kind that is not an error would neither gate the build nor mark code unsafe — review R07.b/c")
    sev = ctx.syn.fn("Diagnostic::severity", "diagnostics/src/lib.rs")
    m = synq.matches_on(sev.body)[0]
    tbl = {synq.last_seg(h): canon(synq.strip_block(b)) for h, p, g, b, arm in synq.match_table(m)}
    run.check(tbl.get("Syntax") == "Severity::Error" and tbl.get("Indexing") == "Severity::Error", sev.site(), "syntax and indexing diagnostics are errors", "Diagnostic::severity", "syntax",
              sev.file, sev.ln, "syntax/indexing diagnostics must have Severity::Error; table: %s" % tbl)
    for k in ("Lowering", "Ty"):
        run.check(k in tbl and "is_error()" in tbl[k] and "Severity::Error" in tbl[k], sev.site(), "%s diagnostics: error iff is_error()" % k, "Diagnostic::severity", "map:" + k, sev.file, sev.ln,
                  "%s diagnostics must map is_error() to Severity::Error; found %s" % (k, tbl.get(k)))
    he = [x for x in ctx.syn.fns if x.name == "has_errors" and x.impl_ty == "SourceFile" and not x.in_test]
    if len(he) != 1:
        raise LookupError("SourceFile::has_errors")
    c = canon(he[0].body)
    run.check("Severity::Error" in c and ".any(" in c, he[0].site(), "SourceFile::has_errors = any diagnostic of Severity::Error", "SourceFile::has_errors", "shape", he[0].file, he[0].ln,
              "SourceFile::has_errors must be true iff some diagnostic has Severity::Error")
    # finish() runs the walk for every finished non-extern location when tracking is on
    fin = ctx.syn.fn("InferenceCtx::finish", "hir_ty/src/lib.rs")
    c = canon(fin.body)
    run.check("for todo_loc in self.all_finished_locations.clone().into_iter()" in c and c.count("is_safe_to_compile(todo_loc") >= 3 and c.count("any_were_unsafe_to_compile = true") >= 2,
              fin.site(), "finish() walks every finished location (global body, its type annotation, lambda)", "InferenceCtx::finish", "walk-all", fin.file, fin.ln,
              "finish() must run is_safe_to_compile over every finished location and record any unsafe one")


# ---- R07.d: what the checker accepts, the code generator can build --------------------------------------------
def _ty_samples():
    from absint import Variant, Term, Obj
    # components are a plain comparable type: the component-wise question is R07.i's
    sub = Variant("Ty::IInt", {"0": 32})
    mem = Obj("MemberTy", name=Term("m"), ty=sub)
    var = Variant("Ty::EnumVariant", {"enum_uid": 1, "variant_name": Term("A"), "uid": 2, "sub_ty": sub, "discriminant": 0})
    return {
        "IInt": Variant("Ty::IInt", {"0": 32}), "UInt": Variant("Ty::UInt", {"0": 32}), "Float": Variant("Ty::Float", {"0": 64}),
        "Bool": Variant("Ty::Bool"), "Char": Variant("Ty::Char"), "String": Variant("Ty::String"), "Type": Variant("Ty::Type"),
        "AnonArray": Variant("Ty::AnonArray", {"size": 2, "sub_ty": sub}), "ConcreteArray": Variant("Ty::ConcreteArray", {"size": 2, "sub_ty": sub}),
        "Slice": Variant("Ty::Slice", {"sub_ty": sub}), "Pointer": Variant("Ty::Pointer", {"mutable": False, "sub_ty": sub}),
        "Any": Variant("Ty::Any"), "RawPtr": Variant("Ty::RawPtr", {"mutable": False}), "RawSlice": Variant("Ty::RawSlice"),
        "ConcreteFunction": Variant("Ty::ConcreteFunction", {"param_tys": [], "return_ty": sub, "fn_loc": Term("loc")}),
        "FunctionPointer": Variant("Ty::FunctionPointer", {"param_tys": [], "return_ty": sub}),
        "AnonStruct": Variant("Ty::AnonStruct", {"members": [mem]}), "ConcreteStruct": Variant("Ty::ConcreteStruct", {"uid": 1, "members": [mem]}),
        "Enum": Variant("Ty::Enum", {"uid": 1, "variants": [var]}), "Optional": Variant("Ty::Optional", {"sub_ty": sub}),
        "ErrorUnion": Variant("Ty::ErrorUnion", {"error_ty": sub, "payload_ty": sub}),
    }


def r07d(ctx, run):
    """Engler's belief/use contradiction across crates: every `unreachable!()` arm of the operator code generator states
    the belief 'the type checker rejects this combination'; the belief is compared with what TypedOp::can_perform accepts"""
    from absint import Interp, Variant, Term, Obj, Panic, CannotEstablish
    import c08
    cp = [f for f in ctx.syn.fns_in("hir/src/common/ty.rs") if f.qual == "BinaryOp::can_perform" and f.body is not None]
    if len(cp) != 1:
        raise LookupError("impl TypedOp for BinaryOp: can_perform")
    cp = cp[0]
    _, en = ctx.syn.item("enum", "BinaryOp", "hir/src/body.rs")
    ops = [v["n"] for v in en["variants"]]
    samples = _ty_samples()

    QI0 = make_ty_interp(ctx)

    def accepted(op, kind):
        it = QI0()
        names = cp.param_names()
        return it.run_fn(cp, {"self": Variant("BinaryOp::" + op), names[-1]: samples[kind]})

    # (1) the logical operators never reach the numeric selector
    cb = ctx.syn.fn("FunctionCompiler::compile_binary", "codegen/src/compiler/functions.rs")
    first = [m for m in synq.matches_on(cb.body) if canon(m["e"]) == "op"]
    early = {}
    if first:
        for h, p, g, b, arm in synq.match_table(first[0]):
            if h and "return" in canon(b):
                early[synq.last_seg(h)] = canon(b)
    for op, helper_fn in (("LAnd", "logical_and"), ("LOr", "logical_or")):
        run.check(op in early and helper_fn in early[op], cb.site(), "%s is compiled by %s before operand types are looked at" % (op, helper_fn), cb.qual, "logical:" + op,
                  cb.file, cb.ln, "%s must be dispatched to %s at the top of compile_binary (compile_num_binary has no arm for it)" % (op, helper_fn))
    # (2) numeric classes: float / int / bool
    nb = ctx.syn.fn("FunctionCompiler::compile_num_binary")
    for cls, kinds, float_, signed in (("float", ("Float",), True, True), ("integer", ("IInt", "UInt"), False, True), ("bool/char", ("Bool", "Char"), False, False)):
        for op in ops:
            if op in ("LAnd", "LOr"):
                continue
            try:
                acc = [k for k in kinds if accepted(op, k)]
            except (Panic, CannotEstablish) as c:
                run.finding(cp.qual, "accept:%s:%s" % (op, cls), cp.file, cp.ln, "cannot establish whether %s is accepted on %s: %s" % (op, cls, getattr(c, "what", c)))
                continue
            it = c08.I()
            env = {"self": Obj("self", builder=c08.BUILDER), "lhs": Term("lhs"), "rhs": Term("rhs"),
                   "ty": c08.numty("F64" if float_ else "I32", float_, signed), "op": Variant("hir::BinaryOp::" + op)}
            try:
                it.run_fn(nb, env)
                builds = True
            except Panic:
                builds = False
            if acc and not builds:
                run.finding(nb.qual, "accepted-but-unbuildable:%s:%s" % (op, cls), nb.file, nb.ln,
                            "the type checker accepts `%s` on %s operands (can_perform(%s) is true for %s) but compile_num_binary's %s arm is unreachable!(): a "
                            "program without any diagnostic panics in code generation instead of being built" % (op, cls, op, acc, "float" if float_ else "integer"))
            else:
                run.ok(nb.site(), "%s on %s: accepted=%s, code generator %s" % (op, cls, bool(acc), "has an arm" if builds else "believes it unreachable"))
    # (3) == / != on non-numeric kinds: compile_complex_compare's per-kind arm
    cc = ctx.syn.fn("FunctionCompiler::compile_complex_compare", "codegen/src/compiler/functions.rs")
    ms = [m for m in synq.matches_on(cc.body) if "absolute_ty" in canon(m["e"])]
    if len(ms) != 1:
        raise LookupError("match ty.absolute_ty() in compile_complex_compare")
    arms = {}
    for h, p, g, b, arm in synq.match_table(ms[0]):
        if h:
            bb = synq.strip_block(b)
            arms[synq.last_seg(h)] = (bb.get("k") == "macro" and bb["name"].rsplit("::", 1)[-1] in ("unreachable", "todo", "unimplemented", "panic"), arm["ln"])
    # kinds handled before the match: number-typed (FinalTy::Number) and zero-sized
    conv = ctx.syn.fn("calc_single", "codegen/src/convert.rs")
    fm = [m for m in synq.matches_on(conv.body) if canon(m["e"]) == "ty.as_ref()"]
    number_kinds = set()
    for h, p, g, b, arm in synq.match_table(fm[0]) if fm else []:
        if h and ("FinalTy::Number" in canon(b) or "finalize_int" in canon(b)):
            number_kinds.add(synq.last_seg(h))
    if not {"IInt", "UInt", "Float", "Bool"} <= number_kinds:
        raise LookupError("number-typed kinds in convert::calc_single: %s" % sorted(number_kinds))
    for kind in samples:
        if kind in number_kinds:
            continue
        for op in ("Eq", "Ne"):
            try:
                acc = accepted(op, kind)
            except (Panic, CannotEstablish) as c:
                run.finding(cp.qual, "accept:%s:%s" % (op, kind), cp.file, cp.ln, "cannot establish whether %s is accepted on %s: %s" % (op, kind, getattr(c, "what", c)))
                continue
            if kind not in arms:
                run.finding(cc.qual, "no-arm:%s" % kind, cc.file, ms[0]["ln"], "compile_complex_compare has no arm for Ty::%s" % kind)
                continue
            panics, ln = arms[kind]
            if acc and panics:
                run.finding(cc.qual, "accepted-but-unbuildable:%s:%s" % (op, kind), cc.file, ln,
                            "the type checker accepts `%s` between two values of the same %s type (can_perform is true and max(T, T) = T) but the code generator's "
                            "arm for Ty::%s is unreachable!(): a program without any diagnostic panics in code generation instead of being built"
                            % ("==" if op == "Eq" else "!=", kind, kind))
            else:
                run.ok(cc.site(ln), "%s on %s: accepted=%s, code generator %s" % (op, kind, acc, "believes it unreachable" if panics else "has an arm"))


def r07e(ctx, run):
    """a global whose initialiser is not constant must be REPORTED (GlobalNotConst): otherwise it reaches code generation, which panics on a
    non-compilable constant - no error, no executable (shared with C15 R15.d)"""
    import c15
    c15.r15d(ctx, run)


def r07g(ctx, run):
    """`ExprIsConst::Unknown` means "not constant, and say nothing: an error was already reported": get_const answering Unknown (or Const) for an
    expression that is merely not constant drops the diagnostic while the caller still takes the failure path - no error, no executable (shared
    with C15 R15.b: the classification per expression kind)"""
    import c15
    c15.r15b(ctx, run)


def cast_samples():
    from absint import Variant, Term
    V = Variant
    i32, u8, f64, ch, b = V("Ty::IInt", {"0": 32}), V("Ty::UInt", {"0": 8}), V("Ty::Float", {"0": 64}), V("Ty::Char"), V("Ty::Bool")
    st = V("Ty::String")

    def ptr(t, m=False):
        return V("Ty::Pointer", {"mutable": m, "sub_ty": t})

    def arr(t, n=3):
        return V("Ty::ConcreteArray", {"size": n, "sub_ty": t})
    var_a = V("Ty::EnumVariant", {"enum_uid": 2, "variant_name": Term("A"), "uid": 3, "sub_ty": i32, "discriminant": 0})
    var_b = V("Ty::EnumVariant", {"enum_uid": 2, "variant_name": Term("B"), "uid": 4, "sub_ty": V("Ty::Void"), "discriminant": 1})
    return {
        "i32": i32, "u8": u8, "f64": f64, "char": ch, "bool": b, "str": st, "^char": ptr(ch), "^u8": ptr(u8), "^i32": ptr(i32), "^mut i32": ptr(i32, True),
        "rawptr": V("Ty::RawPtr", {"mutable": False}), "mut rawptr": V("Ty::RawPtr", {"mutable": True}), "[]i32": V("Ty::Slice", {"sub_ty": i32}), "[]char": V("Ty::Slice", {"sub_ty": ch}),
        "rawslice": V("Ty::RawSlice"), "[3]char": arr(ch), "[3]u8": arr(u8), "[3]i32": arr(i32), "[3]f64": arr(f64), "any": V("Ty::Any"), "nil": V("Ty::Nil"), "void": V("Ty::Void"),
        "?i32": V("Ty::Optional", {"sub_ty": i32}), "?^i32": V("Ty::Optional", {"sub_ty": ptr(i32)}), "?f64": V("Ty::Optional", {"sub_ty": f64}),
        "str!i32": V("Ty::ErrorUnion", {"error_ty": st, "payload_ty": i32}), "distinct i32": V("Ty::Distinct", {"uid": 1, "sub_ty": i32}), "distinct str": V("Ty::Distinct", {"uid": 5, "sub_ty": st}),
        "E.A(i32)": var_a, "E.B": var_b, "enum E": V("Ty::Enum", {"uid": 2, "variants": [var_a, var_b]}),
    }


def cast_evaluator(ctx):
    """(accepts(A, B), build(A, B) -> list of helper calls; raises Panic / CannotEstablish): Ty::can_cast_to and cast_into_memory evaluated from source"""
    import c12
    from symint import SymInterp
    from absint import Obj, Term, Variant, Panic, CannotEstablish, _Return
    TY = "hir/src/common/ty.rs"
    cm = ctx.syn.fn("cast_into_memory", "codegen/src/compiler/mod.rs")
    ty_fns = {}
    for f in ctx.syn.fns_in(TY):
        if f.body is not None and not f.in_test and (f.qual.startswith("Ty::") or "absolute_intern_ty" in f.qual):
            ty_fns.setdefault(f.qual.rsplit("::", 1)[-1], f)
    NUM = ("IInt", "UInt", "Float", "Bool", "Char")
    W = c12.World(ctx)

    def is_ty(v):
        return isinstance(v, Variant) and v.path.startswith("Ty::") if hasattr(v, "path") else (isinstance(v, Variant))

    class CI(c12.NI):
        def default_method(self, recv, m, args, e):
            if isinstance(recv, Variant) and recv.last in ("Number", "Pointer", "VoidTy") and m in ("into_real_type", "is_pointer_type", "is_number_type"):
                return Term(m, recv)
            if isinstance(recv, Variant):
                if m in ("as_ref", "deref", "clone", "into", "borrow"):
                    return recv
                if m in ("can_cast_to", "can_fit_into", "is_functionally_equivalent_to", "is_weak_replaceable_by", "max", "might_be_weak", "has_semantics_of"):
                    return W.call(m, recv, list(args))
                if m == "get_final_ty":
                    a = recv
                    while a.last in ("Distinct", "EnumVariant"):
                        a = a.payload["sub_ty"]
                    if a.last in NUM:
                        return Variant("FinalTy::Number", {"0": Term("numty", a)})
                    if a.last in ("Void", "Nil", "AlwaysJumps"):
                        return Variant("FinalTy::Void")
                    return Variant("FinalTy::Pointer", {"0": Term("ptr_ty")})
                if m in ("enum_layout", "struct_layout", "size", "align", "stride", "align_shift", "to_type_id", "to_previous_type_id"):
                    return Term(m, recv)
                f = ty_fns.get(m)
                if f is not None:
                    return self.inline(f, args, recv=recv)
            if recv is None or isinstance(recv, (Term, Obj)):
                if m == "expect" and recv is None:
                    raise Panic("expect on None")
                return Term(m, recv)
            return super().default_method(recv, m, args, e)

        def eval(self, e, env):
            if e["k"] == "try":
                return self.eval(e["e"], env)
            if e["k"] == "un" and e.get("op") == "*":
                return self.eval(e["e"], env)
            return super().eval(e, env)

    def mk_assert(kind):
        def f(i, e, env):
            a = e.get("a", [])
            try:
                if kind == "assert" and a:
                    v = i.eval(a[0], env)
                    if v is False:
                        raise Panic("assert!(%s) fails" % canon(a[0])[:60])
                if kind == "assert_eq" and len(a) >= 2:
                    x, y = i.eval(a[0], env), i.eval(a[1], env)
                    if isinstance(x, (Variant, int, bool)) and isinstance(y, (Variant, int, bool)) and type(x) == type(y) and x != y:
                        raise Panic("assert_eq!(%s, %s) fails" % (canon(a[0])[:30], canon(a[1])[:30]))
            except CannotEstablish:
                pass
            return None
        return f
    helpers = ("cast_struct_to_struct", "cast_array_to_array", "create_nil_value", "optional_map", "error_union_map", "cast_payload_into_tagged_union", "cast_num",
               "layout::padding_needed_for")

    def accepts(A, B):
        return W.call("can_cast_to", A, [B])

    def build(A, B):
        calls_log = []
        funcs = {h: (lambda i, a, h=h: (calls_log.append((h, a)), Term(h))[1]) for h in helpers}
        funcs["cast_into_memory"] = lambda i, a: (calls_log.append(("cast_into_memory", a)), Term("recursive cast"))[1]
        funcs["Some"] = lambda i, a: a[0]
        funcs["MemFlags::trusted"] = lambda i, a: Term("trusted")
        funcs["MemFlags::new"] = lambda i, a: Term("memflags")
        it = CI(funcs=funcs, macros={"assert": mk_assert("assert"), "assert_eq": mk_assert("assert_eq"), "debug_assert": mk_assert("assert")})
        it.world = None
        env = {"meta_tys": Term("meta_tys"), "module": Term("module"), "builder": Term("builder"), "func_writer": Term("fw"), "ptr_ty": Term("ptr_ty"), "val": Term("val"),
               "cast_from": A, "cast_to": B, "memory": None}
        it.run_fn(cm, env)
        return calls_log
    return cm, accepts, build


def r07h(ctx, run):
    """every cast the checker accepts (Ty::can_cast_to, evaluated from its source) is one cast_into_memory can build: its dispatch, evaluated from its
    source for the same pair, must not end in a panic!/unreachable!/failed assert (accepted without a diagnostic, then no executable)"""
    from absint import Panic, CannotEstablish
    cm, accepts, build = cast_evaluator(ctx)
    samples = cast_samples()
    n_acc, n_all = 0, 0
    for an, A in samples.items():
        for bn, B in samples.items():
            if an == bn:
                continue
            n_all += 1
            try:
                acc = accepts(A, B)
            except (Panic, CannotEstablish) as c:
                run.finding("Ty::can_cast_to", "cast-accept:%s->%s" % (an, bn), cm.file, cm.ln, "cannot establish whether the cast %s -> %s is accepted: %s" % (an, bn, getattr(c, "what", c)))
                continue
            if acc is not True:
                continue
            n_acc += 1
            try:
                build(A, B)
                run.ok(cm.site(), "accepted cast %s -> %s is built" % (an, bn))
            except Panic as p_:
                run.finding("cast_into_memory", "accepted-cast-unbuildable:%s->%s" % (an, bn), cm.file, cm.ln,
                            "the cast %s -> %s is accepted by Ty::can_cast_to but cast_into_memory ends in %s: no diagnostic, no executable (the compiler panics)" % (an, bn, p_.what))
            except CannotEstablish as c:
                run.finding("cast_into_memory", "cast-build:%s->%s" % (an, bn), cm.file, cm.ln, "cannot establish how the accepted cast %s -> %s is built: %s" % (an, bn, getattr(c, "what", c)))
    if n_acc < 100:
        raise LookupError("accepted casts among the sample pairs: %d of %d" % (n_acc, n_all))


def make_ty_interp(ctx, fc=None):
    """interpreter in which Ty's small predicates are evaluated from hir/src/common/ty.rs itself, builder calls are opaque, and (optionally) the named
    FunctionCompiler methods `fc` are inlined"""
    import c12
    from absint import Obj, Term, Variant, Panic, CannotEstablish
    V = Variant
    fc = fc or {}
    TY = "hir/src/common/ty.rs"
    ty_fns = {}
    for f in ctx.syn.fns_in(TY):
        if f.body is not None and not f.in_test and (f.qual.startswith("Ty::") or "absolute_intern_ty" in f.qual):
            ty_fns.setdefault(f.qual.rsplit("::", 1)[-1], f)
    NUM = ("IInt", "UInt", "Float", "Bool", "Char", "Type")

    class QI(c12.NI):
        def default_method(self, recv, m, args, e):
            if isinstance(recv, Obj) and recv.name == "self" and m in fc:
                return self.inline(fc[m], args, recv=recv)
            if isinstance(recv, Variant) and recv.path.startswith("FinalTy"):
                if m == "is_number_type":
                    return recv.last == "Number"
                if m == "into_real_type":
                    return None if recv.last == "Void" else Term("real_ty")
            if isinstance(recv, Variant) and recv.path.startswith("Ty::"):
                if m in ("as_ref", "deref", "clone", "into", "borrow"):
                    return recv
                if m == "get_final_ty":
                    a = recv
                    while a.last in ("Distinct", "EnumVariant"):
                        a = a.payload["sub_ty"]
                    if a.last in NUM:
                        return V("FinalTy::Number", {"0": Term("numty")})
                    zs = self.inline(ty_fns["is_zero_sized"], [], recv=a)
                    return V("FinalTy::Void") if zs else V("FinalTy::Pointer", {"0": Term("ptr_ty")})
                if m in ("enum_layout", "struct_layout", "size", "align", "stride", "align_shift"):
                    return Term(m)
                f = ty_fns.get(m)
                if f is not None:
                    return self.inline(f, args, recv=recv)
            if isinstance(recv, list) and m in ("iter", "into_iter"):
                return recv
            # Cranelift's own rule for the instruction stream: after a terminator (jump / brif / return / trap) the current block is filled and takes no
            # further instruction until the builder is switched to another block (FunctionBuilder panics otherwise)
            if isinstance(recv, Term) and recv.op == "ins":
                if getattr(self, "filled", False):
                    raise Panic("`%s` is added to a block that already ends in a jump (cranelift: you cannot add an instruction to a block already filled)" % m)
                if m in ("jump", "brif", "return_", "trap", "br_table"):
                    self.filled = True
                return Term(m)
            if isinstance(recv, Term) and recv.op == "builder" and m == "switch_to_block":
                self.filled = False
                return None
            if recv is None or isinstance(recv, (Term, Obj)):
                return Term(m)
            return super().default_method(recv, m, args, e)

        def eval(self, e, env):
            k = e["k"]
            if k == "try":
                return self.eval(e["e"], env)
            if k == "un" and e.get("op") in ("*", "&"):
                return self.eval(e["e"], env)
            if k == "ref":
                return self.eval(e["e"], env)
            if k == "assign" and e["l"]["k"] == "index":
                return None
            if k == "index":
                b = self.eval(e["e"], env)
                if isinstance(b, Term):
                    return Term("idx")
            if k == "cast":
                return self.eval(e["e"], env)
            if k == "path" and e["p"] not in env and ("::" in e["p"]) and not e["p"].startswith("Ty::") and not e["p"].startswith("hir::BinaryOp"):
                return Term(e["p"])
            return super().eval(e, env)
    return QI


def r07i(ctx, run):
    """== / != on aggregates: TypedOp::can_perform looks at the outermost kind only, compile_complex_compare recurses into element, member, payload and
    variant types.  Both are evaluated from source for one level of nesting: an accepted comparison must not end in an unreachable!() of the code
    generator (an `any`, rawptr, function or zero-sized component)."""
    import c12
    from absint import Obj, Term, Variant, Panic, CannotEstablish, Interp
    V = Variant
    TY = "hir/src/common/ty.rs"
    CG = "codegen/src/compiler/functions.rs"
    cp = [f for f in ctx.syn.fns_in(TY) if f.qual == "BinaryOp::can_perform" and f.body is not None][0]
    ty_fns = {}
    for f in ctx.syn.fns_in(TY):
        if f.body is not None and not f.in_test and (f.qual.startswith("Ty::") or "absolute_intern_ty" in f.qual):
            ty_fns.setdefault(f.qual.rsplit("::", 1)[-1], f)
    fc = {}
    for n in ("compile_complex_compare", "compile_array_compare", "compile_enum_compare", "logical", "logical_and", "logical_or"):
        fc[n] = ctx.syn.fn("FunctionCompiler::" + n, CG)
    NUM = ("IInt", "UInt", "Float", "Bool", "Char", "Type")

    QI = make_ty_interp(ctx, fc)
    i32, st = V("Ty::IInt", {"0": 32}), V("Ty::String")
    comps = {
        "i32": i32, "str": st, "bool": V("Ty::Bool"), "void": V("Ty::Void"), "any": V("Ty::Any"), "rawptr": V("Ty::RawPtr", {"mutable": False}), "rawslice": V("Ty::RawSlice"),
        "fn pointer": V("Ty::FunctionPointer", {"param_tys": [], "return_ty": V("Ty::Void")}), "^i32": V("Ty::Pointer", {"mutable": False, "sub_ty": i32}),
        "[2]i32": V("Ty::ConcreteArray", {"size": 2, "sub_ty": i32}), "?i32": V("Ty::Optional", {"sub_ty": i32}),
    }

    def mem(n, t):
        return Obj("MemberTy", name=Term(n), ty=t)
    ctors = {
        "[2]%s": lambda k: V("Ty::ConcreteArray", {"size": 2, "sub_ty": k}),
        "[]%s": lambda k: V("Ty::Slice", {"sub_ty": k}),
        "?%s": lambda k: V("Ty::Optional", {"sub_ty": k}),
        "str!%s": lambda k: V("Ty::ErrorUnion", {"error_ty": st, "payload_ty": k}),
        "struct{a: i32, b: %s}": lambda k: V("Ty::ConcreteStruct", {"uid": 7, "members": [mem("a", i32), mem("b", k)]}),
        "struct{b: %s, a: i32}": lambda k: V("Ty::ConcreteStruct", {"uid": 8, "members": [mem("b", k), mem("a", i32)]}),
        "struct{z: %s, a: i32, b: i32}": lambda k: V("Ty::ConcreteStruct", {"uid": 11, "members": [mem("z", k), mem("a", i32), mem("b", i32)]}),
        "struct{a: i32, z: %s, b: i32}": lambda k: V("Ty::ConcreteStruct", {"uid": 12, "members": [mem("a", i32), mem("z", k), mem("b", i32)]}),
        "enum{A: %s}": lambda k: V("Ty::Enum", {"uid": 9, "variants": [V("Ty::EnumVariant", {"enum_uid": 9, "variant_name": Term("A"), "uid": 10, "sub_ty": k, "discriminant": 0})]}),
        # `==` on pointers compares what they point at
        "^%s": lambda k: V("Ty::Pointer", {"mutable": False, "sub_ty": k}),
    }
    cc = fc["compile_complex_compare"]
    n = 0
    for cn, mk in ctors.items():
        for kn, K in comps.items():
            name = cn % kn
            T = mk(K)
            for op in ("Eq", "Ne"):
                it0 = QI()
                try:
                    acc = it0.run_fn(cp, {"self": V("BinaryOp::" + op), cp.param_names()[-1]: T})
                except (Panic, CannotEstablish) as c:
                    run.finding(cp.qual, "accept:%s:%s" % (op, name), cp.file, cp.ln, "cannot establish whether %s is accepted on %s: %s" % (op, name, getattr(c, "what", c)))
                    continue
                if acc is not True:
                    run.ok(cp.site(), "%s on %s is rejected by the checker" % (op, name))
                    continue
                n += 1
                it = QI(funcs={"Switch::new": lambda i, a: Term("switch"), "BlockArg::Value": lambda i, a: Term("arg"), "MemFlags::trusted": lambda i, a: Term("trusted"),
                               "Some": lambda i, a: a[0]},
                        macros={"format": lambda i, e, env: "fmt", "vec": lambda i, e, env: [i.eval(a, env) for a in e.get("a", [])],
                                "assert": lambda i, e, env: None, "assert_eq": lambda i, e, env: None})
                selfo = Obj("self", builder=Term("builder"), func_writer=Term("fw"), ptr_ty=Term("ptr_ty"))
                try:
                    it.inline(cc, [Term("lhs"), Term("rhs"), T, V("hir::BinaryOp::" + op)], recv=selfo)
                    run.ok(cc.site(), "%s on %s: accepted and built" % (op, name))
                except Panic as p_:
                    run.finding(cc.qual, "accepted-but-unbuildable:%s:%s" % (op, name), cc.file, cc.ln,
                                "`%s` between two values of type %s is accepted by the checker (can_perform looks at the outermost kind only) but the code generator reaches %s "
                                "for the component: no diagnostic, no executable" % ("==" if op == "Eq" else "!=", name, p_.what))
                except CannotEstablish as c:
                    run.finding(cc.qual, "compare-build:%s:%s" % (op, name), cc.file, cc.ln, "cannot establish how %s on %s is built: %s" % (op, name, getattr(c, "what", c)))
    if n < 60:
        raise LookupError("accepted nested comparisons: %d" % n)


def r07j(ctx, run):
    """a jump inside a comptime block (or lambda) that names a label of the surrounding code must be REPORTED: the nested body is compiled as a function of
    its own where that label does not exist; if lowering lets it resolve, no diagnostic is produced and the code generator panics (shared with C05 R05.d:
    nested bodies set the label stack aside)"""
    import c05
    c05.r05d(ctx, run)


def r07f(ctx, run):
    import c12
    c12.noeval_law(ctx, run, clauses=("wrapped",))


def r07k(ctx, run):
    """a slice made from an array refers to the array's own memory: the conversion is only sound when the elements already have the representation of
    the slice's elements.  For every pair of scalar element types, `[N]a -> []b` (array literal or named array) accepted by can_fit_into implies that
    `a` is retyped to `b` (weak literal elements, is_weak_replaceable_by) or is the same representation (is_functionally_equivalent_to) - otherwise the
    code generator hands out a pointer to elements of another width (`s : []u64 = .[x, y]` with x, y : u8 printed 513)."""
    import c12
    from absint import Variant, Panic, CannotEstablish
    w = c12.World(ctx)
    f = w.fns["can_fit_into"]
    sc = c12.scalars()
    n = 0
    for kind in ("AnonArray", "ConcreteArray"):
        for an, a in sc.items():
            for bn, b in sc.items():
                if bn.startswith("{"):
                    continue    # a slice's declared element type is never a weak literal type
                A, B = Variant("Ty::" + kind, {"size": 2, "sub_ty": a}), Variant("Ty::Slice", {"sub_ty": b})
                key = "array-to-slice:%s:%s->%s" % (kind, an, bn)
                try:
                    acc = w.call("can_fit_into", A, [B])
                    if acc is not True:
                        n += 1
                        continue
                    same = w.call("is_functionally_equivalent_to", a, [b, False]) is True
                    weak = w.call("is_weak_replaceable_by", a, [b]) is True
                except (Panic, CannotEstablish) as c:
                    run.finding("Ty::can_fit_into", key, f.file, f.ln, "cannot establish whether %s of %s is accepted as a slice of %s: %s" % (kind, an, bn, getattr(c, "what", c)))
                    continue
                n += 1
                if not (same or weak):
                    run.finding("Ty::can_fit_into", key, f.file, f.ln,
                                "%s of %s is accepted where a slice of %s is expected, but the elements are neither retyped (not weak) nor of the same representation: the slice "
                                "points at the array's %s elements and reads them as %s" % ("an array literal" if kind == "AnonArray" else "an array", an, bn, an, bn))
    run.check(n >= 400, f.site(), "array -> slice: %d element pairs: accepted only when the elements are retyped or share the representation" % n, "Ty::can_fit_into", "array-to-slice-evaluated",
              f.file, f.ln, "only %d array -> slice pairs could be evaluated" % n)


def r07l(ctx, run):
    """what a nested comparison is handed: an aggregate component is compared through its ADDRESS, a scalar component through its LOADED value (the
    struct-member, array-element and payload arms all ask `is_aggregate()`).  compile_complex_compare is evaluated one level deep for every kind of
    component behind a pointer, in a struct and in an optional; the operands of the nested comparison must have the representation of the component's
    type - a pointer to a struct compared by loading eight bytes of the struct and using them as its address crashes the built program."""
    from absint import Obj, Term, Variant, Panic, CannotEstablish
    V = Variant
    CG = "codegen/src/compiler/functions.rs"
    fc = {n: ctx.syn.fn("FunctionCompiler::" + n, CG) for n in ("compile_complex_compare", "logical", "logical_and", "logical_or")}
    cc = fc["compile_complex_compare"]
    QI = make_ty_interp(ctx, fc)
    i32 = V("Ty::IInt", {"0": 32})

    def mem(n, t):
        return Obj("MemberTy", name=Term(n), ty=t)
    S = V("Ty::ConcreteStruct", {"uid": 7, "members": [mem("a", i32), mem("b", i32)]})
    comps = {"i32": (i32, False), "str": (V("Ty::String"), False), "struct": (S, True), "[2]i32": (V("Ty::ConcreteArray", {"size": 2, "sub_ty": i32}), True),
             "[]i32": (V("Ty::Slice", {"sub_ty": i32}), True), "?i32": (V("Ty::Optional", {"sub_ty": i32}), True), "^i32": (V("Ty::Pointer", {"mutable": False, "sub_ty": i32}), False)}
    outers = {"^%s": lambda k: V("Ty::Pointer", {"mutable": False, "sub_ty": k}),
              "struct{x: i32, y: %s}": lambda k: V("Ty::ConcreteStruct", {"uid": 8, "members": [mem("x", i32), mem("y", k)]})}
    n = 0
    for on, mk in outers.items():
        for kn, (K, aggr) in comps.items():
            T = mk(K)
            name = on % kn
            log = []

            class RI(QI):
                depth = 0

                def default_method(self, recv, m, args, e):
                    if isinstance(recv, Obj) and recv.name == "self" and m in ("compile_complex_compare", "compile_array_compare", "compile_enum_compare") and RI.depth >= 1:
                        log.append((m, args))
                        return Term("cmp")
                    if isinstance(recv, Obj) and recv.name == "self" and m == "compile_num_binary":
                        log.append((m, args))
                        return Term("cmp")
                    if m == "load" and len(args) == 4:
                        return Term("load", args[2], args[3])
                    if m in ("iadd_imm", "iadd") and len(args) == 2:
                        return Term("addr+", args[0], args[1])
                    if isinstance(recv, Term) and recv.op == "struct_layout" and m == "offsets":
                        return [8 * i_ for i_ in range(8)]
                    return super().default_method(recv, m, args, e)
            it = RI(funcs={"BlockArg::Value": lambda i, a: Term("arg"), "MemFlags::trusted": lambda i, a: Term("trusted"), "Some": lambda i, a: a[0]},
                    macros={"format": lambda i, e, env: "fmt", "assert": lambda i, e, env: None, "assert_eq": lambda i, e, env: None})
            it.methods["unwrap"] = lambda i, r, a: r
            selfo = Obj("self", builder=Term("builder"), func_writer=Term("fw"), ptr_ty=Term("ptr_ty"))
            RI.depth = 1
            try:
                it.run_fn(cc, {"self": selfo, cc.param_names()[1]: Term("LHS"), cc.param_names()[2]: Term("RHS"), cc.param_names()[3]: T, cc.param_names()[4]: V("hir::BinaryOp::Eq")})
            except Panic as p_:
                continue    # an unbuildable component is R07.i's finding
            except CannotEstablish as c:
                run.finding(cc.qual, "operand-repr:" + name, cc.file, cc.ln, "cannot establish what the nested comparison of %s is handed: %s" % (name, getattr(c, "what", c)))
                continue
            # the nested comparison of the component K
            nested = [(m, a) for m, a in log if any(isinstance(x, Variant) and x == K for x in a)]
            if not nested:
                run.finding(cc.qual, "operand-repr:" + name, cc.file, cc.ln, "the comparison of %s does not compare its %s component (calls: %s)" % (name, kn, [m for m, _ in log]))
                continue
            n += 1
            m, a = nested[-1]
            ops = [x for x in a if isinstance(x, Term)][:2]
            loaded = [isinstance(x, Term) and x.op == "load" for x in ops]
            good = (not any(loaded)) if aggr else all(loaded)
            run.check(good, cc.site(), "%s: the %s component is compared through %s" % (name, kn, "its address" if not any(loaded) else "its loaded value"), cc.qual, "operand-repr:" + name, cc.file, cc.ln,
                      "comparing two values of type %s hands the nested comparison of the %s component %s: %s" % (
                          name, kn, " / ".join(repr(x)[:40] for x in ops),
                          "an aggregate is represented by its address - here some of its BYTES are loaded and then used as that address (the built program reads from a wild pointer)" if aggr
                          else "a scalar component must be loaded before it is compared"))
    if n < 10:
        raise LookupError("nested comparisons with a recorded operand: %d" % n)


def r07m(ctx, run):
    """an enum declaration that passes the checker gives Cranelift's Switch distinct entries: the numbering loop of const_ty evaluated on every small
    enum shape (automatic and hand-written discriminants mixed) never gives two variants one value - there is no diagnostic for that, and the code
    generator panics when an exhaustive switch sets the same entry twice (shared with C11 R11.d)"""
    import c11
    c11.r11d(ctx, run)


def r07o(ctx, run):
    """an accepted switch whose arm always jumps is built: such an arm makes no jump to the exit block (shared with C11 R11.h)"""
    import c11
    c11.r11h(ctx, run)


def r07n(ctx, run):
    """weak-type replacement is a second way for an operator to meet a type: `x : f32 = 7 % 2;` is accepted while the operands are weak integers and
    the annotation then pushes f32 into them.  The Binary arm of replace_weak_tys is evaluated from source for every operator and new type
    (a float, a signed and an unsigned integer): the operands may be given the new type only where can_perform (evaluated from ty.rs) allows the
    operator on it - what it allows is what compile_num_binary has an arm for (R07.d)."""
    from absint import Obj, Term, Variant, Panic, CannotEstablish, _Return
    V = Variant
    fn = ctx.syn.fn("GlobalInferenceCtx::replace_weak_tys", "hir_ty/src/globals.rs")
    arms = [(p_, b, a) for m in synq.matches_on(fn.body) if canon(m["e"]) == "expr_body" for h, p_, g, b, a in synq.match_table(m) if h and synq.last_seg(h) == "Binary"]
    if len(arms) != 1:
        raise LookupError("the Binary arm of replace_weak_tys: %d" % len(arms))
    pat, body, arm = arms[0]
    cp = [f for f in ctx.syn.fns_in("hir/src/common/ty.rs") if f.qual == "BinaryOp::can_perform" and f.body is not None]
    if len(cp) != 1:
        raise LookupError("impl TypedOp for BinaryOp: can_perform")
    cp = cp[0]
    _, en = ctx.syn.item("enum", "BinaryOp", "hir/src/body.rs")
    ops = [v["n"] for v in en["variants"]]
    QI = make_ty_interp(ctx)
    fields = {}
    if pat.get("k") == "p_struct":
        for fname, fp in pat.get("f", []):
            if fp is not None and fp.get("k") == "p_ident":
                fields[fname] = fp["n"]
    news = (("f32", V("Ty::Float", {"0": 32})), ("i64", V("Ty::IInt", {"0": 64})), ("u8", V("Ty::UInt", {"0": 8})))
    n = 0
    for op in ops:
        if op in ("LAnd", "LOr", "Lt", "Gt", "Le", "Ge", "Eq", "Ne"):
            continue        # their result is a bool: never weak, never replaced
        for tn, ty in news:
            calls = []

            class RI(QI):
                def default_method(self, recv, m_, args, e):
                    if isinstance(recv, Obj) and recv.name == "self" and m_ == "replace_weak_tys":
                        calls.append((args[0], args[1]))
                        return True
                    if isinstance(recv, Variant) and recv.path.endswith("BinaryOp::" + op) and m_ == "can_perform":
                        return self.inline(cp, args, recv=recv)
                    if m_ in ("insert",) and not isinstance(recv, (list, dict)):
                        return None
                    if m_ == "push" and isinstance(recv, Term) and recv.op == "diagnostics":
                        reported.append(args[0])
                        return None
                    return super().default_method(recv, m_, args, e)

                def eval(self, e, env):
                    if e.get("k") == "index" and canon(e["e"]).startswith("self.tys"):
                        return Term("tys_entry")
                    if e.get("k") == "field" and canon(e).startswith("self.tys"):
                        return Term("tys_entry")
                    if e.get("k") == "field" and canon(e) == "self.diagnostics":
                        return Term("diagnostics")
                    if e.get("k") == "struct" and e["p"].endswith("TyDiagnostic"):
                        return Obj("TyDiagnostic", kind=next((canon(f_[1]) for f_ in e["f"] if f_[0] == "kind"), ""))
                    return super().eval(e, env)
            reported = []
            it = RI()
            env = {"self": Obj("self"), "expr": Term("e_bin"), "new_ty": ty, "found_ty": V("Ty::UInt", {"0": 0}), "really_replaced": True}
            for fname, var in fields.items():
                env[var] = V("BinaryOp::" + op) if fname == "op" else Term(fname)
            key = "weak-replace:%s:%s" % (op, tn)
            try:
                allowed = QI().run_fn(cp, {"self": V("BinaryOp::" + op), cp.param_names()[-1]: ty})
                try:
                    it.eval(body, env)
                except _Return:
                    pass
            except (Panic, CannotEstablish) as c:
                run.finding(fn.qual, key, fn.file, arm["ln"], "cannot establish what replace_weak_tys does with the operands of `%s` for the new type %s: %s" % (op, tn, getattr(c, "what", c)))
                continue
            n += 1
            pushed = [t for t, ty_ in calls if ty_ == ty]
            run.check(allowed is True or not pushed or bool(reported), fn.site(arm["ln"]),
                      "`%s` with a weak result and the new type %s: %s" % (op, tn, ("operands retyped" if allowed is True else "reported as an error") if pushed else "left alone"),
                      fn.qual, key, fn.file, arm["ln"],
                      "the operands of a weak `%s` are given the type %s, without a diagnostic, although the checker's own rule (BinaryOp::can_perform) does not allow `%s` on %s: `x : %s = 7 %s 2;` passes "
                      "the checker and the code generator, which believes the combination impossible, panics" % (op, tn, op, tn, tn, {"Mod": "%", "LShift": "<<", "RShift": ">>"}.get(op, op)))
    if n < 20:
        raise LookupError("operator / type pairs evaluated: %d" % n)


def r07p(ctx, run):
    """`Ty::Unknown` means "no type, and say nothing more: an error was already reported".  const_ty (what does this expression denote as a TYPE?) answering
    Unknown for an expression that is simply not a type, without a diagnostic, leaves a program without errors whose annotation has no type - the code
    generator then panics (`x : comptime { 5 } = 3;`).  Path rule over every arm of const_ty's per-kind table: each path that yields `Ty::Unknown.into()`
    has passed a report (report_non_type / diagnostics.push), or a test that something already is unknown / unsafe to compile (an earlier error)."""
    import paths
    fn = ctx.syn.fn("GlobalInferenceCtx::const_ty", "hir_ty/src/globals.rs")
    tables = [m for m in synq.matches_on(fn.body) if canon(m["e"]) == "&self.bodies[expr]" and len(m["arms"]) >= 8]
    if len(tables) != 1:
        raise LookupError("the per-kind table of const_ty: %d" % len(tables))
    yields = [0]
    for h, p_, g, b, arm in synq.match_table(tables[0]):
        kind = synq.last_seg(h) if h else canon(p_)
        silent = []

        def step(node, st, silent=silent):
            ev, pending = st
            k = node.get("k")
            if k == "mcall" and node["m"] == "into" and canon(node["r"]) == "Ty::Unknown":
                yields[0] += 1
                if not ev:
                    silent.append(node["ln"])
                return (ev, False)
            ev = ev or pending
            pending = False
            if k == "path" and node["p"] == "Ty::Unknown":
                return (ev, True)
            # reports: report_non_type, a pushed diagnostic, expect_match (reports when it answers false); earlier errors: is_unknown, is_safe_to_compile, and
            # get_const answering "not const" (it reports, or says Unknown because something was reported: R07.g)
            if k == "mcall" and (node["m"] in ("report_non_type", "is_unknown", "is_safe_to_compile", "expect_match", "get_const") or (node["m"] == "push" and canon(node["r"]).endswith("diagnostics"))):
                return (True, False)
            if k == "path" and node["p"] in ("Expr::Missing",):
                return (True, False)
            return (ev, pending)
        body = b if b.get("k") == "block" else {"k": "block", "s": [{"k": "expr", "e": b}], "ln": arm["ln"]}
        init = (kind == "Missing", False)      # a Missing expression is the parser's error
        paths.run(body, init, step)
        lines = sorted(set(silent))
        run.check(not lines, fn.site(arm["ln"]), "Expr::%s: every Unknown answer follows a report or an earlier error" % kind, fn.qual, "silent-unknown:" + kind, fn.file,
                  lines[0] if lines else arm["ln"],
                  "const_ty answers Ty::Unknown for an Expr::%s (line %s) on a path without any report and without a test that an error already exists: an expression that "
                  "is not a type is accepted silently as an annotation and the code generator meets an untyped expression" % (kind, ", ".join(map(str, lines))))
    if yields[0] < 8:
        raise LookupError("Ty::Unknown answers in const_ty's table: %d" % yields[0])


def rules(ctx):
    return [
        Rule("R07.a", "the error gate (both diagnostic sources, exit 1) and the unsafe assert dominate every code-generation call; comptime evaluation is guarded", 12, r07a),
        Rule("R07.b", "every TyDiagnostic literal names its expression (6+1 enumerated exceptions)", 75, r07b),
        Rule("R07.d", "operator/type combinations the checker accepts are ones the code generator has an arm for (belief vs use, across crates)", 80, r07d),
        Rule("R07.e", "every path that finishes a global's body passes the GlobalNotConst test (must-pass-through on MIR)", 1, r07e),
        Rule("R07.h", "every cast Ty::can_cast_to accepts is one cast_into_memory can build (both evaluated from source over 31 x 30 type pairs)", 100, r07h),
        Rule("R07.l", "a nested comparison is handed the address of an aggregate component and the loaded value of a scalar one (behind a pointer, in a struct)", 10, r07l),
        Rule("R07.k", "array -> slice is accepted only when the element representation is kept (the slice aliases the array's memory)", 1, r07k),
        Rule("R07.i", "== / != on aggregates: every component type the comparison recurses into has a code-generator arm (checker and generator evaluated one level deep)", 60, r07i),
        Rule("R07.m", "an accepted enum declaration has pairwise distinct discriminants (no diagnostic exists for a clash and the code generator panics on one; shared with C11 R11.d)", 2, r07m),
        Rule("R07.o", "arms of a value-yielding switch that always jump make no jump to the exit block (Cranelift's verifier rejects it; shared with C11 R11.h)", 4, r07o),
        Rule("R07.n", "weak-type replacement gives the operands of a binary operator a new type only where can_perform allows the operator on it (Binary arm of replace_weak_tys evaluated)", 20, r07n),
        Rule("R07.p", "const_ty answers Unknown only after a report or an earlier error, on every path of every arm (path rule)", 8, r07p),
        Rule("R07.j", "nested bodies (lambda, comptime) set the enclosing params, scopes and labels aside: a jump to an outer label is reported, not compiled (shared with C05 R05.d)", 4, r07j),
        Rule("R07.g", "get_const's classification per expression kind: Unknown (= stay silent) only where an error was already reported (shared with C15 R15.b)", 60, r07g),
        Rule("R07.f", "the common type of a branch that always jumps and any other branch never wraps `noeval` in a constructor (no code-generator support, no diagnostic)", 60, r07f),
        Rule("R07.c", "is_safe_to_compile: complete error set, membership first, Missing/unknown/unlabelled unsafe; severity mapping", 11, r07c),
    ]

"""C10 — out-of-range indexing and wrong #unwrap abort before touching memory (DESIGN §3 C10)."""
from core import Rule
import synq
from synq import canon, walk
import facts as FA
from facts import short, strip_generics, show_chain, walk_chain, chain_calls

PROPERTY = "C10"
TITLE = "Out-of-range indexing and wrong #unwrap always abort before touching memory"
NEEDS = ("syn", "facts")
TECHNIQUE = ("static analysis: dominance on the code generator's MIR CFG (check emitted before access), def-use chains for condition code / operands / length source, "
             "call-sequence rule for the fault path, path rules over the Index and Member arms (no result before the index is evaluated and checked), "
             "abstract evaluation of get_tagged_union_discrim (the tag #unwrap compares with)")
EXPLANATION = (
    "Engine A: inside the Expr::Index arm of the code generator, every instruction that forms or uses the element address "
    "(iadd(source, byte_offset), the element load, the returned address) is emitted in a MIR block dominated by the call "
    "compile_unreachablez(c, ..) where c = icmp(UnsignedLessThan, index, len) (or the mirrored form), index is the pointer-width "
    "cast of the index expression and also the value scaled into the byte offset, and len is the array length constant or the "
    "word at offset 0 of the slice; in the #unwrap arm, unwrap_sum_ty is dominated by compile_unreachablez(icmp_imm(Equal, "
    "load(I8 @discriminant_offset), desired)) for tagged unions and by the Equal/NotEqual-0 test for nullable pointers; the "
    "fault path branches brif(cond, pass, fail) and calls puts(message), exit(1), trap in that order. Engine B: a literal "
    "index >= the array size is rejected by the type checker.")
NOT_DECIDED = [
    "that the length word stored in a slice header is the true length of the pointee (value-level)",
    "signedness of the index cast for negative indices narrower than the pointer width (decided under C08 R08.b: extension by source signedness)",
]
ASSUMPTIONS = ["code emitted after compile_unreachablez returns goes into the `pass` block (switch_to_block(pass) is its last action: checked by R10.c)"]

FCE = "codegen::compiler::functions::FunctionCompiler::compile_expr_with_args"


def arm_lines(sfn, pred):
    for m in synq.matches_on(sfn.body):
        for h, p, g, b, arm in synq.match_table(m):
            if pred(h, p, arm):
                return arm["ln"], arm["end"]
    return None


def calls_in_lines(fn, lo, hi):
    return [c for c in fn.calls() if lo <= c.ln <= hi and c.file == fn.file]


def enum_of(ch):
    if ch.get("kind") == "enum" or (ch.get("kind") == "agg" and ch.get("ak") == "adt" and not ch.get("args")):
        return ch["path"].split("::")[-1]
    return None


def r10a(ctx, run):
    F = ctx.facts
    fn = F.fn(FCE)
    sfn = ctx.syn.fn("FunctionCompiler::compile_expr_with_args", "codegen/src/compiler/functions.rs")
    rng = arm_lines(sfn, lambda h, p, arm: h.endswith("Expr::Index") and arm["end"] - arm["ln"] > 20)
    if rng is None:
        raise LookupError("Expr::Index arm")
    lo, hi = rng
    cs = calls_in_lines(fn, lo, hi)
    checks = [c for c in cs if short(c.callee) == "compile_unreachablez"]
    if len(checks) != 1:
        # the check may have been moved into a helper of the function compiler: its comparison is looked at there (the other clauses are not carried through
        # a helper, so the rule still fails closed)
        via = []
        for c in cs:
            if "FunctionCompiler" not in c.callee or short(c.callee) in ("compile_unreachablez", "compile_expr", "compile_expr_with_args"):
                continue
            try:
                h = F.fn(strip_generics(c.callee))
            except Exception:
                continue
            hc = [x for x in h.calls() if short(x.callee) == "compile_unreachablez"]
            if len(hc) == 1:
                cond = h.chain_operand(hc[0].args[1], depth=12)
                if cond.get("kind") == "call" and short(cond["callee"]) == "icmp" and len(cond["args"]) == 4:
                    via.append((c, hc[0], enum_of(cond["args"][1])))
        for c, hc0, cc in via:
            if cc not in ("UnsignedLessThan", "UnsignedGreaterThan"):
                run.finding(FCE, "index-cc", hc0.file, hc0.ln, "the bounds check of the Expr::Index arm (moved into %s) compares with IntCC::%s; it must be `index <u len`: a signed "
                            "comparison lets an index of 2^63 or more (a wrapped counter, usize.(-1)) pass as negative, any other code admits index == len" % (short(c.callee), cc))
        run.finding(FCE, "index-check-count", fn.file, lo, "expected exactly one bounds check (compile_unreachablez) in the Expr::Index arm, found %d%s" % (
            len(checks), " (a helper holds one: %s - its operands and dominance are not established through the call)" % ", ".join(short(c.callee) for c, _, _ in via) if via else ""))
        return
    U = checks[0]
    cond = fn.chain_operand(U.args[1], depth=12)
    site = U.site()
    good_cmp = False
    idx_chain = len_chain = None
    if cond.get("kind") == "call" and short(cond["callee"]) == "icmp" and len(cond["args"]) == 4:
        cc = enum_of(cond["args"][1])
        a, b = cond["args"][2], cond["args"][3]
        if cc == "UnsignedLessThan":
            idx_chain, len_chain, good_cmp = a, b, True
        elif cc == "UnsignedGreaterThan":
            idx_chain, len_chain, good_cmp = b, a, True
        run.check(good_cmp, site, "bounds condition is icmp(%s, ..)" % cc, FCE, "index-cc", U.file, U.ln,
                  "the bounds condition uses IntCC::%s; it must be `index <u len` (UnsignedLessThan(index, len) or UnsignedGreaterThan(len, index)): "
                  "any other code admits index == len or negative indices" % cc)
    else:
        run.finding(FCE, "index-cond", U.file, U.ln, "bounds check condition is not an icmp: %s" % show_chain(cond, 4)[:100])
    if not good_cmp:
        return
    # index operand: pointer-width cast of the index expression
    ok_idx = idx_chain.get("kind") == "call" and short(idx_chain["callee"]) == "cast_ty_to_cranelift"
    run.check(ok_idx, site, "compared index = cast_ty_to_cranelift(index value) [%s]" % show_chain(idx_chain, 2)[:60], FCE, "index-operand", U.file, U.ln,
              "the value compared with the length is not the pointer-width cast of the index expression: %s" % show_chain(idx_chain, 4)[:100])
    # len operand: iconst(ptr_ty, as_array len) or load(ptr_ty, _, source, 0)
    opts = len_chain["opts"] if len_chain.get("kind") == "phi" else [len_chain]
    flat = []
    for o in opts:
        if o.get("kind") == "place" and o["base"].get("kind") == "phi":
            flat += o["base"]["opts"]
        elif o.get("kind") == "place":
            flat.append(o["base"])
        else:
            flat.append(o)
    srcs = set()
    for o in flat:
        for n in walk_chain(o):
            if n.get("kind") == "call" and short(n["callee"]) == "iconst" and FA.chain_has_call(n, "as_array"):
                srcs.add("array-len-const")
            if n.get("kind") == "call" and short(n["callee"]) == "load" and len(n["args"]) >= 5 and n["args"][4].get("kind") == "scalar" and n["args"][4]["value"] == "0":
                srcs.add("slice-len-word@0")
    run.check(srcs == {"array-len-const", "slice-len-word@0"}, site, "length sources: %s" % sorted(srcs), FCE, "index-len", U.file, U.ln,
              "the length compared against must be the array's static length or the slice's word at offset 0; found sources %s in %s" % (sorted(srcs), show_chain(len_chain, 5)[:120]))
    # a slice is { len @0, data pointer @ptr }: the length that is compared and the data pointer the element address is built from must be read from
    # the SAME header address (after the extra pointer levels of auto-deref were chased)
    loads = [c for c in cs if short(c.callee) == "load" and "cranelift" in c.callee and len(c.args) >= 5]
    # the length load is the load nearest to the root of the compared length's chain (not a load further down its address chain)
    def nearest_load(root):
        q = [root]
        while q:
            n = q.pop(0)
            if not isinstance(n, dict):
                continue
            if n.get("kind") == "call" and short(n.get("callee", "")) == "load" and len(n.get("args", [])) >= 5 and n["args"][4].get("kind") == "scalar" and str(n["args"][4].get("value")) == "0":
                return n
            if n.get("kind") == "call" and short(n.get("callee", "")) == "iconst":
                continue
            for v in n.values():
                if isinstance(v, dict):
                    q.append(v)
                elif isinstance(v, list):
                    q.extend(x for x in v if isinstance(x, dict))
        return None
    ln_node = nearest_load(len_chain)
    len_loads = [c for c in loads if ln_node is not None and (c.callee, c.ln, c.bb) == (ln_node["callee"], ln_node.get("ln"), ln_node.get("bb"))]
    data_loads = [c for c in loads if FA.chain_has_call(fn.chain_operand(c.args[4], depth=6), "bytes")]
    if len_loads and data_loads:
        def ident(c):
            ch = fn.chain_operand(c.args[3], depth=8)
            while ch.get("kind") in ("copy", "move") and isinstance(ch.get("of"), dict):
                ch = ch["of"]
            # a MIR local is identified by its number; anything else by its printed chain
            return (ch.get("var") or ch.get("name"), ch.get("local") if ch.get("local") is not None else show_chain(ch, 6))
        li, di = ident(len_loads[0]), ident(data_loads[0])
        run.check(li == di, len_loads[0].site(), "slice length and data pointer are read from the same header address (%s)" % (li[0] or li[1][:40]), FCE, "index-len-same-header",
                  len_loads[0].file, len_loads[0].ln,
                  "the slice length compared by the bounds check is read from `%s` but the data pointer from `%s`: behind two or more pointers the check compares the index "
                  "with something that is not the slice's length" % (li[0] or li[1][:60], di[0] or di[1][:60]))
        # ... and at the same TIME: no user code (the index expression) is compiled between the two reads of the header, or it could replace the slice
        # after its length was taken (`s[shrink(^mut s)]` checked against the old length, read through the new data pointer)
        L, D = len_loads[0], data_loads[0]
        between = [c for c in cs if short(c.callee) in ("compile_expr", "compile_expr_with_args", "compile_and_cast", "compile_and_cast_with_args") and "FunctionCompiler" in c.callee
                   and ((fn.can_reach(L.bb, c.bb) and fn.can_reach(c.bb, D.bb) and c.bb not in (L.bb, D.bb)) or (fn.can_reach(D.bb, c.bb) and fn.can_reach(c.bb, L.bb) and c.bb not in (L.bb, D.bb)))]
        run.check(not between, L.site(), "no expression is compiled between the read of the slice's length and the read of its data pointer", FCE, "index-header-read-at-once", L.file, L.ln,
                  "the slice's length (line %d) and its data pointer (line %d) are read on either side of %s (line %d): an index expression that changes the slice makes the bounds check "
                  "compare against a length that no longer belongs to the data that is accessed" % (L.ln, D.ln, short(between[0].callee) if between else "", between[0].ln if between else 0))
    else:
        run.finding(FCE, "index-len-same-header", fn.file, lo, "cannot find the slice header loads of the Expr::Index arm (length loads %d, data-pointer loads %d)" % (len(len_loads), len(data_loads)))
    # accesses dominated by the check
    addr_calls = [c for c in cs if short(c.callee) == "iadd" and "cranelift" in c.callee]
    n_acc = 0
    final_addr_bbs = []
    for c in addr_calls:
        ch = fn.chain_operand(c.args[2], depth=10)
        if FA.chain_has_call(ch, "imul_imm"):
            n_acc += 1
            final_addr_bbs.append(c.bb)
            dom = fn.dominates(U.bb, c.bb) and U.bb != c.bb
            run.check(dom, c.site(), "element address iadd(source, index*stride) is emitted after the bounds check on every path", FCE, "index-addr-dominated", c.file, c.ln,
                      "the element address is formed at a point not dominated by the bounds check: an out-of-range access can be emitted without the check")
            # the scaled index is the compared index
            scaled = [x for x in chain_calls(ch) if short(x["callee"]) == "imul_imm"]
            sv = scaled[0]["args"][1] if scaled else {}
            same = sv.get("kind") == "call" and idx_chain.get("kind") == "call" and (sv["callee"], sv["ln"], sv["bb"]) == (idx_chain["callee"], idx_chain["ln"], idx_chain["bb"])
            run.check(bool(same), c.site(), "the index scaled into the byte offset is the index that was compared", FCE, "index-same-value", c.file, c.ln,
                      "the bounds check compares %s but the address uses %s" % (show_chain(idx_chain, 3)[:60], show_chain(scaled[0]["args"][1], 3)[:60] if scaled else "?"))
            stride = scaled and FA.chain_has_call(scaled[0]["args"][2], "stride")
            run.check(bool(stride), c.site(), "byte offset = index * element stride", FCE, "index-stride", c.file, c.ln, "the index must be scaled by the element type's stride()")
    if n_acc == 0:
        run.finding(FCE, "index-addr-missing", fn.file, lo, "no element address computation iadd(source, imul_imm(index, stride)) found in the Expr::Index arm")
    for c in cs:
        if short(c.callee) == "load" and "cranelift" in c.callee and len(c.args) >= 4:
            ch = fn.chain_operand(c.args[3], depth=8)
            if any(x.get("kind") == "call" and short(x["callee"]) == "iadd" for x in walk_chain(ch)):
                dom = fn.dominates(U.bb, c.bb) and U.bb != c.bb
                run.check(dom, c.site(), "element load is emitted after the bounds check", FCE, "index-load-dominated", c.file, c.ln,
                          "the element load is not dominated by the bounds check")


def r10b(ctx, run):
    F = ctx.facts
    fn = F.fn(FCE)
    sfn = ctx.syn.fn("FunctionCompiler::compile_expr_with_args", "codegen/src/compiler/functions.rs")
    rng = arm_lines(sfn, lambda h, p, arm: p.get("k") == "p_lit" and p["v"] == '"unwrap"')
    if rng is None:
        raise LookupError('"unwrap" directive arm')
    lo, hi = rng
    cs = calls_in_lines(fn, lo, hi)
    unwraps = [c for c in cs if short(c.callee) == "unwrap_sum_ty"]
    checks = [c for c in cs if short(c.callee) == "compile_unreachablez"]
    if len(unwraps) < 2 or len(checks) < 2:
        run.finding(FCE, "unwrap-shape", fn.file, lo, "#unwrap arm: expected a checked path for tagged unions and one for nullable pointers (found %d unwrap_sum_ty, %d checks)" % (len(unwraps), len(checks)))
        return
    kinds = set()
    for u in unwraps:
        doms = [k for k in checks if fn.dominates(k.bb, u.bb) and k.bb != u.bb]
        if not doms:
            run.finding(FCE, "unwrap-unchecked", u.file, u.ln, "unwrap_sum_ty at line %d is not dominated by a variant check: a value of another variant is reinterpreted" % u.ln)
            continue
        k = max(doms, key=lambda c: c.ln)
        cond = fn.chain_operand(k.args[1], depth=12)
        opts = cond["opts"] if cond.get("kind") == "phi" else [cond]
        descr = []
        good = True
        for o in opts:
            if not (o.get("kind") == "call" and short(o["callee"]) == "icmp_imm"):
                good = False
                descr.append(show_chain(o, 3)[:40])
                continue
            cc = enum_of(o["args"][1])
            subject = o["args"][2]
            imm = o["args"][3]
            if subject.get("kind") == "call" and short(subject["callee"]) == "load":
                # tagged union: Equal(load(I8 @discriminant_offset), desired discrim)
                ty_ok = subject["args"][1].get("kind") == "const" and subject["args"][1]["path"].endswith("types::I8")
                off_ok = FA.chain_has_call(subject["args"][4], "discriminant_offset")
                des_ok = FA.chain_has_call(imm, "get_tagged_union_discrim")
                good = good and cc == "Equal" and ty_ok and off_ok and des_ok
                kinds.add("tagged")
                descr.append("icmp_imm(%s, load(I8 @discriminant_offset), desired)" % cc)
            else:
                zero = imm.get("kind") == "scalar" and imm["value"] == "0"
                good = good and zero and cc in ("Equal", "NotEqual")
                kinds.add("nullable")
                descr.append("icmp_imm(%s, value, 0)" % cc)
        if kinds & {"nullable"} and len(opts) == 2:
            ccs = sorted(str(enum_of(o["args"][1])) for o in opts if o.get("kind") == "call")
            good = good and ccs == ["Equal", "NotEqual"]
        run.check(good, k.site(), "#unwrap: %s guards unwrap_sum_ty (line %d)" % (" | ".join(descr), u.ln), FCE, "unwrap-check@%d" % len(kinds), k.file, k.ln,
                  "#unwrap check has the wrong shape: %s" % " | ".join(descr))
    # must-pass-through: no way through the #unwrap arm avoids every variant check (e.g. an early `return None` for payload-less variants:
    # a wrong #unwrap to `nil` / a unit variant would keep running)
    region = fn.blocks_in_lines(lo, hi)
    anchors = [c.bb for c in checks + unwraps]
    firsts = [c for c in cs if c.ln > lo and all(fn.dominates(c.bb, a) for a in anchors)]
    if not firsts:
        raise LookupError("first call of the #unwrap arm's body")
    entry = min(firsts, key=lambda c: (c.ln, c.bb)).bb     # the arm body starts by compiling the operand
    avoid = {c.bb for c in checks}
    seen, todo, escape = {entry}, [entry], None
    while todo and escape is None:
        u = todo.pop()
        for v in fn.succ[u]:
            if v in seen or v in avoid or fn.blocks[v].get("cleanup"):
                continue
            seen.add(v)
            if fn.blocks[v]["t"]["k"] == "return":
                escape = (u, v)
                break
            todo.append(v)
    run.check(escape is None, "%s:%d" % (fn.file, lo), "every path from the #unwrap arm to the function's return passes a variant check", FCE, "unwrap-bypass", fn.file, lo,
              "the #unwrap arm can reach the function's return without any variant check (a path from its entry avoids every compile_unreachablez, e.g. an early return): a "
              "wrong #unwrap on that path does not abort")
    run.check(kinds == {"tagged", "nullable"}, "%s:%d" % (fn.file, lo), "both representations (tagged union, nullable pointer) are checked", FCE, "unwrap-kinds", fn.file, lo,
              "#unwrap must check tagged unions and nullable pointers; found %s" % sorted(kinds))
    # nil <-> Equal pairing on the nullable branch (syntax)
    for n in walk(sfn.body):
        if n.get("k") == "if" and canon(n["c"]) == "(*variant_ty == Ty::Nil)" and lo <= n["ln"] <= hi:
            t, e = canon(n["t"]), canon(n.get("e"))
            run.check("IntCC::Equal, sum_val, 0" in t and "IntCC::NotEqual, sum_val, 0" in e, sfn.site(n["ln"]), "nil variant <=> pointer == 0", FCE, "unwrap-nil", sfn.file, n["ln"],
                      "#unwrap of a nullable pointer: asking for `nil` must test == 0 and asking for the payload must test != 0")


def call_order(fn, names):
    """calls of fn (non-cleanup) in an order consistent with dominance: returns list of Call for given names"""
    out = [c for c in fn.calls() if short(c.callee) in names]
    out.sort(key=lambda c: (c.ln, c.bb))
    return out


def r10c(ctx, run):
    F = ctx.facts
    z = F.fn("codegen::compiler::functions::FunctionCompiler::compile_unreachablez")
    seq = call_order(z, {"brif", "switch_to_block", "compile_unreachable", "create_block"})
    names = [short(c.callee) for c in seq]
    want = ["create_block", "create_block", "brif", "switch_to_block", "compile_unreachable", "switch_to_block"]
    run.check(names == want, "%s:%d" % (z.file, z.lo), "compile_unreachablez: %s" % " -> ".join(names), z.norm, "sequence", z.file, z.lo,
              "compile_unreachablez must be: create pass/fail, brif, switch to fail, emit the fault, switch to pass; found %s" % names)
    if names == want:
        brif = seq[2]
        cond = z.chain_operand(brif.args[1])
        t_blk = z.chain_operand(brif.args[2], depth=4)
        f_blk = z.chain_operand(brif.args[4], depth=4)
        sw1 = z.chain_operand(seq[3].args[1], depth=4)
        sw2 = z.chain_operand(seq[5].args[1], depth=4)
        good = cond.get("kind") == "param" and cond.get("name") == "condition" and t_blk.get("var") == "pass" and f_blk.get("var") == "fail" \
            and sw1.get("var") == "fail" and sw2.get("var") == "pass"
        run.check(good, brif.site(), "brif(condition, pass, fail); fault emitted in `fail`; caller continues in `pass`", z.norm, "wiring", brif.file, brif.ln,
                  "condition true must continue at `pass` and false at `fail`, the fault must be emitted in `fail` and emission must resume in `pass` "
                  "(found then=%s else=%s, first switch=%s, last switch=%s)" % (t_blk.get("var"), f_blk.get("var"), sw1.get("var"), sw2.get("var")))
        for a, b in zip(seq, seq[1:]):
            run.check(z.dominates(a.bb, b.bb), b.site(), "%s precedes %s on every path" % (short(a.callee), short(b.callee)), z.norm, "order:%s" % short(b.callee), b.file, b.ln,
                      "%s is not dominated by %s" % (short(b.callee), short(a.callee)))
    u = F.fn("codegen::compiler::functions::FunctionCompiler::compile_unreachable")
    seq = [c for c in u.calls() if (short(c.callee) in ("call", "trap") and "cranelift" in c.callee)]
    seq.sort(key=lambda c: (c.ln, c.bb))
    names = [short(c.callee) for c in seq]
    run.check(names == ["call", "call", "trap"], "%s:%d" % (u.file, u.lo), "compile_unreachable emits: %s" % " -> ".join(names), u.norm, "sequence", u.file, u.lo,
              "the fault path must be call puts, call exit, trap; found %s" % names)
    if names == ["call", "call", "trap"]:
        def extern_name(c):
            ch = u.chain_operand(c.args[1], depth=8)
            for x in chain_calls(ch, "get_or_create_extern_func_id"):
                for a in x["args"]:
                    if a.get("kind") == "str":
                        return a["value"]
                    for y in walk_chain(a):
                        if y.get("kind") == "str":
                            return y["value"]
            return None
        n1, n2 = extern_name(seq[0]), extern_name(seq[1])
        run.check(n1 == "puts" and n2 == "exit", seq[0].site(), "first call = puts, second call = exit", u.norm, "externs", seq[0].file, seq[0].ln,
                  "the fault path must print (puts) and then exit; found %s then %s" % (n1, n2))
        arg = u.chain_operand(seq[1].args[2], depth=10)
        one = any(x.get("kind") == "call" and short(x["callee"]) == "iconst" and x["args"][2].get("kind") == "scalar" and x["args"][2]["value"] == "1" for x in walk_chain(arg))
        run.check(one, seq[1].site(), "exit status is the constant 1", u.norm, "status", seq[1].file, seq[1].ln, "the fault path must exit with status 1")
        for a, b in zip(seq, seq[1:]):
            run.check(u.dominates(a.bb, b.bb), b.site(), "%s precedes %s" % (short(a.callee), short(b.callee)), u.norm, "order", b.file, b.ln, "fault path order broken")
        msg = [c for c in u.calls() if short(c.callee) == "create_global_str"]
        run.check(len(msg) == 1, "%s:%d" % (u.file, u.lo), "message string is materialised once", u.norm, "message", u.file, u.lo, "the fault message must be emitted as a global string")


def r10d(ctx, run):
    n = 0
    for f in ctx.syn.fns_in("hir_ty/src/globals.rs"):
        if f.body is None:
            continue
        for x in walk(f.body):
            if x.get("k") == "if" and "IndexOutOfBounds" in canon(x["t"]) and "IntLiteral" in canon(x["c"]):
                n += 1
                # find the comparison guarding the diagnostic
                inner = [y for y in walk(x["t"]) if y.get("k") == "if" and "IndexOutOfBounds" in canon(y["t"])]
                cmp_ = canon(inner[0]["c"]) if inner else ""
                good = cmp_ in ("(index >= actual_size)", "(actual_size <= index)")
                run.check(good, f.site(x["ln"]), "literal index rejected iff %s" % cmp_, f.qual, "literal-index", f.file, x["ln"],
                          "a literal index must be rejected exactly when index >= array size; the guard is `%s`" % cmp_)
    if n < 1:
        raise LookupError("literal index check (IndexOutOfBounds) in globals.rs")


def r10e(ctx, run):
    """EVERY index is checked: in the Index arm no path returns before the bounds check - not even when there is nothing to load (an item type of size
    zero): the index expression still has to be evaluated and compared with the length.  A return that comes before the check must follow a call of
    a helper that evaluates the index and performs the same check."""
    sfn = ctx.syn.fn("FunctionCompiler::compile_expr_with_args", "codegen/src/compiler/functions.rs")
    arm = None
    for m in synq.matches_on(sfn.body):
        for h, p_, g, b, a in synq.match_table(m):
            if h and h.endswith("Expr::Index") and a["end"] - a["ln"] > 20:
                arm = (p_, b, a)
    if arm is None:
        raise LookupError("Expr::Index arm")
    body = arm[1]
    stmts = body["s"]
    chk = next((i for i, st in enumerate(stmts) if any(x.get("k") == "mcall" and x["m"] == "compile_unreachablez" for x in walk(st))), None)
    if chk is None:
        raise LookupError("the bounds check of the Index arm")
    helpers = {f.qual.rsplit("::", 1)[-1]: f for f in ctx.syn.fns_in("codegen/src/compiler/functions.rs") if f.impl_ty and f.impl_ty.startswith("FunctionCompiler") and f.body is not None}

    def checking_helper(name):
        f = helpers.get(name)
        if f is None:
            return False
        c = canon(f.body)
        has_check = any(x.get("k") == "mcall" and x["m"] == "compile_unreachablez" for x in walk(f.body))
        cmp_ok = any(x.get("k") == "mcall" and x["m"] == "icmp" and x["a"] and canon(x["a"][0]).endswith("UnsignedLessThan") for x in walk(f.body))
        evals_index = any(x.get("k") == "mcall" and x["m"] in ("compile_expr", "compile_expr_with_args") and x["a"] and x["a"][0].get("k") == "path" and x["a"][0]["p"] in f.param_names()
                          for x in walk(f.body))
        return has_check and cmp_ok and evals_index
    n = 0
    early = [(st, r) for st in stmts[:chk] for r in walk(st) if r.get("k") == "return"]
    for st, r in early:
        n += 1
        # the block the return sits in: calls made before it
        blk = next((b_ for b_ in walk(st) if b_.get("k") == "block" and any(x is r for s2 in b_["s"] for x in walk(s2))), None)
        before = []
        if blk is not None:
            for s2 in blk["s"]:
                if any(x is r for x in walk(s2)):
                    break
                before += [x["m"] for x in walk(s2) if x.get("k") == "mcall" and canon(x["r"]) == "self"]
        good = any(checking_helper(m_) for m_ in before)
        run.check(good, sfn.site(r["ln"]), "the early return at line %d follows a helper that evaluates and checks the index (%s)" % (r["ln"], [m_ for m_ in before if checking_helper(m_)][:1]),
                  sfn.qual, "return-before-bounds-check", sfn.file, r["ln"],
                  "the Index arm returns at line %d before the bounds check (condition: `%s`): for such an index expression neither the index is evaluated nor an out-of-range "
                  "index reported" % (r["ln"], canon(st.get("e", {}).get("c", {}))[:60] if st.get("k") == "expr" else ""))
    run.ok(sfn.site(stmts[chk]["ln"]), "the Index arm has %d return(s) before its bounds check, each behind a checking helper" % n)


def r10f(ctx, run):
    """the tag an #unwrap (and #is_variant) compares with is the tag the producer of the value wrote for that side: get_tagged_union_discrim evaluated
    on unions whose sides have one shape but different names - otherwise a wrong #unwrap passes its check and the right one aborts (shared with C11 R11.e)"""
    import c11
    c11.r11e(ctx, run)


def r10g(ctx, run):
    """an index that is only looked THROUGH is still an index: `arr[i].len`, `ss[i].v` with a zero-sized `v`.  The Member arm of the expression compiler
    must compile the expression in front of the `.` on every path that yields a result - that is where an index in it is evaluated and checked (and where
    a call in it runs).  Path rule over the arm: every `return` and the arm's own result come after compile_expr / compile_expr_with_args(previous, ..)
    (or compile_global for `file.name`, which has nothing in front to evaluate); the exits of `?` are exempt."""
    import paths
    sfn = ctx.syn.fn("FunctionCompiler::compile_expr_with_args", "codegen/src/compiler/functions.rs")
    arm = None
    for m in synq.matches_on(sfn.body):
        for h, p_, g, b, a in synq.match_table(m):
            if h and h.endswith("Expr::Member") and a["end"] - a["ln"] > 50:
                arm = (p_, b, a)
    if arm is None:
        raise LookupError("Expr::Member arm of compile_expr_with_args")
    binder = next((x["n"] for x in walk(arm[0]) if x.get("k") == "p_ident" and x["n"] == "previous"), None)
    if binder is None:
        raise LookupError("the Member arm does not bind `previous`")

    def compiles_previous(n):
        return any(x.get("k") == "mcall" and canon(x["r"]) == "self" and x["m"] in ("compile_expr", "compile_expr_with_args", "compile_and_cast") and x["a"] and canon(x["a"][0]) == binder
                   for x in walk(n))
    # `if !matches!(previous_ty, Ty::File(_)) { compile previous }`: a file in front of the `.` is the one thing with nothing to evaluate; the test itself
    # counts as the evaluation when its other branch compiles `previous`
    file_tests = set()
    for x in walk(arm[1]):
        if x.get("k") == "if" and "Ty::File" in canon(x["c"]) and (compiles_previous(x["t"]) or (x.get("e") is not None and compiles_previous(x["e"]))):
            file_tests |= {id(y) for y in walk(x["c"])}

    def step(node, st):
        if id(node) in file_tests and node.get("k") == "macro":
            return ("evaluated", st[1])
        if node.get("k") == "mcall" and canon(node["r"]) == "self":
            if node["m"] in ("compile_expr", "compile_expr_with_args", "compile_and_cast") and node["a"] and canon(node["a"][0]) == binder:
                return ("evaluated", st[1])
            if node["m"] == "compile_global":
                return ("evaluated", st[1])
        ln = node.get("ln")
        return (st[0], ln if ln else st[1])
    fall, exits = paths.run(arm[1], ("not evaluated", arm[2]["ln"]), step)
    results = [("result", st) for st in fall] + [("return", st) for kind, label, st in exits if kind == "return" and label != "?"]
    if len(results) < 5:
        raise LookupError("result paths of the Member arm: %d" % len(results))
    bad = sorted({st[1] for what, st in results if st[0] != "evaluated"})
    run.check(not bad, sfn.site(arm[2]["ln"]), "Member arm: every result follows the compilation of the expression in front of the `.` (%d result paths)" % len(results), sfn.qual,
              "member-evaluates-previous", sfn.file, bad[0] if bad else arm[2]["ln"],
              "the Member arm yields a result near line %s without compiling the expression in front of the `.`: in `arr[next(7)].len` or `ss[i].v` (v of size zero) the index is "
              "neither evaluated nor checked against the length - an out-of-range index passes silently and a call in it never runs" % ", ".join(map(str, bad)))


def rules(ctx):
    return [
        Rule("R10.a", "Expr::Index: check `index <u len` with the right operands dominates every use of the element address", 7, r10a),
        Rule("R10.b", "#unwrap: variant check dominates unwrap_sum_ty for tagged unions and nullable pointers", 3, r10b),
        Rule("R10.f", "the tag #unwrap / #is_variant compare with is the tag the producer wrote for that side (get_tagged_union_discrim evaluated; shared with C11 R11.e)", 11, r10f),
        Rule("R10.g", "a member access compiles the expression in front of the `.` on every result path: an index in it is evaluated and checked (path rule over the Member arm)", 1, r10g),
        Rule("R10.c", "fault path: brif(cond, pass, fail); puts(message), exit(1), trap in order", 10, r10c),
        Rule("R10.d", "literal index >= array size is rejected at compile time", 1, r10d),
        Rule("R10.e", "every index is checked: no return before the bounds check in the Index arm (zero-sized items included)", 1, r10e),
    ]

"""C22 — lexing is total and lossless: the hand-written part around the generated DFA (DESIGN §3 C22)."""
from core import Rule
import synq
from synq import canon, walk
import facts as FA
from facts import short, strip_generics

PROPERTY = "C22"
TITLE = "Lexing is total and lossless"
NEEDS = ("syn", "facts")
TECHNIQUE = "static analysis: ADT layout/variant facts from rustc for the transmuted token enums, push-pairing (who-writes) on the token vectors, abstract evaluation of the lexer's driver loop on model scanner streams and of the literal sub-lexers on all short literals, per-iteration advance rule in the sub-lexers"
EXPLANATION = (
    "The token boundaries are represented as `starts` with one sentinel, so coverage/contiguity reduce to three structural "
    "facts which are checked: (b) `kinds` and `starts` are pushed only together (inside the handler closure) plus exactly one "
    "sentinel push of text.len() after the loop, and Tokens::new is the only constructor; (c) the string/char sub-lexers emit "
    "only the running position, which advances by len_utf8 of the character just examined exactly once per iteration (char "
    "boundaries), and the comment sub-lexer emits leader at the start and contents 2 bytes later. (a) The transmute from the "
    "logos token enum to syntax::TokenKind is an identity on variant names and discriminants (rustc ADT facts: both fieldless, "
    "one byte, same order), the three internal variants come last and are matched before the transmuting arm; raw<->kind "
    "conversions go through u8 and both enums have <= 256 variants; TokenSet has at least one bit per token kind.")
NOT_DECIDED = [
    "the logos-generated DFA: termination, that it covers the whole input, and that each kind agrees with its text (generated code; correctness is the generator's)",
    "agreement of kind and text inside string/char literals beyond the mode machine's shape",
]
ASSUMPTIONS = ["logos yields spans in increasing order starting at 0 and reports unmatched input as Err spans (documented logos behaviour)"]


def r22a(ctx, run):
    F = ctx.facts
    lx = F.adt("lexer::LexerTokenKind")
    tk = F.adt("syntax::TokenKind")
    nk = F.adt("syntax::NodeKind")
    site = "%s:%d" % (lx["file"], lx["lo"])
    run.check(lx.get("size") == 1 and tk.get("size") == 1, site, "LexerTokenKind and TokenKind are both one byte", "lexer::LexerTokenKind", "size", lx["file"], lx["lo"],
              "transmute between enums of different size: %s vs %s bytes" % (lx.get("size"), tk.get("size")))
    run.check(all(not v["fields"] for v in lx["variants"]) and all(not v["fields"] for v in tk["variants"]), site, "both enums are fieldless", "lexer::LexerTokenKind", "fieldless",
              lx["file"], lx["lo"], "token enums must be fieldless for the transmute to be an identity on discriminants")
    lvs, tvs = lx["variants"], tk["variants"]
    internal = [v["n"] for v in lvs if v["n"].startswith("__")]
    public = [v for v in lvs if not v["n"].startswith("__")]
    run.check([v["n"] for v in lvs[len(public):]] == internal and len(internal) == 3, site, "the %d internal variants come last: %s" % (len(internal), internal), "lexer::LexerTokenKind",
              "internal-last", lx["file"], lx["lo"], "internal (`__`) variants must be the last variants of LexerTokenKind, found order %s" % [v["n"] for v in lvs[-5:]])
    run.check(len(public) == len(tvs), site, "%d public lexer kinds = %d TokenKind variants" % (len(public), len(tvs)), "lexer::LexerTokenKind", "count", lx["file"], lx["lo"],
              "LexerTokenKind has %d non-internal variants, TokenKind has %d" % (len(public), len(tvs)))
    bad = []
    for a, b in zip(public, tvs):
        if a["n"].lstrip("_") != b["n"].lstrip("_") or a["d"] != b["d"]:
            bad.append((a["n"], a["d"], b["n"], b["d"]))
    run.check(not bad, site, "variant i of the lexer enum and of TokenKind have the same name and discriminant for all i", "lexer::LexerTokenKind", "identity", lx["file"], lx["lo"],
              "the transmute maps lexer kinds to differently named token kinds: %s" % bad[:5])
    for a in (tk, nk):
        run.check(len(a["variants"]) <= 256, "%s:%d" % (a["file"], a["lo"]), "%s has %d <= 256 variants (raw conversions go through u8)" % (a["path"], len(a["variants"])), a["path"], "u8",
                  a["file"], a["lo"], "%s has %d variants but *_from_raw transmutes `raw as u8`" % (a["path"], len(a["variants"])))
    ts = F.adt("parser::token_set::TokenSet")
    run.check(ts.get("size", 0) * 8 >= len(tvs), "%s:%d" % (ts["file"], ts["lo"]), "TokenSet has %d bits >= %d token kinds" % (ts.get("size", 0) * 8, len(tvs)), "parser::token_set::TokenSet", "bits",
              ts["file"], ts["lo"], "TokenSet has %d bits but there are %d token kinds" % (ts.get("size", 0) * 8, len(tvs)))
    # the transmuting arm comes after the three internal arms; Err -> TokenKind::Error
    lex = ctx.syn.fn("lex", "lexer/src/lib.rs")
    m = [x for x in synq.matches_on(lex.body) if canon(x["e"]) == "kind"]
    if len(m) != 1:
        raise LookupError("match kind in lex")
    order = [canon(a["p"]) for a in m[0]["arms"]]
    ti = next((i for i, a in enumerate(m[0]["arms"]) if "mem::transmute" in canon(a["b"])), None)
    pre = [o for o in order[:ti or 0]]
    good = ti is not None and sorted(pre) == sorted("Ok(LexerTokenKind::%s)" % n for n in internal) and order[ti] == "Ok(kind)"
    run.check(good, lex.site(m[0]["ln"]), "internal kinds are handled before the transmuting arm", "lexer::lex", "arms", lex.file, m[0]["ln"],
              "every internal kind must have its own arm before `Ok(kind) => transmute`: an internal kind reaching the transmute is out of TokenKind's range (UB); arms: %s" % order)
    tm = [x for x in walk(m[0]) if x.get("k") == "call" and canon(x["f"]) == "mem::transmute"]
    g = tm[0]["f"].get("g") if tm else None
    run.check(bool(tm) and g == ["LexerTokenKind", "TokenKind"], lex.site(tm[0]["ln"] if tm else lex.ln), "transmute::<LexerTokenKind, TokenKind>", "lexer::lex", "transmute-types", lex.file,
              tm[0]["ln"] if tm else lex.ln, "the transmute must be exactly LexerTokenKind -> TokenKind, found %s" % g)
    # (that unmatched input becomes an Error token, and where, is decided by evaluating the driver loop: R22.e)


def r22b(ctx, run):
    # pairing of kinds/starts, the sentinel and the token starts are decided by evaluating the driver loop (R22.e); here: the representation
    # only constructor
    F = ctx.facts
    ctors = []
    for fn in F.fns:
        for b in fn.blocks:
            for s in b["s"]:
                if s["rv"]["k"] == "agg" and s["rv"]["path"].endswith("token::Tokens"):
                    ctors.append(strip_generics(fn.path))
    run.check(ctors == ["token::Tokens::new"], "crates/token/src/lib.rs:1", "Tokens is only built by Tokens::new", "token::Tokens", "ctor", "crates/token/src/lib.rs", 1,
              "Tokens values are constructed in %s" % ctors)
    new = ctx.syn.fn("Tokens::new", "token/src/lib.rs")
    run.check("debug_assert_eq!" in canon(new.body) and "kinds.len()+1,starts.len()" in canon(new.body).replace(" ", ""), new.site(), "Tokens::new states kinds.len()+1 == starts.len()", "token::Tokens::new",
              "invariant", new.file, new.ln, "Tokens::new lost its length invariant assertion")
    rg = ctx.syn.fn("Tokens::range", "token/src/lib.rs")
    c = canon(rg.body)
    run.check("self.starts[idx]" in c and "self.starts[(idx + 1)]" in c, rg.site(), "range(i) = starts[i]..starts[i+1] (contiguous by construction)", "token::Tokens::range", "shape", rg.file, rg.ln,
              "Tokens::range must be starts[i]..starts[i+1]")


def r22c(ctx, run):
    for name, quote in (("lex_char", "'\\''"), ("lex_string", "'\"'")):
        f = ctx.syn.fn(name, "lexer/src/lib.rs")
        loops = [x for x in walk(f.body) if x.get("k") == "for"]
        if len(loops) != 1:
            raise LookupError("for loop in %s" % name)
        lp = loops[0]
        var = lp["p"].get("n")
        run.check(canon(lp["e"]) == "s.chars()", f.site(lp["ln"]), "%s walks the characters of its slice" % name, name, "chars", f.file, lp["ln"], "%s must iterate s.chars()" % name)
        stmts = lp["b"]["s"]
        adv = [i for i, s in enumerate(stmts) if s["k"] == "expr" and s["e"].get("k") == "bin" and s["e"]["op"] == "+=" and canon(s["e"]["l"]) == "pos"]
        good = len(adv) == 1 and adv[0] == len(stmts) - 1 and canon(stmts[adv[0]]["e"]["r"]) == "TextSize::from((%s.len_utf8() as u32))" % var
        other_writes = [x for x in walk(lp["b"]) if (x.get("k") == "assign" and canon(x["l"]) == "pos") or (x.get("k") == "bin" and x["op"].endswith("=") and x["op"] not in ("==", "!=", "<=", ">=") and canon(x["l"]) == "pos")]
        escapes = [x for x in walk(lp["b"]) if x.get("k") in ("continue", "break", "return")]
        run.check(good and len(other_writes) == 1 and not escapes, f.site(lp["ln"]), "%s: pos += len_utf8(c) exactly once, last, on every iteration" % name, name, "advance", f.file, lp["ln"],
                  "%s must advance pos by c.len_utf8() exactly once per character (unconditionally, at the end of the loop body): otherwise token starts fall off char boundaries or drift" % name)
        emits = [x for x in walk(lp["b"]) if x.get("k") == "call" and canon(x["f"]) == "f"]
        run.check(len(emits) == 3 and all(canon(x["a"][1]) == "pos" for x in emits), f.site(lp["ln"]), "%s: every emitted start is the running position (%d emit sites)" % (name, len(emits)),
                  name, "emit-pos", f.file, lp["ln"], "%s must emit tokens only at `pos`" % name)
        init = [s for s in f.body["s"] if s["k"] == "local" and s["p"].get("n") == "pos"]
        run.check(len(init) == 1 and canon(init[0]["init"]) == "offset", f.site(), "%s: pos starts at the slice's offset" % name, name, "init", f.file, f.ln, "%s must start at `offset`" % name)
        kinds = sorted({canon(x["a"][0]) for x in emits})
        want = sorted(["TokenKind::Escape", "TokenKind::StringContents", "TokenKind::SingleQuote" if name == "lex_char" else "TokenKind::DoubleQuote"])
        run.check(kinds == want, f.site(), "%s emits %s" % (name, kinds), name, "kinds", f.file, f.ln, "%s must emit exactly %s, found %s" % (name, want, kinds))
        # the first character (the opening quote, by the token regex) emits a token at `offset`
        m = [x for x in walk(lp["b"]) if x.get("k") == "match"]
        first_arm = canon(m[0]["arms"][0]["p"]) if m else ""
        run.check(quote in first_arm and "Mode::InContents" in first_arm, f.site(), "%s: the opening quote emits a token in the initial mode" % name, name, "first", f.file, f.ln,
                  "the initial mode must emit the quote token for the first character so that the first emitted start is `offset`")
    f = ctx.syn.fn("lex_comment", "lexer/src/lib.rs")
    c = [canon(s) for s in f.body["s"]]
    run.check(c and c[0].startswith("f(TokenKind::CommentLeader, offset)"), f.site(), "comment leader emitted at the comment's start", "lex_comment", "leader", f.file, f.ln,
              "CommentLeader must start at `offset`")
    iff = [s for s in f.body["s"] if s["k"] == "expr" and s["e"].get("k") == "if"]
    ok2 = len(iff) == 1 and "f(TokenKind::CommentContents, (offset + TextSize::from(2)))" in canon(iff[0]["e"]["t"])
    run.check(ok2, f.site(), "comment contents start 2 bytes after the leader", "lex_comment", "contents", f.file, f.ln, "CommentContents must start at offset + 2 (the leader `//` is two bytes)")
    if ok2:
        cond = iff[0]["e"]["c"]
        thr = synq.int_value(cond["r"]) if cond.get("k") == "bin" else None
        op = cond.get("op")
        min_len = (thr + 1) if op == ">" else thr if op == ">=" else None
        run.check(min_len is not None and min_len <= 3 and canon(cond["l"]) == "len", f.site(iff[0]["ln"]), "contents emitted when len >= %s (start offset+2 <= end of comment)" % min_len, "lex_comment",
                  "guard", f.file, iff[0]["ln"], "the guard on CommentContents must keep offset+2 inside the comment")


def literal_inputs(quote, maxlen=5):
    """strings the token regex can hand to the sub-lexer: quote (plain | backslash any)* quote?  over a small alphabet that
    contains 1- and 2-byte characters (one whose second byte is 0xBF, the last continuation byte)"""
    other_quote = "'" if quote == '"' else '"'
    plain = ["a", "\u00e9", "\u00ff", other_quote]
    anyc = plain + [quote, "\\"]
    out = []

    def rec(cur, n):
        if n >= 1:
            out.append(cur)            # unterminated
            out.append(cur + quote)    # terminated
        if n >= maxlen:
            return
        for c in plain:
            rec(cur + c, n + 1)
        if n + 2 <= maxlen:
            for c in anyc:
                rec(cur + "\\" + c, n + 2)
    rec(quote, 1)
    return sorted(set(x for x in out if len(x) <= maxlen), key=lambda x: (len(x), x))


def reference_tokens(s, quote):
    """the literal token grammar: a quote token on every quote character outside an escape, an Escape token on a backslash (it covers
    the next character), a contents token where a run of other characters starts; offsets are byte offsets of whole characters"""
    mode, pos, out = "in", 0, []
    qk = "DoubleQuote" if quote == '"' else "SingleQuote"
    for c in s:
        if mode in ("in", "start") and c == quote:
            mode = "start"
            out.append((qk, pos))
        elif mode in ("in", "start") and c == "\\":
            mode = "esc"
            out.append(("Escape", pos))
        elif mode == "start":
            mode = "in"
            out.append(("StringContents", pos))
        elif mode == "esc":
            mode = "start"
        pos += len(c.encode("utf-8"))
    return out


def make_xi():
    from symint import SymInterp, Lin

    class XI(SymInterp):
        def bind(self, p, v, env):
            if p.get("k") == "p_lit" and isinstance(v, int) and p["v"].startswith("b'"):
                lit = p["v"][2:-1]
                lit = {"\\'": "'", "\\\\": "\\", '\\"': '"', "\\n": "\n"}.get(lit, lit)
                return len(lit) == 1 and v == ord(lit)
            if p.get("k") == "p_range" and isinstance(v, int):
                txt = p["v"].replace(" ", "")
                try:
                    if "..=" in txt:
                        lo, hi = txt.split("..=")
                        return int(lo, 0) <= v <= int(hi, 0)
                    if ".." in txt:
                        lo, hi = txt.split("..")
                        return int(lo, 0) <= v < int(hi, 0)
                except ValueError:
                    pass
            if p.get("k") == "p_lit" and isinstance(v, str) and p["v"].startswith("'"):
                lit = p["v"][1:-1]
                lit = {"\\'": "'", "\\\\": "\\", '\\"': '"', "\\n": "\n"}.get(lit, lit)
                return v == lit
            return super().bind(p, v, env)

        def eval(self, e, env):
            if e["k"] == "lit" and isinstance(e.get("v"), str) and e["v"].startswith("b'"):
                lit = e["v"][2:-1]
                lit = {"\\'": "'", "\\\\": "\\", '\\"': '"', "\\n": "\n"}.get(lit, lit)
                if len(lit) == 1:
                    return ord(lit)
            if e["k"] == "lit" and e.get("t") == "char":
                lit = e["v"][1:-1] if e["v"].startswith("'") else e["v"]
                return {"\\'": "'", "\\\\": "\\", '\\"': '"', "\\n": "\n"}.get(lit, lit)
            if e["k"] == "cast":
                v = self.eval(e["e"], env)
                if isinstance(v, (int, Lin)) and not isinstance(v, bool):
                    return v
                if isinstance(v, str) and len(v) == 1:
                    return ord(v)
            if e["k"] == "ref":
                return self.eval(e["e"], env)
            return super().eval(e, env)

        def binop(self, op, l, r, e):
            # Option compared with Option (Some(x) is x here, None is None)
            if op in ("==", "!=") and (l is None or r is None):
                return (l is None and r is None) == (op == "==")
            return super().binop(op, l, r, e)

        def default_method(self, recv, m, args, e):
            if isinstance(recv, str):
                if m == "chars":
                    return list(recv)
                if m in ("bytes", "as_bytes"):
                    return list(recv.encode("utf-8"))
                if m == "char_indices":
                    out, p_ = [], 0
                    for c in recv:
                        out.append((p_, c))
                        p_ += len(c.encode("utf-8"))
                    return out
                if m == "len":
                    return len(recv.encode("utf-8"))
                if m == "len_utf8":
                    return len(recv.encode("utf-8"))
                if m in ("find", "rfind") and isinstance(args[0], str):
                    i_ = recv.find(args[0]) if m == "find" else recv.rfind(args[0])
                    return None if i_ < 0 else len(recv[:i_].encode("utf-8"))
                if m == "contains":
                    return args[0] in recv
                if m in ("starts_with", "ends_with"):
                    return recv.startswith(args[0]) if m == "starts_with" else recv.endswith(args[0])
                if m == "is_empty":
                    return recv == ""
                if m == "is_char_boundary" and isinstance(args[0], int):
                    b = recv.encode("utf-8")
                    return args[0] == len(b) or (0 <= args[0] < len(b) and (b[args[0]] & 0xC0) != 0x80)
            if isinstance(recv, tuple) and recv and recv[0] == "range" and m == "contains":
                return recv[1] <= args[0] < recv[2]
            if isinstance(recv, list) and m == "contains" and recv and all(isinstance(x, int) for x in recv):
                return args[0] in recv
            return super().default_method(recv, m, args, e)
    return XI


def r22d(ctx, run):
    """the two literal sub-lexers evaluated on every literal of up to 5 characters over {ascii, 2-byte, 2-byte ending in 0xBF, the other
    quote, quote, backslash}, with a symbolic start offset: the emitted (kind, start) list must be the literal token grammar's"""
    from symint import SymInterp, Lin, sym, to_lin
    from absint import Term, Variant, Obj, Panic, CannotEstablish
    L = "lexer/src/lib.rs"
    off = sym("offset")

    def resolver(path):
        last = path.rsplit("::", 1)[-1]
        c = [f for f in ctx.syn.fns_in(L) if f.body is not None and f.qual.rsplit("::", 1)[-1] == last and not f.in_test]
        return c[0] if len(c) == 1 else None

    XI = make_xi()
    n_ok = 0
    for name, quote in (("lex_string", '"'), ("lex_char", "'")):
        f = ctx.syn.fn(name, L)
        names = f.param_names()
        bad = None
        inputs = literal_inputs(quote)
        for sx in inputs:
            got = []

            def emit(kind, pos, got=got):
                got.append((kind.last if isinstance(kind, Variant) else repr(kind), pos))
                return None
            it = XI(resolver=resolver, funcs={"TextSize::from": lambda i, a: a[0], "TextSize::of": lambda i, a: len(a[0].encode("utf-8")) if isinstance(a[0], str) else a[0],
                                              "TextSize::new": lambda i, a: a[0]})
            try:
                it.run_fn(f, {names[0]: sx, names[1]: off, names[2]: ("pyfunc", emit)})
            except (Panic, CannotEstablish) as c:
                bad = (sx, "cannot establish: %s" % getattr(c, "what", c), None)
                break
            want = [(k, to_lin(off).add(to_lin(p_))) for k, p_ in reference_tokens(sx, quote)]
            gotn = [(k, to_lin(p_)) for k, p_ in got]
            if gotn != want:
                bad = (sx, [(k, repr(p_)) for k, p_ in gotn], [(k, repr(p_)) for k, p_ in want])
                break
            n_ok += 1
        if bad is None:
            run.ok(f.site(), "%s: token kinds and starts equal the literal token grammar on %d literals (<= 5 characters, symbolic offset)" % (name, len(inputs)))
        else:
            sx, g, w = bad
            run.finding(name, "literal-tokens", f.file, f.ln,
                        "%s on the literal %r emits %s; the literal token grammar gives %s (a quote token only on a quote character, Escape = backslash + next character, "
                        "starts on character boundaries)" % (name, sx, g, w))


def r22e(ctx, run):
    """`lex`'s driver loop evaluated on model scanner streams (every sequence of up to 4 items over: identifier, white space, 1-byte and 2-byte
    unrecognised characters, a string literal, a char literal, a comment): the tokens it builds must (1) be kinds.len()+1 starts, first 0, last the
    text's length, non-decreasing; (2) begin a token where every scanner item begins (adjacent unrecognised items may share one Error token);
    (3) cover every byte with a token of the kind the scanner gave that byte (Error for unrecognised input, the literal part kinds inside literals)."""
    from symint import SymInterp
    from absint import Term, Variant, Obj, Panic, CannotEstablish
    import itertools
    L = "lexer/src/lib.rs"
    lexf = ctx.syn.fn("lex", L)

    def resolver(path):
        last = path.rsplit("::", 1)[-1]
        c = [f for f in ctx.syn.fns_in(L) if f.body is not None and f.qual.rsplit("::", 1)[-1] == last and not f.in_test]
        return c[0] if len(c) == 1 else None
    XI = make_xi()
    ITEMS = {
        "ident": ("Ident", "ab", {"Ident"}), "space": ("Whitespace", " ", {"Whitespace"}), "err1": (None, "$", {"Error"}), "err2": (None, "\u00a7", {"Error"}),
        "string": ("__InternalString", '"x"', {"DoubleQuote", "StringContents", "Escape"}), "char": ("__InternalChar", "'c'", {"SingleQuote", "StringContents", "Escape"}),
        "comment": ("__InternalComment", "//c", {"CommentLeader", "CommentContents"}),
        # a comment runs to the next line feed: a carriage return inside it is part of the comment (a trailing one may count as white space)
        "comment-cr": ("__InternalComment", "//a\rb", {"CommentLeader", "CommentContents"}),
        # a comment without contents: whatever the sub-lexer emits for it (possibly an empty token) must not disturb the token that follows
        "comment-bare": ("__InternalComment", "//", {"CommentLeader", "CommentContents"}),
    }

    class LI(XI):
        def default_method(self, recv, m, args, e):
            if isinstance(recv, Obj) and recv.name == "lexer":
                st = recv.fields
                if m == "next":
                    st["i"] += 1
                    if st["i"] >= len(st["items"]):
                        return None
                    k = st["items"][st["i"]][0]
                    return Variant("Ok", {"0": Variant("LexerTokenKind::" + k)}) if k is not None else Variant("Err", {"0": Term("e")})
                if m == "span":
                    _, start, text = st["items"][st["i"]]
                    return Obj("range", start=start, end=start + len(text.encode()))
                if m == "slice":
                    return st["items"][st["i"]][2]
            if isinstance(recv, Obj) and recv.name == "range" and m == "len":
                return recv.fields["end"] - recv.fields["start"]
            if m in ("into", "shrink_to_fit") :
                return recv if m == "into" else None
            return super().default_method(recv, m, args, e)

        def eval(self, e, env):
            if e["k"] == "unsafe":
                return self.eval(e["b"] if "b" in e else e["e"], env)
            return super().eval(e, env)

    names = list(ITEMS)
    bad, n = None, 0
    for ln_ in (1, 2, 3, 4):
        for combo in itertools.product(names, repeat=ln_):
            # two adjacent identifiers / spaces are not a possible scanner output (longest match)
            if any(combo[i] == combo[i + 1] and combo[i] in ("ident", "space") for i in range(len(combo) - 1)):
                continue
            n += 1
            items, pos = [], 0
            for c in combo:
                k, text, _ = ITEMS[c]
                items.append((k, pos, text))
                pos += len(text.encode())
            total = pos
            out = {}
            it = LI(resolver=resolver, funcs={
                "TextSize::from": lambda i, a: a[0], "TextSize::new": lambda i, a: a[0], "TextSize::of": lambda i, a: len(a[0].encode()) if isinstance(a[0], str) else a[0],
                "LexerTokenKind::lexer": lambda i, a, items=items: Obj("lexer", items=items, i=-1),
                "mem::transmute": lambda i, a: Variant("TokenKind::" + a[0].last) if isinstance(a[0], Variant) else a[0],
                "std::mem::transmute": lambda i, a: Variant("TokenKind::" + a[0].last) if isinstance(a[0], Variant) else a[0],
                "Tokens::new": lambda i, a, out=out: out.update(kinds=a[0], starts=a[1]),
                "Vec::new": lambda i, a: [], "Vec::with_capacity": lambda i, a: [],
            }, macros={"debug_assert_eq": lambda i, e, env: None, "debug_assert": lambda i, e, env: None, "format": lambda i, e, env: "fmt"})
            # named integer constants of the lexer crate
            for _f, citem in ctx.syn.items_of("const", L):
                v_ = synq.int_value(citem.get("e")) if citem.get("e") is not None else None
                if v_ is not None:
                    it.consts[citem.get("name") or citem.get("ident")] = v_
            text = "".join(t for _, _, t in items)
            try:
                it.run_fn(lexf, {lexf.param_names()[0]: text})
            except (Panic, CannotEstablish) as c:
                bad = (combo, "cannot establish: %s" % getattr(c, "what", c))
                break
            if "kinds" not in out:
                bad = (combo, "lex does not end in Tokens::new(kinds, starts)")
                break
            kinds = [k.last if isinstance(k, Variant) else repr(k) for k in out["kinds"]]
            starts = out["starts"]
            why = None
            if len(starts) != len(kinds) + 1 or not all(isinstance(x, int) for x in starts):
                why = "%d kinds but %d starts" % (len(kinds), len(starts))
            elif starts[0] != 0 or starts[-1] != total or any(starts[i] > starts[i + 1] for i in range(len(starts) - 1)):
                why = "starts %s do not run from 0 to the text's length %d" % (starts, total)
            else:
                def tok_at(p_):
                    j = max(i for i in range(len(kinds)) if starts[i] <= p_)
                    return j
                for idx, (c, (k, st0, t)) in enumerate(zip(combo, items)):
                    allowed = ITEMS[c][2]
                    for p_ in range(st0, st0 + len(t.encode())):
                        j = tok_at(p_)
                        if t.encode()[p_ - st0:p_ - st0 + 1] == b"\r" and kinds[j] == "Whitespace":
                            continue
                        if kinds[j] not in allowed:
                            why = "byte %d (part of the scanner item %s %r) lies in a %s token" % (p_, c, t, kinds[j])
                            break
                        # inside a comment the kinds follow the text: the two bytes of `//` are the leader, everything behind them is the contents
                        if c.startswith("comment"):
                            want_k = "CommentLeader" if p_ - st0 < 2 else "CommentContents"
                            if kinds[j] != want_k:
                                why = "byte %d of the comment %r lies in a %s token, it is part of the %s" % (p_ - st0, t, kinds[j], "leader `//`" if want_k == "CommentLeader" else "contents")
                                break
                    if why:
                        break
                    merged_err = idx > 0 and c.startswith("err") and combo[idx - 1].startswith("err")
                    if st0 not in starts and not merged_err:
                        why = "no token begins at byte %d where the scanner item %s %r begins" % (st0, c, t)
                        break
            if why:
                bad = (combo, "%s (tokens: %s)" % (why, list(zip(kinds, starts))))
                break
        if bad:
            break
    if n < 1500 and not bad:
        raise LookupError("scanner streams evaluated: %d" % n)
    if bad:
        run.finding("lexer::lex", "stream", lexf.file, lexf.ln, "for the scanner stream %s (text %r): %s" % (list(bad[0]), "".join(ITEMS[c][1] for c in bad[0]), bad[1]))
    else:
        run.ok(lexf.site(), "lex evaluated on %d scanner streams: starts cover 0..len, a token begins at every item, every byte lies in a token of its item's kind" % n)


def r22f(ctx, run):
    """no item of the scanner's stream is dropped: every path through an iteration of lex's driver loop hands the item to the token sink (calls `handler`
    or passes it to a sub-lexer) - whatever the item's text is.  An iteration that `continue`s without a token leaves the item's bytes to a neighbour
    (or to nobody, at offset 0): the token ranges no longer tile the input.  (R22.e runs the loop on model streams; a guard on the item's TEXT is
    never taken there, so this clause looks at the paths.)"""
    import paths
    fn = ctx.syn.fn("lex", "lexer/src/lib.rs")
    loops = [n for n in walk(fn.body) if n.get("k") == "while" and "next()" in canon(n["c"])]
    if len(loops) != 1:
        raise LookupError("lex's driver loop: %d" % len(loops))
    loop = loops[0]
    sinks = set()
    for st in walk(loop["b"]):
        if st.get("k") == "local" and st["p"].get("k") == "p_ident" and st.get("init") is not None and st["init"].get("k") == "closure" and any(
                x.get("k") == "mcall" and x["m"] == "push" for x in walk(st["init"])):
            sinks.add(st["p"]["n"])
    if not sinks:
        raise LookupError("the token sink closure of lex's driver loop")

    def step(node, st):
        if node.get("k") == "call":
            callee = canon(node["f"])
            if callee in sinks or any(a.get("k") == "path" and a["p"] in sinks for a in node["a"]):
                return True
        return st
    fall, exits = paths.run(loop["b"], False, step)
    bad = [("end of the iteration", None)] if False in fall else []
    bad += [(k, l) for k, l, st in exits if k in ("continue", "break") and st is False]
    arms = sum(len(m["arms"]) for m in walk(loop["b"]) if m.get("k") == "match")
    run.check(not bad, fn.site(loop["ln"]), "every path through an iteration of lex's loop emits a token (%d match arms)" % arms, "lex", "item-dropped", fn.file, loop["ln"],
              "an iteration of lex's driver loop can end (%s) without handing the scanner's item to the token sink: the bytes of that item belong to no token of their own - the "
              "previous token swallows them, or nothing covers them at the start of the input" % ", ".join(sorted({b[0] for b in bad})))


def rules(ctx):
    return [
        Rule("R22.a", "the transmute LexerTokenKind -> TokenKind is an identity on names/discriminants; internal kinds handled first; u8 raw conversions fit", 8, r22a),
        Rule("R22.b", "Tokens::new is the only constructor and states its length invariant; range(i) = starts[i]..starts[i+1]", 3, r22b),
        Rule("R22.e", "lex's driver loop evaluated on model scanner streams: coverage 0..len, a token begins at every item, every byte in a token of its item's kind", 1, r22e),
        Rule("R22.f", "no item of the scanner's stream is dropped: every path through an iteration of the driver loop reaches the token sink", 1, r22f),
        Rule("R22.d", "literal sub-lexers evaluated on all literals up to 5 characters (1- and 2-byte characters, escapes, unterminated) with a symbolic offset = the literal token grammar", 2, r22d),
        Rule("R22.c", "sub-lexers emit only the running position, advanced by len_utf8 once per character", 15, r22c),
    ]

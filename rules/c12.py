"""C12 — implicit conversion is consistent, order-independent and weaker than casting (claimed in part).

The four laws relate Ty::can_fit_into, can_cast_to, is_weak_replaceable_by and max (hir/src/common/ty.rs).
Two of them hold by the *shape* of the functions for every type (a symbolic type value suffices); the other
two are decided on the complete scalar table (every primitive width, weak kinds) and, for the constructors,
by one induction step with symbolic member types whose recursive answers are enumerated.  All by abstract
evaluation of the source (lib/absint.py, lib/symint.py); nothing is executed.
"""
from core import Rule
from absint import Interp, Obj, Term, Variant, Panic, CannotEstablish
from symint import SymInterp
import synq
from synq import canon

PROPERTY = "C12"
TITLE = "Implicit conversion is consistent, order-independent and weaker than casting"
NEEDS = ("syn",)
TECHNIQUE = ("static analysis: abstract evaluation of the four type relations on a symbolic type (laws that hold by shape), on the complete "
             "scalar table, and one induction step per constructor with enumerated recursive answers")
EXPLANATION = (
    "Engine B, abstract evaluation of hir/src/common/ty.rs: (a) reflexivity - can_fit_into(T, T) and max(T, T) answer true / T for a "
    "SYMBOLIC type T (the early `self == other` return), so the law holds for every type; (b) fits => casts - can_cast_to(A, B) is "
    "evaluated with can_fit_into answering true for symbolic A, B and must answer true before looking at anything else, so the law holds "
    "for every pair whatever the arms say; (c) weak => fits on the complete scalar table: for every weak kind ({int}, {uint}, {float}) "
    "and every scalar target (all integer widths incl. isize/usize, both float widths, weak kinds, bool, char), "
    "is_weak_replaceable_by(A, B) implies can_fit_into(A, B); and one induction step for each constructor arm of "
    "is_weak_replaceable_by (array->array, array->slice, pointer, optional, distinct target, value->optional) with symbolic member "
    "types: for every assignment of the recursive answers that respects the induction hypothesis the implication holds; (d) the common "
    "type on the complete scalar table: max(A, B) and max(B, A) are both defined or both undefined, equal, and accept both operands "
    "(can_fit_into); constructor arms of max written as or-patterns of both orders bind symmetric names (evaluated on both orders with "
    "symbolic members).")
NOT_DECIDED = [
    "the laws for arbitrary nestings beyond one induction step per constructor (the induction is checked arm by arm, not proved as a whole)",
    "max on nominal types (distinct/variant arms use has_semantics_of: decided for the nominal clause under C13 R13.f)",
    "struct and function-type arms of the relations (member-wise loops over hash maps)",
]
ASSUMPTIONS = ["derived PartialEq on Ty is structural equality"]

TY = "hir/src/common/ty.rs"


def T(n):
    return Variant("TySym", {"n": n})


def scalars():
    out = {}
    for w in (8, 16, 32, 64, 128):
        out["i%d" % w] = Variant("Ty::IInt", {"0": w})
        out["u%d" % w] = Variant("Ty::UInt", {"0": w})
    out["isize"] = Variant("Ty::IInt", {"0": 255})
    out["usize"] = Variant("Ty::UInt", {"0": 255})
    out["{int}"] = Variant("Ty::IInt", {"0": 0})
    out["{uint}"] = Variant("Ty::UInt", {"0": 0})
    out["f32"] = Variant("Ty::Float", {"0": 32})
    out["f64"] = Variant("Ty::Float", {"0": 64})
    out["{float}"] = Variant("Ty::Float", {"0": 0})
    out["bool"] = Variant("Ty::Bool")
    out["char"] = Variant("Ty::Char")
    return out


class UnknownPredicate(CannotEstablish):
    def __init__(self, m, recv):
        CannotEstablish.__init__(self, "predicate .%s() of the arbitrary type %s" % (m, recv.payload["n"]))
        self.key = (m, repr(recv), None)
        self.m, self.n = m, recv.payload["n"]


class NI(SymInterp):
    def binop(self, op, l, r, e):
        if op in ("==", "!="):
            same = None
            if isinstance(l, (Term, Variant)) and isinstance(r, (Term, Variant)):
                same = l == r
            elif isinstance(l, list) and isinstance(r, list):
                same = l == r
            if same is not None:
                return same == (op == "==")
        return super().binop(op, l, r, e)

    world = None

    def default_method(self, recv, m, args, e):
        if isinstance(recv, Variant) and recv.last == "TySym" and not args and self.world is not None:
            # a predicate of an arbitrary type: answered by the oracle; unanswered ones are reported by name so that the caller can fork on them
            k = (m, repr(recv), None)
            if k in self.world.oracle:
                return self.world.oracle[k]
            try:
                return super().default_method(recv, m, args, e)
            except CannotEstablish:
                raise UnknownPredicate(m, recv)
        if m in ("max", "min") and len(args) == 1 and isinstance(recv, int) and isinstance(args[0], int):
            return max(recv, args[0]) if m == "max" else min(recv, args[0])
        if m == "map" and len(args) == 1 and not isinstance(recv, list):
            # Option::map (Some(x) is represented by x itself)
            if is_none(recv):
                return Variant("None")
            return self.call_closure(args[0], [recv])
        return super().default_method(recv, m, args, e)

    def eval(self, e, env):
        k = e["k"]
        if k == "struct" and e["p"].startswith("Ty::"):
            return Variant(e["p"], {f[0]: self.eval(f[1], env) for f in e["f"]})
        if k == "try":
            v = self.eval(e["e"], env)
            if is_none(v):
                from absint import _Return
                raise _Return(Variant("None"))
            return v
        return super().eval(e, env)


class World:
    """the four relations evaluated from source, with oracles for symbolic member types"""

    def __init__(self, ctx, oracle=None):
        self.fns = {n: ctx.syn.fn("Ty::" + n, TY) for n in ("can_fit_into", "can_cast_to", "is_weak_replaceable_by", "max", "might_be_weak",
                                                           "is_functionally_equivalent_to", "has_semantics_of", "is_zero_sized")}
        self.oracle = oracle or {}
        self._syn, self._others = ctx.syn, {}
        self.depth = 0
        self.fork_relations = False

    def is_sym(self, v):
        return isinstance(v, Variant) and v.last == "TySym"

    def call(self, name, recv, args, top=False):
        if not top and (self.is_sym(recv) or any(self.is_sym(a) for a in args if isinstance(a, Variant))):
            key = (name, repr(recv)) + tuple(repr(a) for a in args)
            if name in ("can_fit_into", "is_functionally_equivalent_to") and len(args) >= 1 and recv == args[0]:
                return True
            if key in self.oracle:
                return self.oracle[key]
            k2 = (name, repr(recv), repr(args[0]) if args else None)
            if k2 in self.oracle:
                return self.oracle[k2]
            if not args and self.is_sym(recv):
                raise UnknownPredicate(name, recv)
            if self.fork_relations and name != "max":
                # a relation between an arbitrary type and something else: what the source itself answers, if it needs nothing unknown ...
                try:
                    saved = self.depth
                    return self.call(name, recv, args, top=True)
                except UnknownPredicate:
                    self.depth = saved
                except (Panic, CannotEstablish):
                    self.depth = saved
                # ... else the caller forks on it
                u = UnknownPredicate(name, recv if self.is_sym(recv) else args[0])
                u.key = k2
                u.what = "relation %s(%r, %r)" % (name, recv, args)
                raise u
            raise CannotEstablish("no oracle answer for %s(%r, %r)" % (name, recv, args))
        self.depth += 1
        if self.depth > 12:
            raise CannotEstablish("recursion depth")
        try:
            f = self.fns[name]
            it = NI(methods={n: (lambda nn: (lambda i, r, a: self.call(nn, r, a) if isinstance(r, Variant) else NotImplemented))(n) for n in self.fns},
                    macros={"assert_eq": lambda i, e, env: None})
            it.world = self
            it.methods["absolute_ty"] = lambda i, r, a: self.absolute(r)
            it.methods["into"] = lambda i, r, a: r
            # any other predicate of Ty applied to a concrete type is run from its own source
            it.method_resolver = self.ty_method
            # free helper functions of ty.rs (a relation split into a helper) are run from their own source too
            it.resolver = self.free_fn
            names = f.param_names()
            env = {"self": recv}
            for n, a in zip(names[1:], args):
                env[n] = a
            return it.run_fn(f, env)
        finally:
            self.depth -= 1

    def free_fn(self, path):
        last = path.rsplit("::", 1)[-1]
        key = "fn:" + last
        if key not in self._others:
            c = [f for f in self._syn.fns_in(TY) if f.body is not None and not f.in_test and f.impl_ty is None and f.qual.rsplit("::", 1)[-1] == last]
            self._others[key] = c[0] if len(c) == 1 else None
        return self._others[key]

    def ty_method(self, recv, m):
        if not (isinstance(recv, Variant) and recv.path.startswith("Ty::")) or m in self.fns or m in ("clone", "into", "as_ref", "absolute_ty"):
            return None
        if m not in self._others:
            c = [f for f in self._syn.fns_in(TY) if f.qual == "Ty::" + m and f.body is not None and not f.in_test]
            self._others[m] = c[0] if len(c) == 1 else None
        return self._others[m]

    def absolute(self, v):
        while isinstance(v, Variant) and v.last in ("Distinct", "EnumVariant"):
            v = v.payload["sub_ty"]
        return v


def is_none(v):
    return v is None or (isinstance(v, Variant) and v.last == "None")


# ---- (a) reflexivity, (b) fits => casts : hold by shape for a symbolic type --------------------------------

def r12a(ctx, run):
    w = World(ctx)
    f = w.fns["can_fit_into"]
    a = T("A")
    for fn_name, want, law in (("can_fit_into", True, "a value of type A is accepted where A is expected"), ):
        try:
            got = w.call(fn_name, a, [a], top=True)
        except (Panic, CannotEstablish) as c:
            got = "cannot establish: %s" % getattr(c, "what", c)
        run.check(got is want, f.site(), "can_fit_into(T, T) = true for a symbolic type T", "Ty::can_fit_into", "reflexive", f.file, f.ln,
                  "can_fit_into(T, T) for an arbitrary type T is %s: %s must hold for every type (the `self == expected` early return)" % (got, law))
    mx = w.fns["max"]
    try:
        got = w.call("max", a, [a], top=True)
    except (Panic, CannotEstablish) as c:
        got = "cannot establish: %s" % getattr(c, "what", c)
    run.check(got == a, mx.site(), "max(T, T) = T for a symbolic type T", "Ty::max", "reflexive", mx.file, mx.ln,
              "max(T, T) for an arbitrary type T is %r: the common type of two operands of one type must be that type" % (got,))
    # concrete spot kinds go through the same early return (guards against an arm placed before it)
    for name, v in scalars().items():
        try:
            got = w.call("can_fit_into", v, [v])
        except (Panic, CannotEstablish) as c:
            got = None
        run.check(got is True, f.site(), "can_fit_into(%s, %s)" % (name, name), "Ty::can_fit_into", "reflexive:" + name, f.file, f.ln,
                  "%s is not accepted where %s is expected" % (name, name))


def r12b(ctx, run):
    a, b = T("A"), T("B")
    f = World(ctx).fns["can_cast_to"]
    # predicates of A and B that can_cast_to asks before (or instead of) consulting can_fit_into are forked both ways: the law must hold in every case
    work, bad, n_cases = [{("can_fit_into", repr(a), repr(b)): True}], None, 0
    while work and bad is None:
        orc = work.pop()
        n_cases += 1
        if n_cases > 64:
            bad = ("cannot establish: more than 64 predicate cases", orc)
            break
        w = World(ctx, oracle=orc)
        try:
            got = w.call("can_cast_to", a, [b], top=True)
        except UnknownPredicate as u:
            for v in (True, False):
                o2 = dict(orc)
                o2[u.key] = v
                work.append(o2)
            continue
        except (Panic, CannotEstablish) as c:
            got = "cannot establish: %s" % getattr(c, "what", c)
        if got is not True:
            bad = (got, orc)
    case = ""
    if bad:
        case = ", ".join("%s(%s)=%s" % (k[0], k[1].split("'")[-2] if "'" in k[1] else k[1], v) for k, v in bad[1].items() if k[0] != "can_fit_into")
    run.check(bad is None, f.site(), "can_cast_to(A, B) = true whenever can_fit_into(A, B), for symbolic A, B (%d predicate cases)" % n_cases, "Ty::can_cast_to", "fits-implies-casts", f.file, f.ln,
              "with can_fit_into(A, B) true for arbitrary types A, B%s, can_cast_to(A, B) is %s: an implicitly accepted conversion must also be accepted as an explicit cast "
              "(can_cast_to must consult can_fit_into before anything that can answer false)" % ((" and " + case) if case else "", bad[0] if bad else None))
    # and the consultation is on the same pair, same direction
    w2 = World(ctx, oracle={("can_fit_into", repr(a), repr(b)): False, ("can_fit_into", repr(b), repr(a)): True,
                            ("is_functionally_equivalent_to", repr(a), repr(b)): False})
    try:
        got2 = w2.call("can_cast_to", a, [b], top=True)
    except (Panic, CannotEstablish):
        got2 = "unknown"
    run.check(got2 is not True, f.site(), "the reverse fit alone does not make a cast", "Ty::can_cast_to", "direction", f.file, f.ln,
              "can_cast_to(A, B) answers true when only can_fit_into(B, A) holds: the early return consults the wrong direction")


# ---- (c) weak specialisation => fits ----------------------------------------------------------------------

def r12c(ctx, run):
    w = World(ctx)
    f = w.fns["is_weak_replaceable_by"]
    sc = scalars()
    for an in ("{int}", "{uint}", "{float}"):
        for bn, bv in sc.items():
            try:
                weak = w.call("is_weak_replaceable_by", sc[an], [bv])
                fits = w.call("can_fit_into", sc[an], [bv])
            except (Panic, CannotEstablish) as c:
                run.finding("Ty::is_weak_replaceable_by", "scalar:%s->%s" % (an, bn), f.file, f.ln, "cannot establish %s -> %s: %s" % (an, bn, getattr(c, "what", c)))
                continue
            run.check((not weak) or fits, f.site(), "%s -> %s: specialisable=%s, fits=%s" % (an, bn, weak, fits), "Ty::is_weak_replaceable_by", "scalar:%s->%s" % (an, bn), f.file, f.ln,
                      "an untyped %s value can be specialised to %s (is_weak_replaceable_by) but is NOT implicitly accepted there (can_fit_into): replace_weak_tys "
                      "asserts the implication and the compiler panics" % (an, bn))
    # induction step per constructor arm: symbolic members s (found) and t (expected)
    s, t = T("s"), T("t")

    def step(desc, key, A, B):
        n_ok = 0
        for weak_st in (False, True):
            for eqv_st in (False, True):
                for fits_st in (False, True):
                    # induction hypothesis: weak(s,t) => fits(s,t); equivalence => fits
                    if (weak_st and not fits_st) or (eqv_st and not fits_st):
                        continue
                    for mbw in (False, True):
                        orc = {("is_weak_replaceable_by", repr(s), repr(t)): weak_st, ("is_functionally_equivalent_to", repr(s), repr(t)): eqv_st,
                               ("can_fit_into", repr(s), repr(t)): fits_st, ("might_be_weak", repr(s), None): mbw,
                               ("is_zero_sized", repr(s), None): False, ("is_zero_sized", repr(t), None): False}
                        ww = World(ctx, oracle=orc)
                        try:
                            weak = ww.call("is_weak_replaceable_by", A, [B], top=True)
                            if not weak:
                                n_ok += 1
                                continue
                            fits = ww.call("can_fit_into", A, [B], top=True)
                        except (Panic, CannotEstablish) as c:
                            run.finding("Ty::is_weak_replaceable_by", "step:" + key, f.file, f.ln, "cannot establish the induction step for %s: %s" % (desc, getattr(c, "what", c)))
                            return
                        if not fits:
                            run.finding("Ty::is_weak_replaceable_by", "step:" + key, f.file, f.ln,
                                        "%s: specialisable but not accepted when the members answer weak=%s equivalent=%s fits=%s might_be_weak=%s - is_weak_replaceable_by is not "
                                        "a subset of can_fit_into (replace_weak_tys asserts it)" % (desc, weak_st, eqv_st, fits_st, mbw))
                            return
                        n_ok += 1
        run.ok(f.site(), "%s: specialisable => accepted for all %d consistent member answers" % (desc, n_ok))
    step("[n]s literal -> [n]t", "array->array", Variant("Ty::AnonArray", {"size": 3, "sub_ty": s}), Variant("Ty::ConcreteArray", {"size": 3, "sub_ty": t}))
    step("[n]s literal -> [m]t (other length)", "array->array:len", Variant("Ty::AnonArray", {"size": 3, "sub_ty": s}), Variant("Ty::ConcreteArray", {"size": 4, "sub_ty": t}))
    step("[n]s literal -> []t", "array->slice", Variant("Ty::AnonArray", {"size": 3, "sub_ty": s}), Variant("Ty::Slice", {"sub_ty": t}))
    step("[]s -> []t", "slice->slice", Variant("Ty::Slice", {"sub_ty": s}), Variant("Ty::Slice", {"sub_ty": t}))
    for fm in (False, True):
        for em in (False, True):
            step("^%ss -> ^%st" % ("mut " if fm else "", "mut " if em else ""), "pointer:%d%d" % (fm, em),
                 Variant("Ty::Pointer", {"mutable": fm, "sub_ty": s}), Variant("Ty::Pointer", {"mutable": em, "sub_ty": t}))
    step("?s -> ?t", "optional", Variant("Ty::Optional", {"sub_ty": s}), Variant("Ty::Optional", {"sub_ty": t}))
    step("s -> ?t", "value->optional", s, Variant("Ty::Optional", {"sub_ty": t}))
    step("s -> distinct t", "value->distinct", s, Variant("Ty::Distinct", {"uid": 1, "sub_ty": t}))


# ---- (d) common type ---------------------------------------------------------------------------------------

def tyname(v):
    if isinstance(v, Variant):
        p_ = v.payload or {}
        w_ = p_.get("0")
        if v.last in ("IInt", "UInt", "Float"):
            return {"IInt": "i", "UInt": "u", "Float": "f"}[v.last] + str(w_) if w_ not in (0, 255) else {("IInt", 0): "{int}", ("UInt", 0): "{uint}", ("Float", 0): "{float}", ("IInt", 255): "isize", ("UInt", 255): "usize"}[(v.last, w_)]
        if v.last == "Optional":
            return "?" + tyname(p_["sub_ty"])
        if v.last == "Distinct":
            return "distinct " + tyname(p_["sub_ty"])
        if v.last == "ErrorUnion":
            return tyname(p_["error_ty"]) + "!" + tyname(p_["payload_ty"])
        if v.last == "Some" and "0" in p_:
            return tyname(p_["0"])
        return v.last.lower()
    return repr(v)


def r12d(ctx, run):
    w = World(ctx)
    f = w.fns["max"]
    sc = scalars()
    names = list(sc)
    for i, an in enumerate(names):
        for bn in names[i:]:
            a, b = sc[an], sc[bn]
            try:
                ab, ba = w.call("max", a, [b]), w.call("max", b, [a])
            except (Panic, CannotEstablish) as c:
                run.finding("Ty::max", "scalar:%s,%s" % (an, bn), f.file, f.ln, "cannot establish max(%s, %s): %s" % (an, bn, getattr(c, "what", c)))
                continue
            key = "scalar:%s,%s" % (an, bn)
            if is_none(ab) != is_none(ba) or (not is_none(ab) and ab != ba):
                run.finding("Ty::max", key, f.file, f.ln, "max(%s, %s) = %r but max(%s, %s) = %r: the common type depends on the operand order" % (an, bn, ab, bn, an, ba))
                continue
            if is_none(ab):
                run.ok(f.site(), "max(%s, %s): no common type, in both orders" % (an, bn))
                continue
            try:
                fa, fb = w.call("can_fit_into", a, [ab]), w.call("can_fit_into", b, [ab])
            except (Panic, CannotEstablish) as c:
                run.finding("Ty::max", key, f.file, f.ln, "cannot establish whether max(%s, %s) = %r accepts its operands: %s" % (an, bn, ab, getattr(c, "what", c)))
                continue
            run.check(fa and fb, f.site(), "max(%s, %s) = %r accepts both" % (an, bn, ab), "Ty::max", key, f.file, f.ln,
                      "max(%s, %s) = %r but %s is not implicitly accepted there: the common type of two operands must accept both" % (an, bn, ab, an if not fa else bn))
    # one operand wrapped (`?a` against `b`, `distinct a` against `b`, `str!a` against `b`) on the scalar table: the common type, when there is one,
    # accepts both operands, and the answer does not depend on the order
    wrappers = (("?%s", lambda x: Variant("Ty::Optional", {"sub_ty": x})), ("distinct %s", lambda x: Variant("Ty::Distinct", {"uid": 77, "sub_ty": x})),
                ("str!%s", lambda x: Variant("Ty::ErrorUnion", {"error_ty": Variant("Ty::String"), "payload_ty": x})))
    n_wrapped = 0
    for wn, wrap in wrappers:
        for an in names:
            for bn in names:
                if wn.startswith("distinct") and an.startswith("{"):
                    continue  # a distinct of a weak literal type cannot be declared
                a, b = wrap(sc[an]), sc[bn]
                key = "wrapped:%s,%s" % (wn % an, bn)
                try:
                    ab, ba = w.call("max", a, [b]), w.call("max", b, [a])
                    if is_none(ab) != is_none(ba) or (not is_none(ab) and ab != ba):
                        run.finding("Ty::max", key, f.file, f.ln, "max(%s, %s) = %r but max(%s, %s) = %r: the common type depends on the operand order" % (wn % an, bn, ab, bn, wn % an, ba))
                        continue
                    n_wrapped += 1
                    if is_none(ab):
                        continue
                    fa, fb = w.call("can_fit_into", a, [ab]), w.call("can_fit_into", b, [ab])
                except (Panic, CannotEstablish) as c:
                    run.finding("Ty::max", key, f.file, f.ln, "cannot establish max(%s, %s) and whether it accepts its operands: %s" % (wn % an, bn, getattr(c, "what", c)))
                    continue
                if not (fa and fb):
                    run.finding("Ty::max", key, f.file, f.ln, "max(%s, %s) = %s but %s is not implicitly accepted there: the common type of two operands must accept both (an if/else "
                                "with these branch types is given a type that one branch's value cannot be converted to)" % (wn % an, bn, tyname(ab), (wn % an) if not fa else bn))
    # both operands wrapped, on a smaller table
    small = ("i32", "u8", "i64", "{int}", "{uint}", "f64", "bool")
    for wn1, wrap1 in wrappers:
        for wn2, wrap2 in wrappers:
            for an in small:
                for bn in small:
                    if (wn1.startswith("distinct") and an.startswith("{")) or (wn2.startswith("distinct") and bn.startswith("{")):
                        continue
                    a, b = wrap1(sc[an]), wrap2(sc[bn])
                    if wn2.startswith("distinct"):
                        b = Variant("Ty::Distinct", {"uid": 78, "sub_ty": sc[bn]})
                    key = "wrapped:%s,%s" % (wn1 % an, wn2 % bn)
                    try:
                        ab, ba = w.call("max", a, [b]), w.call("max", b, [a])
                        if is_none(ab) != is_none(ba) or (not is_none(ab) and ab != ba):
                            run.finding("Ty::max", key, f.file, f.ln, "max(%s, %s) = %s but in the other order %s: the common type depends on the operand order"
                                        % (wn1 % an, wn2 % bn, tyname(ab), tyname(ba)))
                            continue
                        n_wrapped += 1
                        if is_none(ab):
                            continue
                        fa, fb = w.call("can_fit_into", a, [ab]), w.call("can_fit_into", b, [ab])
                    except (Panic, CannotEstablish) as c:
                        run.finding("Ty::max", key, f.file, f.ln, "cannot establish max(%s, %s) and whether it accepts its operands: %s" % (wn1 % an, wn2 % bn, getattr(c, "what", c)))
                        continue
                    if not (fa and fb):
                        run.finding("Ty::max", key, f.file, f.ln, "max(%s, %s) = %s but %s is not implicitly accepted there: the common type of two operands must accept both"
                                    % (wn1 % an, wn2 % bn, tyname(ab), (wn1 % an) if not fa else (wn2 % bn)))
    run.check(n_wrapped >= 3 * len(names) * len(names) - 40, f.site(), "one operand wrapped (?a / distinct a / str!a against b): %d pairs order-independent, accepted pairs accept both" % n_wrapped,
              "Ty::max", "wrapped-evaluated", f.file, f.ln, "only %d of %d wrapped pairs could be evaluated" % (n_wrapped, 3 * len(names) * len(names)))
    # pairs of DIFFERENT kinds where exactly one side is implicitly accepted as the other (pointers of different mutability, pointer / rawptr, array /
    # slice, named / anonymous struct, anything / any, function / function pointer): the answer must not depend on which side comes first
    i32_ = sc["i32"]

    def memb(n_, t_):
        return Obj("MemberTy", name=Term(n_), ty=t_)
    mixed = {
        "^i32": Variant("Ty::Pointer", {"mutable": False, "sub_ty": i32_}), "^mut i32": Variant("Ty::Pointer", {"mutable": True, "sub_ty": i32_}),
        "rawptr": Variant("Ty::RawPtr", {"mutable": False}), "mut rawptr": Variant("Ty::RawPtr", {"mutable": True}),
        "[]i32": Variant("Ty::Slice", {"sub_ty": i32_}), "[2]i32": Variant("Ty::ConcreteArray", {"size": 2, "sub_ty": i32_}), "rawslice": Variant("Ty::RawSlice"),
        "any": Variant("Ty::Any"), "i32": i32_, "str": Variant("Ty::String"),
        "struct S{a: i32}": Variant("Ty::ConcreteStruct", {"uid": 5, "members": [memb("a", i32_)]}), ".{a: i32}": Variant("Ty::AnonStruct", {"members": [memb("a", i32_)]}),
    }
    mnames = list(mixed)
    n_mixed = 0
    for i_, an in enumerate(mnames):
        for bn in mnames[i_ + 1:]:
            a, b = mixed[an], mixed[bn]
            key = "mixed:%s,%s" % (an, bn)
            try:
                ab, ba = w.call("max", a, [b]), w.call("max", b, [a])
            except (Panic, CannotEstablish) as c:
                # member-wise struct arms etc.: not every pair can be evaluated; those are not counted
                continue
            n_mixed += 1
            if is_none(ab) != is_none(ba) or (not is_none(ab) and ab != ba):
                run.finding("Ty::max", key, f.file, f.ln, "max(%s, %s) = %s but max(%s, %s) = %s: whether `if c { x } else { y }` is accepted, and at which type, depends on the order "
                            "of its branches" % (an, bn, "none" if is_none(ab) else tyname(ab), bn, an, "none" if is_none(ba) else tyname(ba)))
    run.check(n_mixed >= 40, f.site(), "pairs of different kinds: %d pairs give the same answer in both orders" % n_mixed, "Ty::max", "mixed-evaluated", f.file, f.ln,
              "only %d pairs of different kinds could be evaluated" % n_mixed)
    # constructors with symbolic members, both orders (recursive answers symmetric by hypothesis)
    s, t, m = T("s"), T("t"), T("m")
    for desc, key, A, B in (
        ("?s , ?t", "optional-optional", Variant("Ty::Optional", {"sub_ty": s}), Variant("Ty::Optional", {"sub_ty": t})),
        ("?s , nil", "optional-nil", Variant("Ty::Optional", {"sub_ty": s}), Variant("Ty::Nil")),
        ("s , nil", "value-nil", s, Variant("Ty::Nil")),
        ("s!t , s!t'", "errunion-errunion", Variant("Ty::ErrorUnion", {"error_ty": s, "payload_ty": t}), Variant("Ty::ErrorUnion", {"error_ty": s, "payload_ty": m})),
    ):
        for sub in (None, m):
            orc = {("max", repr(s), repr(t)): sub if sub is not None else Variant("None"), ("max", repr(t), repr(s)): sub if sub is not None else Variant("None"),
                   ("max", repr(t), repr(m)): sub if sub is not None else Variant("None"), ("max", repr(m), repr(t)): sub if sub is not None else Variant("None"),
                   ("max", repr(s), repr(s)): s,
                   ("can_fit_into", repr(s), repr(t)): False, ("can_fit_into", repr(t), repr(s)): False,
                   ("is_zero_sized", repr(s), None): False, ("is_zero_sized", repr(t), None): False}
            ww = World(ctx, oracle=orc)
            try:
                ab, ba = ww.call("max", A, [B], top=True), ww.call("max", B, [A], top=True)
            except (Panic, CannotEstablish) as c:
                run.finding("Ty::max", "ctor:" + key, f.file, f.ln, "cannot establish max(%s) in both orders: %s" % (desc, getattr(c, "what", c)))
                break
            same = (is_none(ab) and is_none(ba)) or (not is_none(ab) and not is_none(ba) and ab == ba)
            if not same:
                run.finding("Ty::max", "ctor:" + key, f.file, f.ln, "max(%s) = %r in one order and %r in the other (members' common type: %r)" % (desc, ab, ba, sub))
                break
        else:
            run.ok(f.site(), "max(%s): same answer in both orders" % desc)


# ---- a branch that always jumps takes no part in the common type (used by C07 and C01, not a clause of C12) --------

def noeval_samples():
    s = T("s")
    out = dict(scalars())
    out.update({
        "nil": Variant("Ty::Nil"), "void": Variant("Ty::Void"), "type": Variant("Ty::Type"), "any": Variant("Ty::Any"), "str": Variant("Ty::String"),
        "rawptr": Variant("Ty::RawPtr", {"mutable": False}), "rawslice": Variant("Ty::RawSlice"),
        "?s": Variant("Ty::Optional", {"sub_ty": s}), "^s": Variant("Ty::Pointer", {"mutable": False, "sub_ty": s}),
        "[]s": Variant("Ty::Slice", {"sub_ty": s}), "[3]s": Variant("Ty::ConcreteArray", {"size": 3, "sub_ty": s}),
        "distinct s": Variant("Ty::Distinct", {"uid": 1, "sub_ty": s}),
        "E.V(s)": Variant("Ty::EnumVariant", {"enum_uid": 2, "variant_name": Term("V"), "uid": 3, "sub_ty": s, "discriminant": 0}),
        "enum E": Variant("Ty::Enum", {"uid": 2, "variants": []}),
        "s!t": Variant("Ty::ErrorUnion", {"error_ty": s, "payload_ty": T("t")}),
        "struct": Variant("Ty::ConcreteStruct", {"uid": 4, "members": []}),
        "T (arbitrary)": T("X"),
    })
    return out


def contains_noeval(v):
    if isinstance(v, Variant):
        if v.last == "AlwaysJumps":
            return True
        return any(contains_noeval(x) for x in (v.payload or {}).values())
    if isinstance(v, (list, tuple)):
        return any(contains_noeval(x) for x in v)
    return False


def noeval_law(ctx, run, clauses=("wrapped", "rejected")):
    """max(noeval, X) and max(X, noeval), evaluated from the source for every kind of X.

    wrapped : the answer contains `noeval` inside a constructor (`?noeval` ...): no error is reported for the program and the code generator cannot build the type
    rejected: the answer is not X: an if/else one of whose branches returns/breaks is refused (or retyped) although the other branch alone decides the type
    """
    w0 = World(ctx)
    f = w0.fns["max"]
    nv = Variant("Ty::AlwaysJumps")
    for name, x in noeval_samples().items():
        for order, (a, b) in (("noeval,X", (nv, x)), ("X,noeval", (x, nv))):
            work, outcomes, n = [{}], [], 0
            while work:
                orc = work.pop()
                n += 1
                if n > 64:
                    outcomes.append(("cannot establish: more than 64 predicate cases", orc))
                    break
                base = {("is_zero_sized", repr(T("s")), None): False, ("is_zero_sized", repr(T("t")), None): False}
                base.update(orc)
                ww = World(ctx, oracle=base)
                ww.fork_relations = True
                try:
                    got = ww.call("max", a, [b], top=True)
                except UnknownPredicate as u:
                    for v in (True, False):
                        o2 = dict(orc)
                        o2[u.key] = v
                        work.append(o2)
                    continue
                except (Panic, CannotEstablish) as c:
                    got = "cannot establish: %s" % getattr(c, "what", c)
                outcomes.append((got, orc))
            for got, orc in outcomes:
                case = ", ".join("%s(%s)=%s" % (k[0], k[1].split("'")[-2] if "'" in k[1] else k[1], v) for k, v in orc.items())
                where = "max(%s) with X = %s%s" % (order, name, (" [" + case + "]") if case else "")
                if isinstance(got, str):
                    run.finding("Ty::max", "noeval:%s:%s" % (order, name), f.file, f.ln, "%s: %s" % (where, got))
                    break
                if "wrapped" in clauses and not is_none(got) and contains_noeval(got) and not contains_noeval(x):
                    run.finding("Ty::max", "noeval-wrapped:%s:%s" % (order, name), f.file, f.ln,
                                "%s = %r: the common type of a branch that always jumps and a branch of type %s wraps `noeval` in a constructor; no diagnostic is reported for "
                                "such an if/else and the code generator cannot build the type (it panics): the arm for Unknown/AlwaysJumps must be consulted before the arm that "
                                "answered" % (where, got, name))
                    break
                if "rejected" in clauses and (is_none(got) or got != x) and not (not is_none(got) and contains_noeval(got)):
                    run.finding("Ty::max", "noeval-rejected:%s:%s" % (order, name), f.file, f.ln,
                                "%s = %r instead of %s: a branch that always jumps (return/break/continue) must take no part in the common type of an if/else or switch; the "
                                "well-typed program is refused or retyped" % (where, got, name))
                    break
            else:
                run.ok(f.site(), "%s = X (%d predicate cases)" % (where.split(" [")[0], len(outcomes)))


def r12e(ctx, run):
    """the type of a `switch` is the common type of its arms, whatever their order: the step that folds one more arm type into the running type
    (`match first_arm_ty { .. }` in infer_expr's Switch arm, once for the regular arms and once for the default arm) is evaluated from source on pairs of
    arm types in both orders.  Both orders must end in the same type, and that type is Ty::max of the pair (evaluated from ty.rs) - or, when max has no
    answer, both orders report the mismatch."""
    import c07
    from symint import Env
    from absint import Obj, Term, Variant, Panic, CannotEstablish, _Return
    V = Variant
    fn = ctx.syn.fn("GlobalInferenceCtx::infer_expr", "hir_ty/src/globals.rs")
    folds = [m for m in synq.matches_on(fn.body) if canon(m["e"]) == "first_arm_ty" and any("SwitchMismatch" in canon(a["b"]) for a in m["arms"])]
    if len(folds) < 2:
        raise LookupError("fold steps `match first_arm_ty` with a SwitchMismatch report in infer_expr: %d" % len(folds))
    QI = c07.make_ty_interp(ctx)
    w = World(ctx)
    i32, i64, u8 = V("Ty::IInt", {"0": 32}), V("Ty::IInt", {"0": 64}), V("Ty::UInt", {"0": 8})
    weak_u = V("Ty::UInt", {"0": 0})
    P = lambda m_, t: V("Ty::Pointer", {"mutable": m_, "sub_ty": t})
    pairs = [("{uint} and u8", weak_u, u8), ("{uint} and i64", weak_u, i64), ("i32 and i64", i32, i64), ("u8 and i32", u8, i32),
             ("[]i32 and [3]i32", V("Ty::Slice", {"sub_ty": i32}), V("Ty::ConcreteArray", {"size": 3, "sub_ty": i32, "uid": 1})), ("^i32 and ^mut i32", P(False, i32), P(True, i32)),
             ("rawptr and ^i32", V("Ty::RawPtr", {"mutable": False}), P(False, i32)), ("any and i32", V("Ty::Any"), i32), ("bool and i32", V("Ty::Bool"), i32)]

    def fold(m, first, found):
        reported = []

        class RI(QI):
            def default_method(self, recv, m_, args, e):
                if isinstance(recv, Obj) and recv.name == "self" and m_ == "replace_weak_tys":
                    return True
                if m_ == "push" and isinstance(recv, Term) and recv.op == "diagnostics":
                    reported.append(1)
                    return None
                if m_ in ("range_for_expr", "file"):
                    return Term(m_)
                return super().default_method(recv, m_, args, e)

            def eval(self, e, env):
                if e.get("k") == "field" and canon(e) == "self.diagnostics":
                    return Term("diagnostics")
                if e.get("k") == "struct" and e["p"].endswith("TyDiagnostic"):
                    return Obj("TyDiagnostic")
                return super().eval(e, env)
        it = RI()
        it.funcs["Some"] = lambda i, a: a[0]
        env = Env(None, {"self": Obj("self", loc=Term("loc"), bodies=Term("bodies")), "first_arm_ty": first, "found_arm_ty": found, "default_ty": found,
                         "arm": Obj("arm", body=Term("body")), "default": Obj("default", body=Term("body"))})
        try:
            it.eval(m, env)
        except _Return:
            pass
        return env["first_arm_ty"], bool(reported)
    n = 0
    for m in folds:
        for desc, a, b in pairs:
            key = "switch-fold:%d:%s" % (folds.index(m), desc)
            try:
                r1, rep1 = fold(m, a, b)
                r2, rep2 = fold(m, b, a)
                mx = w.call("max", a, [b], top=True)
            except (Panic, CannotEstablish) as c:
                run.finding(fn.qual, key, fn.file, m["ln"], "cannot establish the type of a switch whose arms have the types %s: %s" % (desc, getattr(c, "what", c)))
                continue
            n += 1
            none = is_none(mx)
            if none:
                good = rep1 and rep2
                why = "Ty::max has no common type for the pair, so both orders must report the mismatch; reported: %s / %s" % (rep1, rep2)
            else:
                good = r1 == mx and r2 == mx and not rep1 and not rep2
                why = "the common type is %s; the two orders give %s and %s" % (tyname(mx), tyname(r1) if isinstance(r1, Variant) else r1, tyname(r2) if isinstance(r2, Variant) else r2)
            run.check(good, fn.site(m["ln"]), "arms of types %s: same result in both orders (%s)" % (desc, "mismatch reported" if none else tyname(mx)), fn.qual, key, fn.file, m["ln"],
                      "a switch whose arms have the types %s depends on the order of its arms: %s" % (desc, why))
    if n < 12:
        raise LookupError("switch fold evaluations: %d" % n)


def rules(ctx):
    return [
        Rule("R12.a", "reflexivity for every type: can_fit_into(T, T) and max(T, T) on a symbolic type", 17, r12a),
        Rule("R12.b", "fits => casts for every pair: can_cast_to consults can_fit_into first, on the same pair", 2, r12b),
        Rule("R12.c", "weak specialisation => implicit acceptance: complete scalar table + one induction step per constructor arm", 50, r12c),
        Rule("R12.e", "the type of a switch is the common type of its arms in every order: the arm-folding step of infer_expr evaluated on type pairs, both orders, against Ty::max", 12, r12e),
        Rule("R12.d", "common type: order-independent and accepts both operands on the complete scalar table; constructor arms symmetric", 100, r12d),
    ]

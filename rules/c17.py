"""C17 — type layouts obey the documented representation rules (claimed in part: the layout tables).

The layout of every type is computed by three small functions in codegen/src/layout.rs
(`calc_single`, `StructLayout::new`, `padding_needed_for`) plus `GetLayoutInfo::stride`.  They are
evaluated here *abstractly*: scalar kinds over the finite table of widths and the two pointer widths,
constructors over symbolic member sizes/alignments (atoms size(f1), align(f1), ...) with every weak
ordering of the atoms that the code compares, and the two rounding helpers over the congruence domain
8*K + r (r = 0..7) with align in {1,2,4,8}.  The result of every leaf is compared with the documented
representation rule.  Nothing of capy is executed and no solver is used.
"""
from core import Rule
from absint import Interp, Obj, Term, Variant, Panic, CannotEstablish
from symint import SymInterp, Lin, sym, to_lin, norm, weak_orderings, Env
import synq
from synq import canon

PROPERTY = "C17"
TITLE = "Type layouts obey the documented representation rules"
NEEDS = ("syn",)
TECHNIQUE = ("static analysis: abstract evaluation of the layout functions' source over a symbolic size/alignment domain "
             "(finite width table, enumerated orderings, congruence domain mod 8) compared with the documented rules")
EXPLANATION = (
    "Engine B, abstract evaluation of codegen/src/layout.rs without running it: (a) calc_single's size and align arms for "
    "every scalar/pointer-like kind, for pointer widths 64 and 32, equal the documented table (size = bits/8, pointer-sized "
    "kinds = pointer width, slices two words, `any` = typeid + padding + rawptr) and every alignment is a power of two <= 8; "
    "(b) transparent constructors: distinct and enum-variant types have exactly their underlying size and alignment, arrays "
    "are length * element stride with the element's alignment; (c) tagged unions (enum, non-pointer optional, error union): "
    "evaluated for every weak ordering of the member sizes/alignments, the recorded EnumLayout has discriminant_offset = "
    "largest payload size, size = that + 1, align = largest member alignment; an optional of a pointer is exactly its "
    "payload (no tag) and Ty::is_non_zero is true for pointers and for nothing that has an all-zero value; (d) "
    "StructLayout::new evaluated on symbolic fields: offset_i = offset_{i-1} + size_{i-1} rounded up to align_i (declaration "
    "order, no overlap), size = end of the last field, align = largest field alignment (every ordering); (e) the rounding "
    "helpers padding_needed_for and GetLayoutInfo::stride evaluated over the congruence domain 8K+r for every residue and "
    "every alignment: offset + padding is the next multiple of align (0 <= padding < align), stride = size rounded up to "
    "align; (f) the accessors read the map they are named after and struct/enum layouts are looked up through the "
    "underlying (absolute) type.")
NOT_DECIDED = [
    "agreement of struct layouts with the host C compiler's offsetof beyond the C rule encoded in (d)",
    "that every type reaching codegen was passed to calc_layouts first (indexing panics otherwise: C06)",
    "arithmetic overflow of u32 sizes for huge arrays",
    "reflection's copy of these numbers (decided as a who-reads fact under C18 R18.e)",
]
ASSUMPTIONS = [
    "alignments are powers of two <= 8 (clause (a) decides it for scalars; constructors only take maxima of member alignments)",
    "u32 arithmetic does not overflow",
]

LAYOUT_RS = "codegen/src/layout.rs"


def impl_fn(ctx, name):
    c = [f for f in ctx.syn.fns_in(LAYOUT_RS) if f.trait == "GetLayoutInfo" and f.body is not None and f.qual.endswith("::" + name)]
    if len(c) != 1:
        raise LookupError("impl GetLayoutInfo ... fn %s: %d candidates" % (name, len(c)))
    return c[0]


def TY(name):
    return Variant("TySym", {"n": name})


def size_of(t):
    return sym(Term("size", t.payload["n"]))


def align_of(t):
    return sym(Term("align", t.payload["n"]))


def stride_of(t):
    return sym(Term("stride", t.payload["n"]))


def PAD(off, al):
    """contract model of padding_needed_for (the contract itself is decided by R17.e)"""
    if isinstance(off, int) and isinstance(al, int):
        return (-off) % al
    if isinstance(off, int) and off == 0:
        return 0
    return sym(Term("pad", norm(to_lin(off)), norm(to_lin(al))))


class Lay:
    def __init__(self):
        self.obj = Obj("TyLayouts", pointer_bit_width=None, sizes={}, alignments={}, struct_layouts={}, enum_layouts={})


class LI(SymInterp):
    """interpreter for layout.rs: LAYOUTS is a symbolic record; member types are symbols"""

    def __init__(self, lay, order=None, non_zero=None, fns=None):
        self.lay = lay
        self.non_zero = non_zero
        self.fns = fns or {}
        self.sub_calls = []
        methods = {
            "lock": lambda i, r, a: r, "get": self._get, "get_mut": lambda i, r, a: r, "ok": lambda i, r, a: r,
            "contains_key": lambda i, r, a: a[0] in r if isinstance(r, dict) else NotImplemented,
            "insert": self._insert,
            "size": self._m(size_of, "sizes"), "align": self._m(align_of, "alignments"), "stride": self._m(stride_of, None),
            "is_non_zero": self._is_non_zero,
            "struct_layout": lambda i, r, a: self.lay.obj.fields["struct_layouts"].get(r),
            "enum_layout": lambda i, r, a: self.lay.obj.fields["enum_layouts"].get(r),
            "absolute_intern_ty": lambda i, r, a: r,
            "shrink_to_fit": lambda i, r, a: None,
            "cloned": lambda i, r, a: r,
            "is_power_of_two": lambda i, r, a: (r & (r - 1) == 0 and r > 0) if isinstance(r, int) else NotImplemented,
            "trailing_zeros": lambda i, r, a: (r & -r).bit_length() - 1 if isinstance(r, int) and r > 0 else NotImplemented,
        }
        funcs = {
            "calc_single": self._calc_single, "padding_needed_for": lambda i, a: PAD(a[0], a[1]),
            "Vec::with_capacity": lambda i, a: [], "Vec::new": lambda i, a: [],
            "StructLayout::new": self._struct_new, "Self::new": self._struct_new,
        }
        super().__init__(order=order, methods=methods, funcs=funcs, consts={"LAYOUTS": lay.obj})

    def _get(self, i, r, a):
        if isinstance(r, dict):
            return r.get(a[0])
        return r

    def _insert(self, i, r, a):
        if isinstance(r, dict):
            r[a[0]] = a[1]
            return None
        return NotImplemented

    def _m(self, symf, table):
        def f(i, r, a):
            if isinstance(r, Variant) and r.last == "TySym":
                return symf(r)
            if table is not None and isinstance(r, Variant) and r in self.lay.obj.fields[table]:
                return self.lay.obj.fields[table][r]
            return NotImplemented
        return f

    def _is_non_zero(self, i, r, a):
        if self.non_zero is None:
            raise CannotEstablish("is_non_zero consulted in a scenario that does not define it")
        return self.non_zero

    def _calc_single(self, i, a):
        self.sub_calls.append(a[0])
        return None

    def _struct_new(self, i, a):
        fn = self.fns.get("StructLayout::new")
        if fn is None:
            raise CannotEstablish("StructLayout::new not located")
        return self.run_fn(fn, {fn.param_names()[0]: a[0]})

    def eval(self, e, env):
        if e["k"] == "cast":
            v = self.eval(e["e"], env)
            if isinstance(v, (Lin, Term)):
                return v       # widening/narrowing casts are the identity on symbolic sizes (overflow: not decided)
            if isinstance(v, int) and not isinstance(v, bool):
                return super().eval({"k": "cast", "e": {"k": "lit", "t": "int", "v": str(v), "ln": e["ln"]}, "ty": e["ty"], "ln": e["ln"]}, env)
        if e["k"] == "index":
            b = self.eval(e["e"], env)
            i = self.eval(e["i"], env)
            if isinstance(b, dict):
                if i not in b:
                    raise Panic("index of a layout map with a key that was not inserted, line %s" % e["ln"])
                return b[i]
        return super().eval(e, env)


def rank_order(rank):
    def order(l, r):
        def rk(v):
            if isinstance(v, int):
                key = v
            else:
                key = to_lin(v).single_atom()
            if key not in rank:
                raise CannotEstablish("comparison involves %r, which the enumerated orderings do not rank" % (v,))
            return rank[key]
        a, b = rk(l), rk(r)
        return (a > b) - (a < b)
    return order


def atom_key(v):
    if isinstance(v, int):
        return v
    l = to_lin(v)
    return l.single_atom() if l is not None else None


def run_calc(ctx, tyv, pbw, order=None, non_zero=None):
    fn = ctx.syn.fn("calc_single", LAYOUT_RS)
    snew = ctx.syn.fn("StructLayout::new", LAYOUT_RS)
    lay = Lay()
    it = LI(lay, order=order, non_zero=non_zero, fns={"StructLayout::new": snew})
    names = fn.param_names()
    it.run_fn(fn, {names[0]: tyv, names[1]: pbw})
    f = lay.obj.fields
    return f["sizes"].get(tyv), f["alignments"].get(tyv), f["struct_layouts"].get(tyv), f["enum_layouts"].get(tyv), it


# ---- (a) scalar table ---------------------------------------------------------------------------------

def scalar_cases(P):
    c = []
    for w in (8, 16, 32, 64, 128):
        for k in ("IInt", "UInt"):
            c.append((Variant("Ty::" + k, {"0": w}), "%s%d" % ("i" if k == "IInt" else "u", w), w // 8, min(w // 8, 8)))
    for k in ("IInt", "UInt"):
        c.append((Variant("Ty::" + k, {"0": 255}), ("isize" if k == "IInt" else "usize"), P, P))
        c.append((Variant("Ty::" + k, {"0": 0}), ("{int}" if k == "IInt" else "{uint}"), 4, 4))
    for w, s in ((32, 4), (64, 8), (0, 4)):
        c.append((Variant("Ty::Float", {"0": w}), "f%d" % w if w else "{float}", s, s))
    c.append((Variant("Ty::Bool"), "bool", 1, 1))
    c.append((Variant("Ty::Char"), "char", 1, 1))
    sub = TY("sub")
    for name, v in (("str", Variant("Ty::String")),
                    ("^T", Variant("Ty::Pointer", {"mutable": False, "sub_ty": sub})),
                    ("^mut T", Variant("Ty::Pointer", {"mutable": True, "sub_ty": sub})),
                    ("rawptr", Variant("Ty::RawPtr", {"mutable": False})),
                    ("fn pointer", Variant("Ty::FunctionPointer", {"param_tys": [], "return_ty": sub})),
                    ("concrete fn", Variant("Ty::ConcreteFunction", {"param_tys": [], "return_ty": sub, "fn_loc": Term("loc")})),
                    ("generic fn", Variant("Ty::NaivePolymorphicFunction", {"fn_loc": Term("loc")}))):
        c.append((v, name, P, P))
    c.append((Variant("Ty::Slice", {"sub_ty": sub}), "[]T", 2 * P, P))
    c.append((Variant("Ty::RawSlice"), "rawslice", 2 * P, P))
    c.append((Variant("Ty::Type"), "type", 4, 4))
    # any = typeid (u32) , padding, rawptr
    c.append((Variant("Ty::Any"), "any", 4 + ((-4) % P) + P, max(4, P)))
    for name in ("Void", "Nil", "AlwaysJumps", "NotYetResolved", "Unknown"):
        c.append((Variant("Ty::" + name), name.lower(), 0, 1))
    c.append((Variant("Ty::File", {"0": Term("file")}), "file", 0, 1))
    return c


def r17a(ctx, run):
    fn = ctx.syn.fn("calc_single", LAYOUT_RS)
    for pbw in (64, 32):
        P = pbw // 8
        for tyv, name, want_size, want_align in scalar_cases(P):
            desc = "%s@%d" % (name, pbw)
            try:
                size, align, sl, el, it = run_calc(ctx, tyv, pbw)
            except Panic as p:
                run.finding("calc_single", "scalar:" + desc, fn.file, fn.ln, "layout of %s (pointer width %d) panics: %s" % (name, pbw, p.what))
                continue
            except CannotEstablish as c:
                run.finding("calc_single", "scalar:" + desc, fn.file, fn.ln, "cannot establish the layout of %s: %s" % (name, c))
                continue
            good = size == want_size and align == want_align
            pow2 = isinstance(align, int) and align > 0 and align & (align - 1) == 0 and align <= 8
            if good and pow2:
                run.ok(fn.site(), "%s (ptr %d): size %s align %s" % (name, pbw, size, align))
            else:
                run.finding("calc_single", "scalar:" + desc, fn.file, fn.ln,
                            "layout of %s at pointer width %d is size=%s align=%s; the representation rules give size=%d align=%d (align a power of two <= 8)"
                            % (name, pbw, size, align, want_size, want_align))


# ---- (b) transparent constructors -----------------------------------------------------------------------

def r17b(ctx, run):
    fn = ctx.syn.fn("calc_single", LAYOUT_RS)
    sub = TY("sub")
    N = sym("len")
    cases = [
        ("distinct", Variant("Ty::Distinct", {"uid": 1, "sub_ty": sub}), size_of(sub), align_of(sub)),
        ("enum-variant", Variant("Ty::EnumVariant", {"enum_uid": 1, "variant_name": Term("name"), "uid": 2, "sub_ty": sub, "discriminant": 3}), size_of(sub), align_of(sub)),
    ]
    for arr in ("AnonArray", "ConcreteArray"):
        payload = {"size": N, "sub_ty": sub}
        if arr == "ConcreteArray":
            payload["uid"] = 1
        cases.append((arr, Variant("Ty::" + arr, payload), None, align_of(sub)))
        # ... and concrete lengths: the rule has no special lengths (one item still takes a whole stride, no item takes nothing)
        for n_ in (0, 1, 2, 3, 7):
            cases.append(("%s:len=%d" % (arr, n_), Variant("Ty::" + arr, dict(payload, size=n_)), ("len", n_), align_of(sub)))
    for name, tyv, want_size, want_align in cases:
        try:
            size, align, sl, el, it = run_calc(ctx, tyv, 64)
        except (Panic, CannotEstablish) as c:
            run.finding("calc_single", "transparent:" + name, fn.file, fn.ln, "cannot establish the layout of %s: %s" % (name, getattr(c, "what", c)))
            continue
        if want_size is None:   # array: stride * len, in either operand order
            want_size = SymInterp().binop("*", stride_of(sub), N, {"ln": fn.ln})
            rule = "length * element stride"
        elif isinstance(want_size, tuple) and want_size[0] == "len":
            want_size = SymInterp().binop("*", stride_of(sub), want_size[1], {"ln": fn.ln}) if want_size[1] else 0
            rule = "length * element stride"
        else:
            rule = "the underlying type's size"
        okc = to_lin(size) == to_lin(want_size) and to_lin(align) == to_lin(want_align)
        calc_first = any(isinstance(c, Variant) and c == sub for c in it.sub_calls)
        if okc and calc_first:
            run.ok(fn.site(), "%s: size = %r, align = %r" % (name, size, align))
        elif not okc:
            run.finding("calc_single", "transparent:" + name, fn.file, fn.ln,
                        "%s has size %r / align %r; must be %s (%r) and the underlying alignment (%r)" % (name, size, align, rule, want_size, want_align))
        else:
            run.finding("calc_single", "transparent:%s:sub-not-calculated" % name, fn.file, fn.ln,
                        "%s reads its element's layout without calculating it first (calc_single(sub_ty) missing)" % name)


# ---- (c) tagged unions --------------------------------------------------------------------------------

def orderings(items, bottom):
    """weak orderings of items + bottom constant in which the constant is minimal (sizes >= 0, aligns >= 1)"""
    keys = [bottom] + [atom_key(i) for i in items]
    return [o for o in weak_orderings(keys) if o[bottom] == min(o.values())]


def top_of(rank, keys):
    m = max(rank[k] for k in keys)
    return {k for k in keys if rank[k] == m}


def check_union(ctx, run, fn, name, tyv, members, non_zero=None):
    sizes = [size_of(m) for m in members]
    aligns = [align_of(m) for m in members]
    # an optional's tag follows its single payload; no comparison with the constants is needed there, but the
    # generic enum loop starts from 0 / 1, so both constants are ranked
    n_ok = 0
    for so in orderings(sizes, 0):
        for ao in orderings(aligns, 1):
            rank = dict(so)
            rank.update(ao)
            try:
                size, align, sl, el, it = run_calc(ctx, tyv, 64, order=rank_order(rank), non_zero=non_zero)
            except (Panic, CannotEstablish) as c:
                what = str(getattr(c, "what", c))
                extra = ""
                if "stride(" in what:
                    extra = (" - the arm consults a member's STRIDE: a sum type's layout is determined by its members' sizes and alignments only (tag right after the largest "
                             "payload); a member whose size is not a multiple of its alignment has stride > size, so the tag moves away from the payload and the type grows")
                run.finding("calc_single", "union:%s:cannot-establish" % name, fn.file, fn.ln, "cannot establish the layout of %s: %s%s" % (name, what, extra))
                return
            desc = "sizes %s aligns %s" % (so, ao)
            skeys = [0] + [atom_key(s) for s in sizes]
            akeys = [1] + [atom_key(a) for a in aligns]
            if el is None or not isinstance(el, Obj):
                run.finding("calc_single", "union:%s:no-enum-layout" % name, fn.file, fn.ln, "%s records no EnumLayout (tag offset unknown to codegen)" % name)
                return
            d = el.fields.get("discriminant_offset")
            esz = el.fields.get("size")
            eal = el.fields.get("align")
            problems = []
            if atom_key(d) not in top_of(so, skeys):
                problems.append("discriminant_offset = %r is not the largest payload size" % (d,))
            if to_lin(esz) != to_lin(SymInterp().binop("+", d, 1, {"ln": 0})) if to_lin(d) is not None else True:
                problems.append("size = %r is not discriminant_offset + 1 (one tag byte after the payload)" % (esz,))
            if atom_key(eal) not in top_of(ao, akeys):
                problems.append("align = %r is not the largest member alignment" % (eal,))
            if to_lin(size) != to_lin(esz):
                problems.append("recorded size %r differs from the EnumLayout size %r" % (size, esz))
            if atom_key(align) not in top_of(ao, akeys):
                problems.append("recorded align %r is not the largest member alignment" % (align,))
            missing = [m for m in members if not any(isinstance(c, Variant) and c == m for c in it.sub_calls)]
            if missing:
                problems.append("member layouts read before calc_single(member): %s" % [m.payload["n"] for m in missing])
            if problems:
                run.finding("calc_single", "union:%s" % name, fn.file, fn.ln, "%s under ordering [%s]: %s" % (name, desc, "; ".join(problems)))
                return
            n_ok += 1
    run.ok(fn.site(), "%s: tag at the largest payload size, size = tag offset + 1, align = largest member align (%d orderings)" % (name, n_ok))


def r17c(ctx, run):
    fn = ctx.syn.fn("calc_single", LAYOUT_RS)
    v1, v2, v3 = TY("v1"), TY("v2"), TY("v3")
    check_union(ctx, run, fn, "enum/2", Variant("Ty::Enum", {"uid": 1, "variants": [v1, v2]}), [v1, v2])
    check_union(ctx, run, fn, "enum/3", Variant("Ty::Enum", {"uid": 1, "variants": [v1, v2, v3]}), [v1, v2, v3])
    check_union(ctx, run, fn, "enum/1", Variant("Ty::Enum", {"uid": 1, "variants": [v1]}), [v1])
    check_union(ctx, run, fn, "optional", Variant("Ty::Optional", {"sub_ty": v1}), [v1], non_zero=False)
    check_union(ctx, run, fn, "error-union", Variant("Ty::ErrorUnion", {"error_ty": v1, "payload_ty": v2}), [v1, v2])
    # optional of a pointer: exactly the payload
    tyv = Variant("Ty::Optional", {"sub_ty": v1})
    try:
        size, align, sl, el, it = run_calc(ctx, tyv, 64, non_zero=True)
        good = to_lin(size) == size_of(v1) and to_lin(align) == align_of(v1)
        run.check(good, fn.site(), "optional of a pointer: size/align of the pointer, no tag", "calc_single", "optional-pointer", fn.file, fn.ln,
                  "an optional of a non-zero (pointer) type has size %r align %r; must be exactly its payload's" % (size, align))
    except (Panic, CannotEstablish) as c:
        run.finding("calc_single", "optional-pointer", fn.file, fn.ln, "cannot establish the layout of ?^T: %s" % getattr(c, "what", c))
    # Ty::is_non_zero: true for pointers, false for everything with an all-zero value
    nz = ctx.syn.fn("Ty::is_non_zero", "hir/src/common/ty.rs")
    isp = ctx.syn.fn("Ty::is_pointer", "hir/src/common/ty.rs")
    sub = TY("sub")
    kinds = {
        "Pointer": Variant("Ty::Pointer", {"mutable": False, "sub_ty": sub}), "RawPtr": Variant("Ty::RawPtr", {"mutable": False}),
        "IInt": Variant("Ty::IInt", {"0": 64}), "UInt": Variant("Ty::UInt", {"0": 255}), "Bool": Variant("Ty::Bool"), "Char": Variant("Ty::Char"),
        "Float": Variant("Ty::Float", {"0": 64}), "String": Variant("Ty::String"), "Slice": Variant("Ty::Slice", {"sub_ty": sub}),
        "RawSlice": Variant("Ty::RawSlice"), "Any": Variant("Ty::Any"), "Type": Variant("Ty::Type"), "Void": Variant("Ty::Void"),
        "Nil": Variant("Ty::Nil"), "AnonStruct": Variant("Ty::AnonStruct", {"members": []}), "ConcreteStruct": Variant("Ty::ConcreteStruct", {"uid": 1, "members": []}),
        "Enum": Variant("Ty::Enum", {"uid": 1, "variants": []}), "Optional": Variant("Ty::Optional", {"sub_ty": sub}),
        "ErrorUnion": Variant("Ty::ErrorUnion", {"error_ty": sub, "payload_ty": sub}), "AnonArray": Variant("Ty::AnonArray", {"size": 1, "sub_ty": sub}),
        "ConcreteArray": Variant("Ty::ConcreteArray", {"size": 1, "sub_ty": sub, "uid": 1}),
    }
    for kname, kv in kinds.items():
        def run_pred(f, v):
            it = Interp(methods={"absolute_ty": lambda i, r, a: r,
                                 "is_pointer": lambda i, r, a: run_pred(isp, r),
                                 "is_function": lambda i, r, a: r.last in ("ConcreteFunction", "FunctionPointer")})
            return it.run_fn(f, {"self": v})
        try:
            got = run_pred(nz, kv)
        except (Panic, CannotEstablish) as c:
            run.finding("Ty::is_non_zero", "kind:" + kname, nz.file, nz.ln, "cannot establish is_non_zero(%s): %s" % (kname, getattr(c, "what", c)))
            continue
        want = kname in ("Pointer", "RawPtr")
        run.check(got == want, nz.site(), "is_non_zero(%s) = %s" % (kname, got), "Ty::is_non_zero", "kind:" + kname, nz.file, nz.ln,
                  "is_non_zero(%s) = %s: %s" % (kname, got, "an optional pointer must be exactly pointer-sized (nil = null)" if want else
                                                "this kind has a valid all-zero value, so its optional must keep a tag byte"))


# ---- (d) struct layout --------------------------------------------------------------------------------

def r17d(ctx, run):
    fn = ctx.syn.fn("calc_single", LAYOUT_RS)
    snew = ctx.syn.fn("StructLayout::new", LAYOUT_RS)
    add = lambda a, b: SymInterp().binop("+", a, b, {"ln": 0})
    for kind in ("AnonStruct", "ConcreteStruct"):
        for n in (0, 1, 2, 3):
            fields = [TY("f%d" % (i + 1)) for i in range(n)]
            members = [Obj("MemberTy", name=Term("n%d" % i), ty=f) for i, f in enumerate(fields)]
            payload = {"members": members}
            if kind == "ConcreteStruct":
                payload["uid"] = 1
            tyv = Variant("Ty::" + kind, payload)
            aligns = [align_of(f) for f in fields]
            n_ok = 0
            failed = False
            for ao in orderings(aligns, 1):
                name = "%s/%d" % (kind, n)
                try:
                    size, align, sl, el, it = run_calc(ctx, tyv, 64, order=rank_order(ao))
                except (Panic, CannotEstablish) as c:
                    run.finding("StructLayout::new", "struct:%s:cannot-establish" % name, snew.file, snew.ln,
                                "cannot establish the layout of a %d-field struct: %s" % (n, getattr(c, "what", c)))
                    failed = True
                    break
                if sl is None or not isinstance(sl, Obj):
                    run.finding("calc_single", "struct:%s:no-struct-layout" % name, fn.file, fn.ln, "%s records no StructLayout" % name)
                    failed = True
                    break
                # reference: C rule without tail padding
                want_offsets, off = [], 0
                for f in fields:
                    off = add(off, PAD(off, align_of(f)))
                    want_offsets.append(off)
                    off = add(off, size_of(f))
                problems = []
                got_offsets = sl.fields.get("offsets")
                if not isinstance(got_offsets, list) or len(got_offsets) != n:
                    problems.append("offsets = %r (need one per field, declaration order)" % (got_offsets,))
                else:
                    for i, (g, w) in enumerate(zip(got_offsets, want_offsets)):
                        if to_lin(g) != to_lin(w):
                            problems.append("offset of field %d is %r; must be the end of field %d rounded up to this field's alignment: %r" % (i + 1, g, i, w))
                            break
                if to_lin(sl.fields.get("size")) != to_lin(off):
                    problems.append("size = %r; must be the end of the last field %r" % (sl.fields.get("size"), off))
                akeys = [1] + [atom_key(a) for a in aligns]
                if atom_key(sl.fields.get("align")) not in top_of(ao, akeys):
                    problems.append("align = %r is not the largest field alignment under ordering %s" % (sl.fields.get("align"), ao))
                if to_lin(size) != to_lin(sl.fields.get("size")):
                    problems.append("recorded size %r differs from the StructLayout size" % (size,))
                if atom_key(align) not in top_of(ao, akeys):
                    problems.append("recorded align %r is not the largest field alignment" % (align,))
                missing = [m for m in fields if not any(isinstance(c, Variant) and c == m for c in it.sub_calls)]
                if missing:
                    problems.append("field layouts read before calc_single(field): %s" % [m.payload["n"] for m in missing])
                if problems:
                    run.finding("StructLayout::new", "struct:%s" % name, snew.file, snew.ln, "%s: %s" % (name, "; ".join(problems)))
                    failed = True
                    break
                n_ok += 1
            if not failed:
                run.ok(snew.site(), "%s with %d fields: offsets in declaration order, each rounded up to its field's alignment; size = end of last field; "
                       "align = largest (%d orderings)" % (kind, n, n_ok))


# ---- (e) rounding helpers over the congruence domain 8K + r ------------------------------------------------

class Off8:
    """8*K + r with K an unknown natural number and r a small concrete natural number"""
    __slots__ = ("r",)

    def __init__(self, r):
        self.r = r

    def __repr__(self):
        return "8K+%d" % self.r

    def __eq__(self, o):
        return isinstance(o, Off8) and o.r == self.r

    def __hash__(self):
        return hash(("off8", self.r))


class CI(SymInterp):
    def binop(self, op, l, r, e):
        if isinstance(l, Off8) or isinstance(r, Off8):
            if op == "+" and isinstance(l, Off8) and isinstance(r, int):
                return Off8(l.r + r)
            if op == "+" and isinstance(r, Off8) and isinstance(l, int):
                return Off8(r.r + l)
            if op == "+" and isinstance(l, Off8) and isinstance(r, Off8):
                raise CannotEstablish("sum of two unknown offsets")
            if op == "-" and isinstance(l, Off8) and isinstance(r, int) and l.r >= r:
                return Off8(l.r - r)
            if op == "%" and isinstance(l, Off8) and isinstance(r, int) and r in (1, 2, 4, 8):
                return l.r % r
            if op == "&" and isinstance(l, Off8) and isinstance(r, int):
                if (r | 7) & 0xFFFFFFFF != 0xFFFFFFFF:
                    raise CannotEstablish("mask %#x clears bits above the alignment range" % r)
                hi = (l.r >> 3) << 3
                return Off8(hi + ((l.r & 7) & (r & 7)))
            if op == "/" and isinstance(l, Off8) and isinstance(r, int):
                raise CannotEstablish("division of an unknown offset")
            raise CannotEstablish("operation %s on the congruence domain (%r, %r) at line %s" % (op, l, r, e.get("ln")))
        return super().binop(op, l, r, e)

    def default_method(self, recv, m, args, e):
        if isinstance(recv, Off8):
            a = args[0] if args else None
            if m == "next_multiple_of" and a in (1, 2, 4, 8):
                return Off8(((recv.r + a - 1) // a) * a)
            if m == "is_multiple_of" and a in (1, 2, 4, 8):
                return recv.r % a == 0
            if m in ("wrapping_add", "saturating_add", "checked_add") and isinstance(a, int):
                return Off8(recv.r + a)
            if m == "div_ceil":
                raise CannotEstablish("div_ceil on an unknown offset")
        return super().default_method(recv, m, args, e)


def r17e(ctx, run):
    pad = ctx.syn.fn("padding_needed_for", LAYOUT_RS)
    names = pad.param_names()
    bad = None
    n = 0
    for al in (1, 2, 4, 8):
        for r in range(8):
            try:
                v = CI().run_fn(pad, {names[0]: Off8(r), names[1]: al})
            except (Panic, CannotEstablish) as c:
                bad = "cannot establish padding_needed_for(8K+%d, %d): %s" % (r, al, getattr(c, "what", c))
                break
            want = (-r) % al
            n += 1
            if v != want:
                bad = "padding_needed_for(8K+%d, %d) = %r; offset + padding must be the next multiple of the alignment (padding %d)" % (r, al, v, want)
                break
        if bad:
            break
    run.check(bad is None, pad.site(), "padding_needed_for: offset + padding is the next multiple of align, 0 <= padding < align (%d residue/align cases)" % n,
              "padding_needed_for", "contract", pad.file, pad.ln, bad or "")
    # stride
    st = impl_fn(ctx, "stride")
    bad = None
    n = 0
    for al in (1, 2, 4, 8):
        for r in range(8):
            lay = Lay()
            me = Variant("TySym", {"n": "self"})
            lay.obj.fields["sizes"][me] = Off8(r)
            lay.obj.fields["alignments"][me] = al

            class SI(CI, LI):
                pass
            it = SI.__new__(SI)
            LI.__init__(it, lay)
            it.methods["size"] = lambda i, rr, a: lay.obj.fields["sizes"][rr]
            it.methods["align"] = lambda i, rr, a: lay.obj.fields["alignments"][rr]
            try:
                v = it.run_fn(st, {"self": me})
            except (Panic, CannotEstablish) as c:
                bad = "cannot establish stride() for size 8K+%d align %d: %s" % (r, al, getattr(c, "what", c))
                break
            want = Off8(r + ((-r) % al))
            n += 1
            if not (isinstance(v, Off8) and v.r == want.r):
                bad = "stride() of size 8K+%d align %d = %r; must be the size rounded up to the alignment (%r)" % (r, al, v, want)
                break
        if bad:
            break
    run.check(bad is None, st.site(), "stride = size rounded up to align (%d residue/align cases)" % n, "GetLayoutInfo::stride", "contract", st.file, st.ln, bad or "")


# ---- (f) accessors --------------------------------------------------------------------------------------

def r17f(ctx, run):
    me = Variant("TySym", {"n": "self"})
    absme = Variant("TySym", {"n": "abs(self)"})
    for acc, table, through_abs in (("size", "sizes", False), ("align", "alignments", False),
                                    ("struct_layout", "struct_layouts", True), ("enum_layout", "enum_layouts", True)):
        fn = impl_fn(ctx, acc)
        lay = Lay()
        for t in ("sizes", "alignments", "struct_layouts", "enum_layouts"):
            lay.obj.fields[t][me] = Term("entry", t, "self")
            lay.obj.fields[t][absme] = Term("entry", t, "abs(self)")
        it = LI(lay)
        it.methods.pop("size"), it.methods.pop("align"), it.methods.pop("struct_layout"), it.methods.pop("enum_layout")
        it.methods["absolute_intern_ty"] = lambda i, r, a: absme if r == me else r
        try:
            v = it.run_fn(fn, {"self": me})
        except (Panic, CannotEstablish) as c:
            run.finding("GetLayoutInfo::" + acc, "accessor", fn.file, fn.ln, "cannot establish what %s() reads: %s" % (acc, getattr(c, "what", c)))
            continue
        want = Term("entry", table, "abs(self)" if through_abs else "self")
        run.check(v == want, fn.site(), "%s() reads %s[%s]" % (acc, table, "absolute type" if through_abs else "self"),
                  "GetLayoutInfo::" + acc, "accessor", fn.file, fn.ln,
                  "%s() returns %r; must return %s of %s" % (acc, v, table, "the underlying (absolute) type" if through_abs else "the type itself"))
    # EnumLayout::discriminant_offset and StructLayout::offsets return their own field
    for q, field in (("EnumLayout::discriminant_offset", "discriminant_offset"), ("StructLayout::offsets", "offsets")):
        fn = ctx.syn.fn(q, LAYOUT_RS)
        o = Obj("L", size=Term("f", "size"), align=Term("f", "align"), discriminant_offset=Term("f", "discriminant_offset"), offsets=Term("f", "offsets"))
        try:
            v = SymInterp().run_fn(fn, {"self": o})
        except (Panic, CannotEstablish) as c:
            run.finding(q, "accessor", fn.file, fn.ln, "cannot establish what %s returns: %s" % (q, getattr(c, "what", c)))
            continue
        run.check(v == Term("f", field), fn.site(), "%s returns self.%s" % (q, field), q, "accessor", fn.file, fn.ln, "%s returns %r, not self.%s" % (q, v, field))


def r17g(ctx, run):
    """only optionals of POINTERS are pointer-sized (no tag): the predicate that picks the representation (Ty::is_non_zero, consulted by the Optional arm
    of calc_single and by every consumer of optionals) is evaluated from source for every kind - it holds for pointers and raw pointers (also behind
    distinct / variant wrappers) and for nothing else; in particular not for function types, strings, slices or integers"""
    import c07
    from absint import Variant, Term, Obj, Panic, CannotEstablish
    V = Variant
    fn = ctx.syn.fn("Ty::is_non_zero", "hir/src/common/ty.rs")
    QI = c07.make_ty_interp(ctx)
    i32 = V("Ty::IInt", {"0": 32})
    ptr = V("Ty::Pointer", {"mutable": False, "sub_ty": i32})
    fnp = V("Ty::FunctionPointer", {"param_tys": [], "return_ty": V("Ty::Void")})
    cfn = V("Ty::ConcreteFunction", {"param_tys": [], "return_ty": V("Ty::Void"), "fn_loc": Term("loc")})
    kinds = {
        "^i32": (ptr, True), "^mut i32": (V("Ty::Pointer", {"mutable": True, "sub_ty": i32}), True), "rawptr": (V("Ty::RawPtr", {"mutable": False}), True),
        "distinct ^i32": (V("Ty::Distinct", {"uid": 1, "sub_ty": ptr}), True),
        "i32": (i32, False), "usize": (V("Ty::UInt", {"0": 255}), False), "bool": (V("Ty::Bool"), False), "char": (V("Ty::Char"), False), "f64": (V("Ty::Float", {"0": 64}), False),
        "str": (V("Ty::String"), False), "[]i32": (V("Ty::Slice", {"sub_ty": i32}), False), "rawslice": (V("Ty::RawSlice"), False), "[2]i32": (V("Ty::ConcreteArray", {"size": 2, "sub_ty": i32}), False),
        "any": (V("Ty::Any"), False), "type": (V("Ty::Type"), False), "void": (V("Ty::Void"), False), "nil": (V("Ty::Nil"), False),
        "function pointer": (fnp, False), "function": (cfn, False), "distinct function pointer": (V("Ty::Distinct", {"uid": 2, "sub_ty": fnp}), False),
        "?^i32": (V("Ty::Optional", {"sub_ty": ptr}), False), "struct": (V("Ty::ConcreteStruct", {"uid": 3, "members": [Obj("MemberTy", name=Term("a"), ty=ptr)]}), False),
        "enum": (V("Ty::Enum", {"uid": 4, "variants": []}), False), "str!^i32": (V("Ty::ErrorUnion", {"error_ty": V("Ty::String"), "payload_ty": ptr}), False),
    }
    for name, (ty, want) in kinds.items():
        it = QI()
        try:
            got = it.inline(fn, [], recv=ty)
        except (Panic, CannotEstablish) as c:
            got = "cannot establish: %s" % getattr(c, "what", c)
        run.check(got is want, fn.site(), "is_non_zero(%s) = %s" % (name, got), "Ty::is_non_zero", "non-zero:" + name, fn.file, fn.ln,
                  "is_non_zero(%s) is %s: %s" % (name, got, "an optional of this type would lose its tag byte and become pointer-sized; only optionals of pointers may"
                                                  if want is False else "an optional of a pointer is pointer-sized (nil = the null pointer); it would get a tag"))


def r17h(ctx, run):
    """StructLayout::new on concrete field lists, among them zero-sized members that still have an alignment (`[0]u64`: size 0, align 8): every member
    sits at a multiple of its own alignment, in declaration order, and the struct is as aligned as its most aligned member - whatever the member's size."""
    from symint import SymInterp
    from absint import Obj, Panic, CannotEstablish, _Return
    snew = ctx.syn.fn("StructLayout::new", LAYOUT_RS)
    helpers = {f.qual.rsplit("::", 1)[-1]: f for f in ctx.syn.fns_in(LAYOUT_RS) if f.body is not None and not f.in_test}
    samples = [
        [(1, 1), (0, 8), (1, 1)], [(0, 8)], [(0, 4), (4, 4)], [(8, 8), (0, 2), (1, 1)], [(1, 1), (0, 1), (4, 4)], [(1, 1), (0, 8)], [(3, 1), (0, 2), (0, 4), (1, 1)],
        [(1, 1), (8, 8), (1, 1)], [(4, 4), (2, 2), (1, 1), (8, 8)], [(9, 8), (1, 1)], [],
    ]
    n = 0
    for fields in samples:
        objs = [Obj("FieldTy", size=sz, align=al) for sz, al in fields]
        it = SymInterp(resolver=lambda path: helpers.get(path.rsplit("::", 1)[-1]),
                       methods={"size": lambda i, r, a: r.fields["size"], "align": lambda i, r, a: r.fields["align"], "stride": lambda i, r, a: -(-r.fields["size"] // r.fields["align"]) * r.fields["align"]},
                       funcs={"Vec::with_capacity": lambda i, a: [], "Vec::new": lambda i, a: []})
        desc = "struct of members (size, align) = %s" % (fields,)
        try:
            try:
                sl = it.run_fn(snew, {snew.param_names()[0]: objs})
            except _Return as r:
                sl = r.v
        except (Panic, CannotEstablish) as c:
            run.finding("StructLayout::new", "concrete:%s" % (fields,), snew.file, snew.ln, "cannot establish the layout of a %s: %s" % (desc, getattr(c, "what", c)))
            continue
        n += 1
        want, off, mx = [], 0, 1
        for sz, al in fields:
            off += (-off) % al
            want.append(off)
            off += sz
            mx = max(mx, al)
        got = (sl.fields.get("offsets"), sl.fields.get("size"), sl.fields.get("align")) if isinstance(sl, Obj) else sl
        run.check(got == (want, off, mx), snew.site(), "%s: offsets %s size %d align %d" % (desc, want, off, mx), "StructLayout::new", "concrete:%s" % (fields,), snew.file, snew.ln,
                  "a %s is laid out as offsets/size/align = %r; the representation rules give %r (every member at a multiple of its own alignment - also a zero-sized one - and the "
                  "struct aligned like its most aligned member)" % (desc, got, (want, off, mx)))
    if n < 9:
        raise LookupError("concrete struct layouts evaluated: %d" % n)


def rules(ctx):
    return [
        Rule("R17.a", "scalar and pointer-like kinds: size/align table for pointer widths 64 and 32; align a power of two <= 8", 70, r17a),
        Rule("R17.b", "distinct / enum variant = underlying layout; array = length * element stride, element alignment", 4, r17b),
        Rule("R17.c", "tagged unions keep a one-byte tag after the largest payload; optional pointer has no tag; is_non_zero only for pointers", 25, r17c),
        Rule("R17.g", "only optionals of pointers are pointer-sized: Ty::is_non_zero evaluated for every kind", 20, r17g),
        Rule("R17.d", "struct fields in declaration order, each at the previous end rounded up to its alignment; size/align", 8, r17d),
        Rule("R17.h", "StructLayout::new on concrete member lists, zero-sized aligned members included: offsets, size, alignment", 9, r17h),
        Rule("R17.e", "padding_needed_for / stride round up to the alignment (congruence domain mod 8)", 2, r17e),
        Rule("R17.f", "layout accessors read the table they name; struct/enum layouts through the absolute type", 6, r17f),
    ]

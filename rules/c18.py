"""C18 — reflection describes the generated code: writer/reader agreement (DESIGN §3 C18)."""
import glob
import os
import re
from core import Rule
import synq
from synq import canon, walk
import capysrc
import facts as FA
from facts import short

PROPERTY = "C18"
TITLE = "Runtime reflection and type values describe the code actually generated"
NEEDS = ("syn", "facts")
TECHNIQUE = "static analysis: cross-language table agreement (Rust writer tables vs core/src/meta.capy reader tables vs type-checker expectations), extracted from syntax; lexically resolved provenance of every written value (what it is computed from, not how locals are spelled)"
EXPLANATION = (
    "The reflection data is written by Rust (codegen::convert type ids, codegen::compiler::ty_info records) and read by "
    "capy code in core/src/meta.capy, with hir_ty::BuiltinKind describing the records to the type checker. The check "
    "extracts all three tables from source and requires agreement: (a) discriminant constants (names, values, simple<16<=indexed "
    "split) and each Ty arm of to_type_id using its own discriminant and uid generator; (b) bit-field packing of simple ids "
    "vs the shifts/masks meta.capy decodes with; (c) builtin name inventories (from_str arms, #builtin uses in core, "
    "BuiltinGlobal conversions); (d) per record kind: field order and widths of the ty_info writer = the struct declared in "
    "meta.capy = BuiltinKind::to_expected; (f) the kind chain K_infos/K_layouts is name-consistent through every table it "
    "passes (from_str, BuiltinGlobal, compile_builtin_global, MetaTy*Arrays::new, ty_info define calls, meta.capy "
    "get_type_info/size_of/align_of); (e) sizes/aligns/offsets written come from the GetLayoutInfo queries codegen itself uses.")
NOT_DECIDED = [
    "that reflected sizes/offsets equal those used by codegen for every type (both read the same layout tables; checked as a who-reads fact, not per value)",
    "type-value equality semantics at run time (`type` ids are compared as integers; uniqueness of ids per type rests on the type_ids search in to_type_id)",
    "`any` carrying the type of its value (code generation of the any temp)",
]
ASSUMPTIONS = ["capy slices are laid out as (len: usize, ptr) — the same layout codegen uses for []T (C10 R10.a reads len at offset 0)"]

KINDS = ["array", "slice", "pointer", "distinct", "struct", "enum", "variant", "optional", "error_union"]


def snake(s):
    s = s.replace("_", "")
    out = re.sub(r"(?<!^)([A-Z])", r"_\1", s).lower()
    return out


def kind_of_ty_pattern(p):
    """'Ty::AnonArray{..}' -> 'array'"""
    h = synq.last_seg(synq.pat_head(p))
    return {"AnonArray": "array", "ConcreteArray": "array", "Slice": "slice", "Pointer": "pointer", "Distinct": "distinct",
            "AnonStruct": "struct", "ConcreteStruct": "struct", "Enum": "enum", "EnumVariant": "variant", "Optional": "optional",
            "ErrorUnion": "error_union", "ConcreteFunction": "function", "FunctionPointer": "function"}.get(h, h)


def meta(ctx):
    return capysrc.CapyFile(ctx.read("core/src/meta.capy"))


def core_files(ctx):
    out = {}
    for f in sorted(glob.glob(os.path.join(ctx.repo, "core", "src", "**", "*.capy"), recursive=True)):
        out[os.path.relpath(f, ctx.repo)] = capysrc.CapyFile(open(f).read())
    return out


def rust_consts(ctx):
    out = {}
    for f, it in ctx.syn.items_of("const", "codegen/src/convert.rs"):
        if it["name"].endswith("_DISCRIMINANT"):
            out[it["name"]] = (synq.int_value(it["e"]), it["ln"])
    return out



def indexed_arm(pat, body, dconst, stem):
    """abstract evaluation of one indexed arm of to_type_id: value = (D << 26) | uid of the kind's own generator, and
    the uid is drawn AFTER every member type was registered (row index = push order of tys_to_compile, and a type is
    pushed when its arm returns: a recursive to_type_id between the draw and the push lets a nested type of the same
    kind take the earlier row)"""
    from symint import SymInterp, Lin, to_lin
    from absint import Obj, Term, Variant, Panic, CannotEstablish
    events = []

    def rec(i, r, a):
        events.append(("rec", r))
        return Term("id_of", repr(r))

    def gen(i, r, a):
        events.append(("gen", r))
        return Term("uid", repr(r))
    it = SymInterp(methods={"to_type_id": rec, "generate_unique_id": gen},
                   fields={})
    T = lambda n: Variant("TySym", {"n": n})
    env = {"meta_tys": Obj("MetaTyData", **{g + "_uid_gen": Term("gen", g) for g in
                                            ("array", "slice", "pointer", "distinct", "function", "struct", "enum", "variant", "optional", "error_union")}),
           "pointer_ty": Term("pointer_ty"), "self": T("self")}
    for alt in synq.or_alternatives(pat):
        for n in walk(alt):
            if n.get("k") == "p_ident" and n["n"][:1].islower():
                nm = n["n"]
                if nm == "members":
                    env[nm] = [Obj("MemberTy", name=Term("n1"), ty=T("m1")), Obj("MemberTy", name=Term("n2"), ty=T("m2"))]
                elif nm == "variants":
                    env[nm] = [T("v1"), T("v2")]
                else:
                    env[nm] = T(nm)
            if n.get("k") == "p_struct":
                for fname, fp in n["f"]:
                    if fp.get("k") == "p_ident" and fp["n"] == fname and fname not in env:
                        env[fname] = T(fname)
    it.consts[dconst] = Term("D")
    try:
        v = it.eval(body, __import__("symint").Env(None, env))
    except (Panic, CannotEstablish) as c:
        return ["cannot establish how the id is built: %s" % getattr(c, "what", c)], "?"
    problems = []
    want_uid = Term("uid", repr(Term("gen", stem)))
    shl = Lin.atom(Term("shl", Term("D"), 26))
    ok_vals = [Lin.atom(Term("or", shl, to_lin(want_uid))), Lin.atom(Term("or", to_lin(want_uid), shl)),
               shl.add(to_lin(want_uid))]
    if to_lin(v) not in ok_vals:
        problems.append("the id must be (%s << 26) | %s_uid_gen.generate_unique_id(); found %r" % (dconst, stem, v))
    gens = [i for i, e in enumerate(events) if e[0] == "gen"]
    recs = [i for i, e in enumerate(events) if e[0] == "rec"]
    if len(gens) != 1:
        problems.append("exactly one uid must be drawn per type, found %d" % len(gens))
    elif any(i > gens[0] for i in recs):
        problems.append("the row index is drawn before a member type is registered (to_type_id called after generate_unique_id): a nested type of the "
                        "same kind is pushed first and takes this row — reflection then describes the wrong type")
    return problems, "(%s << 26) | %s uid, drawn after %d member registrations" % (dconst, stem, len(recs))

def r18a(ctx, run):
    m = meta(ctx)
    rc = rust_consts(ctx)
    F = "crates/codegen/src/convert.rs"
    M = "core/src/meta.capy"
    NON_DENOTABLE = {"NO_RETURN_DISCRIMINANT": "the type of a block that always jumps cannot be named or observed by a program"}
    for name, (ty, val, ln) in sorted(m.consts.items()):
        if not name.endswith("_discriminant"):
            continue
        r = rc.get(name.upper())
        if r is None:
            run.finding("core::meta", "const:" + name, M, ln, "meta.capy declares %s = %d but convert.rs has no %s" % (name, val, name.upper()))
        else:
            run.check(r[0] == val, "%s:%d" % (M, ln), "%s = %d on both sides" % (name, val), "core::meta", "const:" + name, M, ln,
                      "%s is %d in meta.capy but %s is %s in convert.rs: every type of that kind is reflected as something else" % (name, val, name.upper(), r[0]))
    for name, (val, ln) in sorted(rc.items()):
        if name.lower() not in m.consts:
            if name in NON_DENOTABLE:
                run.exempt("%s:%d" % (F, ln), "%s has no capy counterpart" % name, NON_DENOTABLE[name])
            else:
                run.finding("codegen::convert", "const:" + name, F, ln, "%s = %s has no counterpart in meta.capy: get_type_info cannot decode such ids" % (name, val))
    vals = [v for v, _ in rc.values()]
    run.check(len(set(vals)) == len(vals), F + ":1", "discriminants pairwise distinct", "codegen::convert", "distinct", F, 1, "two type kinds share a discriminant: %s" % sorted(vals))
    # simple / indexed split: to_type_id uses simple_id* for the < 16 ones and `X << 26 | uid` for the others
    fn = ctx.syn.fn("Intern::to_type_id", "codegen/src/convert.rs")
    ms = [x for x in synq.matches_on(fn.body) if canon(x["e"]) == "self.as_ref()"]
    if len(ms) != 1:
        raise LookupError("match self.as_ref() in to_type_id")
    for h, p, g, b, arm in synq.match_table(ms[0]):
        body = canon(b)
        used = sorted(set(re.findall(r"\b([A-Z_]+_DISCRIMINANT)\b", body)))
        kind = kind_of_ty_pattern(p)
        if not used:
            if "unreachable!" in body:
                run.exempt(fn.site(arm["ln"]), "%s arm is unreachable!()" % canon(p)[:40], "type never reaches codegen")
                continue
            run.finding("to_type_id", "arm:" + kind, fn.file, arm["ln"], "arm %s uses no discriminant constant" % canon(p)[:50])
            continue
        d = used[0]
        val = rc.get(d, (None,))[0]
        simple = "simple_id" in body
        indexed = ("%s << 26" % d) in body
        if simple:
            run.check(val is not None and val < 16 and len(used) == 1, fn.site(arm["ln"]), "%s -> simple id with %s (%s < 16)" % (canon(p)[:30], d, val), "to_type_id",
                      "simple:" + kind, fn.file, arm["ln"], "simple ids must use a discriminant < 16 (meta.capy branches on `discriminant < 16`): %s = %s" % (d, val))
        elif indexed:
            stem = d[:-len("_DISCRIMINANT")].lower()
            problems, shown = indexed_arm(p, b, d, stem)
            good = val is not None and val >= 16 and len(used) == 1 and not problems
            run.check(good, fn.site(arm["ln"]), "%s -> %s" % (canon(p)[:30], shown), "to_type_id", "indexed:" + kind, fn.file, arm["ln"],
                      "indexed id for %s: %s" % (kind, "; ".join(problems) or "discriminant %s = %s must be a single constant >= 16" % (used, val)))
            run.check(stem == kind, fn.site(arm["ln"]), "Ty kind %s uses %s" % (kind, d), "to_type_id", "kind:" + kind, fn.file, arm["ln"],
                      "Ty kind `%s` is given the id of kind `%s`" % (kind, stem))
        else:
            run.finding("to_type_id", "shape:" + kind, fn.file, arm["ln"], "arm %s builds its id in a way the analysis does not know" % canon(p)[:40])
    # the type is pushed to the to-compile list (row order of the reflection arrays) only after its id was built
    top = fn.body["s"]
    i_match = [i for i, st in enumerate(top) if st["k"] == "local" and st.get("init") is ms[0]]
    i_push = [i for i, st in enumerate(top) if st["k"] == "expr" and st["e"].get("k") == "mcall" and st["e"]["m"] == "push"
              and canon(st["e"]["r"]).endswith("tys_to_compile")]
    n_push = len([x for x in walk(fn.body) if x.get("k") == "mcall" and x["m"] == "push" and canon(x["r"]).endswith("tys_to_compile")])
    good = len(i_match) == 1 and len(i_push) == 1 and n_push == 1 and i_push[0] > i_match[0]
    run.check(good, fn.site(), "tys_to_compile.push(self) happens once, after the id (and every member type) was produced", "to_type_id", "push-order", fn.file, fn.ln,
              "a type must be appended to tys_to_compile exactly once and only after its members were registered: the reflection arrays are emitted in this "
              "order and indexed by the uid drawn at the end of each arm")
    # expected simple arms use the right constant
    want = {"Bool": "BOOL", "String": "STRING", "Char": "CHAR", "Type": "META_TYPE", "Any": "ANY", "RawPtr": "RAW_PTR", "RawSlice": "RAW_SLICE", "File": "FILE",
            "Void": "VOID", "Nil": "NIL", "IInt": "INT", "UInt": "INT", "Float": "FLOAT"}
    for h, p, g, b, arm in synq.match_table(ms[0]):
        k = synq.last_seg(synq.pat_head(p))
        if k in want:
            used = set(re.findall(r"\b([A-Z_]+)_DISCRIMINANT\b", canon(b)))
            run.check(used == {want[k]}, fn.site(arm["ln"]), "Ty::%s -> %s_DISCRIMINANT" % (k, want[k]), "to_type_id", "simple-kind:" + k + ":" + canon(p)[:20], fn.file, arm["ln"],
                      "Ty::%s must be reflected with %s_DISCRIMINANT, found %s" % (k, want[k], sorted(used)))
    # Type_Info enum: variant name <-> constant stem
    for vname, payload, disc, ln in m.enum_variants.get("Type_Info", []):
        good = disc == snake(vname) + "_discriminant"
        run.check(good, "%s:%d" % (M, ln), "Type_Info.%s | %s" % (vname, disc), "core::meta::Type_Info", "variant:" + vname, M, ln,
                  "Type_Info.%s carries discriminant `%s`; expected `%s_discriminant`" % (vname, disc, snake(vname)))


def field_layout(fn):
    """from simple_id_with_align: name -> (shift, width_bits)"""
    shifts, widths = {}, {}
    params = [p for p in fn.param_names()]
    for s in fn.body["s"]:
        if s["k"] == "local" and s["init"] and s["init"].get("k") == "bin" and s["init"]["op"] == "<<":
            src = canon(s["init"]["l"])
            src = re.sub(r"[()]|as u32", "", src).strip()
            shifts[src] = synq.int_value(s["init"]["r"])
        if s["k"] == "expr" and s["e"].get("k") == "macro" and s["e"]["name"] == "assert" and s["e"]["a"]:
            c = s["e"]["a"][0]
            if c.get("k") == "bin" and c["op"] == "<":
                bound = synq.int_value(c["r"])
                widths[canon(c["l"])] = bound.bit_length() if bound is not None else None
    for p in params:
        shifts.setdefault(p, 0)
    return shifts, widths


def r18b(ctx, run):
    fn = ctx.syn.fn("simple_id_with_align", "codegen/src/convert.rs")
    shifts, widths = field_layout(fn)
    F = "simple_id_with_align"
    widths.setdefault("signed", 1)
    fields = {}
    for name in ("discriminant", "size", "align", "signed"):
        sh, w = shifts.get(name), widths.get(name)
        if sh is None or w is None:
            run.finding(F, "field:" + name, fn.file, fn.ln, "cannot determine shift/width of `%s` in the simple type id (shift=%s width=%s)" % (name, sh, w))
            continue
        fields[name] = (sh, w)
        run.ok(fn.site(), "writer packs %s at bits [%d, %d)" % (name, sh, sh + w))
    last = canon(fn.body["s"][-1])
    run.check(all(x in last for x in ("id", "sign", "align", "size")) and "|" in last, fn.site(fn.body["s"][-1]["ln"]), "id = OR of the four fields", F, "or", fn.file, fn.body["s"][-1]["ln"],
              "the simple id must be the OR of discriminant, sign, align and size fields; found %s" % last)
    items = sorted(fields.items(), key=lambda kv: kv[1][0])
    for (a, (sa, wa)), (b, (sb, wb)) in zip(items, items[1:]):
        run.check(sa + wa <= sb, fn.site(), "fields %s and %s do not overlap" % (a, b), F, "overlap:%s/%s" % (a, b), fn.file, fn.ln,
                  "bit fields %s [%d,%d) and %s [%d,%d) overlap" % (a, sa, sa + wa, b, sb, sb + wb))
    if "discriminant" in fields:
        run.check(fields["discriminant"][0] + fields["discriminant"][1] == 32, fn.site(), "discriminant occupies the top bits of the u32", F, "top", fn.file, fn.ln,
                  "discriminant field must end at bit 32")
    # reader side
    m = meta(ctx)
    M = "core/src/meta.capy"

    def body_text(name):
        b = m.function_body(name)
        if b is None:
            raise LookupError("meta.capy function %s" % name)
        return "".join(x[1] for x in b), b[0][2]

    def mask_width(s):
        return capysrc.num(s).bit_length()
    expect = fields
    checks = [
        ("size_of", r"discriminant:=ty>>(\d+)", "discriminant", lambda mm: (int(mm.group(1)), 32 - int(mm.group(1)))),
        ("size_of", r"usize\.\(ty&(0b[01]+)\)", "size", lambda mm: (0, mask_width(mm.group(1)))),
        ("align_of", r"discriminant:=ty>>(\d+)", "discriminant", lambda mm: (int(mm.group(1)), 32 - int(mm.group(1)))),
        ("align_of", r"usize\.\(\(ty>>(\d+)\)&(0b[01]+)\)", "align", lambda mm: (int(mm.group(1)), mask_width(mm.group(2)))),
        ("get_type_info", r"discrim:=raw>>(\d+)", "discriminant", lambda mm: (int(mm.group(1)), 32 - int(mm.group(1)))),
        ("get_type_info", r"bit_width=u8\.\(\(raw&(0b[01]+)\)\*8\)", "size", lambda mm: (0, mask_width(mm.group(1)))),
        ("get_type_info", r"signed=bool\.\(\(raw>>(\d+)\)&(\d+)\)", "signed", lambda mm: (int(mm.group(1)), mask_width(mm.group(2)))),
        ("get_type_info", r"mutable=bool\.\(\(raw>>(\d+)\)&(\d+)\)", "signed", lambda mm: (int(mm.group(1)), mask_width(mm.group(2)))),
    ]
    for fname, rx, field, dec in checks:
        text, ln = body_text(fname)
        ms = list(re.finditer(rx, text))
        if not ms:
            run.finding("core::meta::" + fname, "decode:" + field, M, ln, "meta.capy %s no longer decodes the `%s` field in a form the analysis recognises" % (fname, field))
            continue
        for mm in ms:
            got = dec(mm)
            want = expect.get(field)
            run.check(got == want, "%s:%d" % (M, ln), "%s decodes %s at shift %d width %d" % (fname, field, got[0], got[1]), "core::meta::" + fname, "decode:" + field, M, ln,
                      "%s reads `%s` as bits [%d,%d) but the compiler writes it at [%s,%s)" % (fname, field, got[0], got[0] + got[1], want and want[0], want and want[0] + want[1]))
    # index mask
    for fname in ("size_of", "align_of", "get_type_info"):
        text, ln = body_text(fname)
        ms = re.findall(r"&~\((0b[01]+)<<(\d+)\)", text)
        good = bool(ms) and all((capysrc.num(a).bit_length(), int(b)) == (fields["discriminant"][1], fields["discriminant"][0]) for a, b in ms)
        run.check(good, "%s:%d" % (M, ln), "%s strips exactly the discriminant bits to get the index (%d sites)" % (fname, len(ms)), "core::meta::" + fname, "index-mask", M, ln,
                  "%s must clear exactly the discriminant bits (mask %d bits << %d) to obtain the array index; found %s" % (fname, fields["discriminant"][1], fields["discriminant"][0], ms))
        ms2 = re.findall(r"discriminant<(\d+)|discrim<(\d+)", text)
        for a, b in ms2:
            v = int(a or b)
            run.check(v == 16, "%s:%d" % (M, ln), "%s: simple ids are those < 16" % fname, "core::meta::" + fname, "simple-threshold", M, ln,
                      "%s treats ids < %d as simple; the compiler's split is 16" % (fname, v))


def from_str_table(ctx):
    fn = ctx.syn.fn("BuiltinKind::from_str", "hir_ty/src/lib.rs")
    m = synq.matches_on(fn.body)[0]
    out = {}
    for h, p, g, b, arm in synq.match_table(m):
        if p["k"] == "p_lit" and p["v"].startswith('"'):
            out[p["v"][1:-1]] = (canon(synq.strip_block(b)), arm["ln"])
    return fn, out


def r18c(ctx, run):
    fn, tbl = from_str_table(ctx)
    uses = {}
    for fname, cf in core_files(ctx).items():
        for (bind, ty, s, ln) in cf.builtins:
            uses.setdefault(s, []).append((fname, bind, ty, ln))
    for s, us in sorted(uses.items()):
        for (fname, bind, ty, ln) in us:
            run.check(s in tbl, "%s:%d" % (fname, ln), "#builtin(\"%s\") has a handler" % s, "core", "builtin-use:" + s, fname, ln,
                      "core uses #builtin(\"%s\") but BuiltinKind::from_str has no such arm" % s)
    for s, (body, ln) in sorted(tbl.items()):
        if s not in uses:
            run.exempt(fn.site(ln), "builtin \"%s\" has a handler but no use in core" % s, "unused handler cannot misdescribe anything")
        else:
            run.ok(fn.site(ln), "builtin \"%s\" -> %s" % (s, body[:60]))
    # declared capy types agree with the kind
    for s, us in sorted(uses.items()):
        if s not in tbl:
            continue
        body = tbl[s][0]
        for (fname, bind, ty, ln) in us:
            if "InfoSlice" in body:
                k = re.search(r"BuiltinSubKind::(\w+)", body).group(1)
                want = "[]Type_Info." + {"ErrorUnion": "Error_Union"}.get(k, k)
                run.check(ty == want, "%s:%d" % (fname, ln), "%s : %s" % (bind, ty), "core", "builtin-type:" + s, fname, ln, "%s is declared `%s` but builtin \"%s\" provides %s records" % (bind, ty, s, want))
                run.check(s == snake(k) + "_infos" and bind == s, "%s:%d" % (fname, ln), "name %s <-> kind %s" % (s, k), "core", "builtin-kind:" + s, fname, ln,
                          "builtin \"%s\" (bound to %s) is mapped to sub-kind %s" % (s, bind, k))
            elif "LayoutSlice" in body:
                k = re.search(r"BuiltinSubKind::(\w+)", body).group(1)
                run.check(ty == "[]Layout" and s == snake(k) + "_layouts" and bind == s, "%s:%d" % (fname, ln), "%s : %s (kind %s)" % (bind, ty, k), "core", "builtin-layout:" + s, fname, ln,
                          "builtin \"%s\" (bound to %s : %s) is mapped to layout sub-kind %s" % (s, bind, ty, k))
            elif "SingleLayout" in body:
                run.check(ty == "Layout", "%s:%d" % (fname, ln), "%s : Layout" % bind, "core", "builtin-layout:" + s, fname, ln, "%s must be a single Layout" % bind)
            elif "PtrFromRaw" in body or "PtrToRaw" in body:
                mut = "mutable: true" in body
                opt = "opt: true" in body
                to_raw = "PtrToRaw" in body
                if to_raw:
                    want = "(ptr:%srawptr)->usize" % ("?" if opt else "")
                else:
                    want = "(raw:usize)->%s%srawptr" % ("?" if opt else "", "mut" if mut else "")
                got = ty.replace(" ", "")
                # the name encodes const/mut; the declared return type must agree with the handler
                if got == want:
                    run.ok("%s:%d" % (fname, ln), "%s : %s matches builtin \"%s\"" % (bind, ty, s))
                else:
                    run.finding("core", "builtin-sig:%s:%s" % (bind, s), fname, ln, "%s is declared `%s` but builtin \"%s\" has signature `%s`" % (bind, ty, s, want))
    # BuiltinGlobal conversion covers every global builtin kind
    conv = [f for f in ctx.syn.fns_in("codegen/src/builtin.rs") if f.name == "from" and f.impl_ty == "BuiltinGlobal"]
    if len(conv) != 1:
        raise LookupError("From<BuiltinKind> for BuiltinGlobal")
    m = synq.matches_on(conv[0].body)[0]
    for h, p, g, b, arm in synq.match_table(m):
        pc, bc = canon(p), canon(synq.strip_block(b))
        mm = re.search(r"BuiltinKind::(LayoutSlice|InfoSlice|SingleLayout)\{sub_kind: hir_ty::BuiltinSubKind::(\w+)\}", pc.replace(", ..", ""))
        if mm:
            kind, sub = mm.group(1), mm.group(2)
            want = "BuiltinGlobal::%s%s" % (sub, {"LayoutSlice": "Layouts", "InfoSlice": "Infos", "SingleLayout": "Layout"}[kind])
            run.check(bc == want, conv[0].site(arm["ln"]), "%s{%s} -> %s" % (kind, sub, bc), "BuiltinGlobal::from", "conv:%s:%s" % (kind, sub), conv[0].file, arm["ln"],
                      "BuiltinKind::%s{%s} converts to %s, expected %s" % (kind, sub, bc, want))


# ---- R18.d record shapes -------------------------------------------------------------------------
def capy_widths(ty):
    ty = ty.replace(" ", "")
    if ty.startswith("[]"):
        return ["usize", "ptr"]
    return {"usize": ["usize"], "type": ["u32"], "bool": ["u8"], "u32": ["u32"], "u8": ["u8"], "str": ["ptr"]}.get(ty, ["?" + ty])


def rust_ty_widths(e):
    c = canon(e)
    if c.startswith("Ty::Slice"):
        return ["usize", "ptr"]
    return {"Ty::UInt(u8::MAX).into()": ["usize"], "Ty::Type.into()": ["u32"], "Ty::Bool.into()": ["u8"], "Ty::UInt(32).into()": ["u32"],
            "Ty::String.into()": ["ptr"]}.get(c, ["?" + c[:30]])


def member_list(vecmac):
    """vec![MemberTy{name: Name(Key::x()), ty: ..}, ..] -> [(name, widths, tyexpr)]"""
    out = []
    for el in vecmac.get("a") or []:
        if el.get("k") == "struct" and el["p"].endswith("MemberTy"):
            fl = {x[0]: x[1] for x in el["f"]}
            nm = re.search(r"Key::(\w+)\(\)", canon(fl["name"]))
            out.append((nm.group(1) if nm else "?", rust_ty_widths(fl["ty"]), fl["ty"]))
    return out


def writer_pushes(block, data_name):
    """sequence of (width, semantic) pushed onto `data_name` in a block (both branches of an if must agree)"""
    seq = []
    for s in block["s"]:
        e = s.get("e") if s["k"] == "expr" else None
        if e is None:
            continue
        if e.get("k") == "if":
            a = writer_pushes(e["t"], data_name)
            b = writer_pushes(e["e"], data_name) if e.get("e") else []
            if [x[0] for x in a] != [x[0] for x in b]:
                seq.append(("?branches-differ", canon(e)[:40]))
            else:
                seq.extend(a)
            continue
        if e.get("k") == "for":
            continue
        if e.get("k") == "mcall" and canon(e["r"]) == data_name:
            if e["m"] == "push_num":
                w = canon(e["a"][1])
                width = {"ptr_bit_width": "usize", "32": "u32", "8": "u8"}.get(w, "?" + w)
                seq.append((width, canon(e["a"][0])))
            elif e["m"] == "push_reloc_ptr":
                seq.append(("ptr", canon(e["a"][0])))
    return seq


SEM = {  # writer expression -> field name in meta.capy
    "size": "len", "sub_ty": "sub_ty", "mutable": "mutable", "discriminant": "discriminant", "error_ty": "error_ty", "payload_ty": "payload_ty",
    "discriminant_offset": "discriminant_offset", "variants": "variants", "members": "members", "ty": "ty", "member_offsets": "offset", "name_str_id": "name",
    "0": "is_non_zero", "1": "is_non_zero",
}


def sem_of(expr):
    for key in ("to_previous_type_id",):
        mm = re.match(r"(\w+)\.to_previous_type_id", expr)
        if mm:
            return mm.group(1)
    mm = re.match(r"\(?\*?(\w+)", expr)
    if "discriminant_offset()" in expr:
        return "discriminant_offset"
    if ".len()" in expr:
        return re.match(r"\(?(\w+)\.len\(\)", expr).group(1)
    return mm.group(1) if mm else expr


def r18d(ctx, run):
    m = meta(ctx)
    M = "core/src/meta.capy"
    # reader side
    capy_rec = {}
    for vname, payload, disc, ln in m.enum_variants.get("Type_Info", []):
        if payload:
            capy_rec[snake(vname)] = (payload, ln)
    capy_rec["member"] = (m.structs.get("Member_Info", []), 0)
    capy_rec["layout"] = (m.structs.get("Layout", []), 0)
    # type-checker side
    te = ctx.syn.fn("BuiltinKind::to_expected", "hir_ty/src/lib.rs")
    hir = {}
    for n in walk(te.body):
        if n.get("k") == "match" and canon(n["e"]) == "sub_kind":
            for h, p, g, b, arm in synq.match_table(n):
                k = snake(synq.last_seg(h))
                vm = synq.strip_block(b)
                if vm.get("k") == "macro" and vm["name"] == "vec":
                    hir[k] = (member_list(vm), arm["ln"])
    # nested member record + layout record
    for n in walk(te.body):
        if n.get("k") == "macro" and n["name"] == "vec":
            ml = member_list(n)
            names = [x[0] for x in ml]
            if names == ["name", "ty", "offset"]:
                hir["member"] = (ml, n["ln"])
            if names == ["size", "align"]:
                hir.setdefault("layout", (ml, n["ln"]))
    # writer side
    ti = ctx.syn.fn("compile_type_info", "codegen/src/compiler/ty_info.rs")
    ms = [x for x in synq.matches_on(ti.body) if canon(x["e"]) == "ty.as_ref()"]
    if len(ms) != 1:
        raise LookupError("match ty.as_ref() in compile_type_info")
    writer = {}
    for arm in ms[0]["arms"]:
        kinds = {kind_of_ty_pattern(a) for a in synq.or_alternatives(arm["p"])}
        if len(kinds) != 1:
            continue
        k = kinds.pop()
        if k not in KINDS:
            continue
        b = arm["b"]
        if b.get("k") != "block":
            continue
        writer[k] = (writer_pushes(b, k + "_info_data"), arm["ln"])
        if k == "struct":
            for n in walk(b):
                if n.get("k") == "for":
                    writer["member"] = (writer_pushes(n["b"], "member_info_data"), n["ln"])
    ml = ctx.syn.fn("compile_memory_layouts", "codegen/src/compiler/ty_info.rs")
    for n in walk(ml.body):
        if n.get("k") == "for":
            writer["layout"] = (writer_pushes(n["b"], "data"), n["ln"])
    for k in KINDS + ["member", "layout"]:
        w, c, h = writer.get(k), capy_rec.get(k), hir.get(k)
        if w is None or c is None or h is None:
            run.finding("reflection-record", "missing:" + k, ti.file, ti.ln, "record kind `%s`: writer=%s reader=%s type-checker=%s (one side not found)" % (k, w is not None, c is not None, h is not None))
            continue
        ww = [x[0] for x in w[0]]
        cw = [x for f in c[0] for x in capy_widths(f[1])]
        hw = [x for f in h[0] for x in f[1]]
        site = "%s:%d" % (ti.file, w[1])
        run.check(ww == cw, site, "%s record: writer widths %s = meta.capy %s" % (k, ww, [f[0] + ":" + f[1] for f in c[0]]), "compile_type_info", "widths-writer-vs-capy:" + k, ti.file, w[1],
                  "`%s` record: the compiler writes fields of widths %s but meta.capy declares %s (widths %s): every field after the first difference is read from the wrong bytes"
                  % (k, ww, [f[0] + ":" + f[1] for f in c[0]], cw))
        run.check(hw == cw, "%s:%d" % (te.file, h[1]), "%s record: type-checker widths = meta.capy" % k, "BuiltinKind::to_expected", "widths-hir-vs-capy:" + k, te.file, h[1],
                  "`%s` record: BuiltinKind::to_expected describes widths %s, meta.capy declares %s" % (k, hw, cw))
        cn, hn = [f[0] for f in c[0]], [f[0] for f in h[0]]
        run.check(cn == hn, "%s:%d" % (te.file, h[1]), "%s record: field names %s" % (k, cn), "BuiltinKind::to_expected", "names:" + k, te.file, h[1],
                  "`%s` record: field names differ: meta.capy %s vs to_expected %s" % (k, cn, hn))
        # what each written value is computed FROM (lexically resolved provenance, not the spelling of local names) against the field it lands in
        flat_names = []
        for f in c[0]:
            flat_names += [f[0]] * len(capy_widths(f[1]))
        sems = writer_sems(ctx, k)
        okk = sems is not None and len(sems) == len(flat_names) and all(sem_matches(sv, n, k) for sv, n in zip(sems, flat_names))
        run.check(okk, site, "%s record: each written value comes from the source its field names: %s" % (k, sems), "compile_type_info", "order:" + k, ti.file, w[1],
                  "`%s` record: the values written are computed from %s (in this order) but meta.capy's fields are %s: a field holds something else than it names"
                  % (k, sems, flat_names))


_WS = {}


def writer_sems(ctx, kind):
    """per record kind: for every value pushed (in order), the semantic source it is computed from"""
    if "all" not in _WS or _WS.get("syn") is not ctx.syn:
        _WS.clear()
        _WS["syn"] = ctx.syn
        _WS["all"] = {}
        import prov
        for fname in ("compile_type_info", "compile_memory_layouts"):
            f = ctx.syn.fn(fname, "codegen/src/compiler/ty_info.rs")
            P = prov.Prov(f)
            pushes, fors, defs = [], [], []

            def on(n, sc):
                if n.get("k") == "for":
                    fors.append((n, sc))
                if n.get("k") == "mcall" and n["m"] in ("push_num", "push_reloc_ptr") and n["r"].get("k") == "path":
                    pushes.append((n, sc))
                if n.get("k") == "call" and canon(n["f"]).rsplit("::", 1)[-1] == "define":
                    defs.append((n, sc))
                if n.get("k") == "mcall" and n["m"] == "define_array":
                    defs.append((n, sc))
            P.visit(on)

            def same_binding(e1, s1, e2, s2):
                if e1.get("k") != "path" or e2.get("k") != "path":
                    return False
                b1, b2 = s1.lookup(e1["p"])[0], s2.lookup(e2["p"])[0]
                return b1 is not None and b1 is b2

            def data_source(arr_name):
                """fields the rows pushed onto data array `arr_name` are built from: the iterated expressions of the loops that push onto it"""
                out = set()
                for fo, fsc in fors:
                    if any(x.get("k") == "mcall" and x["m"] in ("push_num", "push_reloc_ptr") and canon(x["r"]) == arr_name for x in walk(fo["b"])):
                        out |= {t for t in P.tags(fo["e"], fsc) if t.startswith("field:")}
                return out

            def sem(n, sc):
                arg = n["a"][0]
                T = P.tags(arg, sc)
                fields = sorted(t.split(".", 1)[1] for t in T if t.startswith("field:"))
                if n["m"] == "push_reloc_ptr":
                    src = set()
                    for d, dsc in defs:
                        args = d["a"]
                        if any(same_binding(arg, sc, a, dsc) for a in args):
                            if d.get("k") == "mcall":
                                src |= data_source(canon(d["r"]))
                            else:
                                for a in args:
                                    if not same_binding(arg, sc, a, dsc):
                                        src |= {t for t in P.tags(a, dsc) if t.startswith("field:")}
                    fs = sorted(t.split(".", 1)[1] for t in src)
                    return "ptr->" + ",".join(fs) if fs else "ptr->?"
                if "m:discriminant_offset" in T:
                    return "discriminant_offset"
                if "arith" in T or "branch" in T:
                    return "computed{%s}" % ",".join(sorted(t for t in T if t[:2] in ("m:", "f:")))
                if "m:offsets" in T:
                    return "offset"
                if "m:to_previous_type_id" in T or "m:to_type_id" in T:
                    return "tyid:" + ",".join(fields)
                if "m:len" in T:
                    return "len:" + ",".join(fields)
                ms = sorted(t[2:] for t in T if t.startswith("m:") and not t.startswith("m:."))
                if fields and not ms:
                    return "field:" + ",".join(fields)
                if T == {"const"}:
                    return "const"
                if ms:
                    return "call:" + ",".join(ms)
                return "?" + ",".join(sorted(T))
            semof = {id(n): sem(n, sc) for n, sc in pushes}

            def seq(block, arr):
                """pushes onto `arr` in execution order; the two sides of an if give alternatives position by position"""
                out = []
                for st in block["s"]:
                    e = st.get("e") if st.get("k") == "expr" else None
                    if e is None:
                        continue
                    if e.get("k") == "if":
                        a = seq(e["t"], arr)
                        b = seq(e["e"], arr) if (e.get("e") or {}).get("k") == "block" else []
                        if len(a) != len(b):
                            out.append("?branches-differ-in-length")
                        else:
                            out.extend(x if x == y else "alt(%s|%s)" % tuple(sorted((x, y))) for x, y in zip(a, b))
                        continue
                    if e.get("k") == "mcall" and id(e) in semof and canon(e["r"]) == arr:
                        out.append(semof[id(e)])
                return out
            by = {}
            arrs = {canon(n["r"]) for n, sc in pushes}
            for arr in arrs:
                # the innermost block that holds this array's pushes as direct statements (arm body / loop body)
                blocks = [x for x in walk(f.body) if x.get("k") == "block" and any(st.get("k") == "expr" and isinstance(st.get("e"), dict) and id(st["e"]) in semof
                                                                                   and canon(st["e"]["r"]) == arr for st in x["s"])]
                blocks = [x for x in blocks if not any(y is not x and any(z is x for z in walk(y)) for y in blocks)]
                if len(blocks) == 1:
                    by[arr] = seq(blocks[0], arr)
                else:
                    by[arr] = ["?pushes-in-%d-blocks" % len(blocks)]
            _WS["all"][fname] = by
    allp = _WS["all"]
    name = {"member": "member_info_data", "layout": None}.get(kind, kind + "_info_data")
    if kind == "layout":
        v = allp["compile_memory_layouts"].get("data")
    else:
        v = allp["compile_type_info"].get(name)
    if v is None:
        return None
    return list(v)


FIELD_SRC = {  # meta.capy field -> what the written value must be computed from
    "len": ("field:size",), "sub_ty": ("tyid:sub_ty",), "mutable": ("field:mutable",), "discriminant": ("field:discriminant",), "error_ty": ("tyid:error_ty",),
    "payload_ty": ("tyid:payload_ty",), "discriminant_offset": ("discriminant_offset",), "ty": ("tyid:ty",), "offset": ("offset",), "name": ("ptr->name",),
    "is_non_zero": ("const",), "size": ("call:size",), "align": ("call:align",),
}


def sem_matches(sv, field, kind):
    if field in ("variants", "members"):
        # a slice = (len, pointer to the rows built from the same list)
        return sv in ("len:" + field, "ptr->" + field)
    if sv == "alt(const|discriminant_offset)":
        # an optional without a tag (non-zero representation) has no discriminant: the constant 0 stands in on that side
        return field == "discriminant_offset"
    return sv in FIELD_SRC.get(field, ())


# ---- R18.f kind chains ---------------------------------------------------------------------------
def r18f(ctx, run):
    # L3 compile_builtin_global
    cg = ctx.syn.fn("FunctionCompiler::compile_builtin_global", "codegen/src/compiler/functions.rs")
    m = synq.matches_on(cg.body)[0]
    for h, p, g, b, arm in synq.match_table(m):
        v = synq.last_seg(h)
        mm = re.match(r"(\w+?)(Layouts|Infos|Layout)$", v)
        if not mm:
            continue
        k, what = snake(mm.group(1)), mm.group(2)
        body = canon(b)
        field = re.findall(r"\)\.(\w+)\b(?!\()", body)
        want = {"Layouts": k + "_layout_slice", "Infos": k + "_info_slice", "Layout": k + "_layout"}[what]
        arrs = "layout_arrays" if what != "Infos" else "info_arrays"
        good = field[-1:] == [want] and ("self.meta_tys.%s" % arrs) in body
        run.check(good, cg.site(arm["ln"]), "BuiltinGlobal::%s -> %s.%s" % (v, arrs, want), "compile_builtin_global", "global:" + v, cg.file, arm["ln"],
                  "BuiltinGlobal::%s is served from `%s` (expected %s.%s): core.meta would read another kind's table" % (v, field[-1:] or body[-60:], arrs, want))
    # L4 declared names = field names
    for ty in ("MetaTyLayoutArrays", "MetaTyInfoArrays"):
        f = ctx.syn.fn(ty + "::new", "codegen/src/compiler/mod.rs")
        for n in walk(f.body):
            if n.get("k") == "struct" and n["p"] == "Self":
                for name, val, ln in n["f"]:
                    c = canon(val)
                    run.check(c == 'declare("%s")' % name, f.site(ln), "%s.%s declared as \"%s\"" % (ty, name, name), ty + "::new", "decl:" + name, f.file, ln,
                              "%s.%s is bound to %s: two tables would share/swap a data object" % (ty, name, c))
    # L5 ty_info: arm kind -> data array -> define(.., K_array, K_slice)
    for fname, suffix, arrs in (("compile_type_info", "_info", "info_arrays"), ("compile_memory_layouts", "_layout", "layout_arrays")):
        f = ctx.syn.fn(fname, "codegen/src/compiler/ty_info.rs")
        ms = [x for x in synq.matches_on(f.body) if canon(x["e"]) == "ty.as_ref()"]
        for arm in ms[0]["arms"]:
            kinds = {kind_of_ty_pattern(a) for a in synq.or_alternatives(arm["p"])}
            kinds = {k for k in kinds if k in KINDS}
            if len(kinds) != 1:
                continue
            k = kinds.pop()
            body = canon(arm["b"])
            if suffix == "_info":
                used = set(re.findall(r"\b(\w+)_info_data\.push", body)) - {"member"}
            else:
                used = set(re.findall(r"&mut (\w+)_mem_data", body))
            run.check(used == {k}, f.site(arm["ln"]), "%s: Ty kind %s fills %s%s" % (fname, k, k, "_info_data" if suffix == "_info" else "_mem_data"), fname, "fill:" + k, f.file, arm["ln"],
                      "%s: records for Ty kind `%s` are appended to the table(s) of %s: indices of both kinds are shifted" % (fname, k, sorted(used)))
        for c in synq.mcalls(f.body, "define_array_and_slice"):
            recv = canon(c["r"])
            k = re.sub(r"_(info|mem)_data$", "", recv)
            a2, a3 = canon(c["a"][2]), canon(c["a"][3])
            good = a2 == "%s.%s%s_array" % (arrs, k, suffix) and a3 == "%s.%s%s_slice" % (arrs, k, suffix)
            run.check(good, f.site(c["ln"]), "%s defined as %s / %s" % (recv, a2, a3), fname, "define:" + k, f.file, c["ln"],
                      "%s is emitted into %s / %s: core.meta would find %s records under another kind's name" % (recv, a2, a3, k))
    # L7 meta.capy chains
    m = meta(ctx)
    M = "core/src/meta.capy"
    text = "".join(x[1] for x in m.function_body("get_type_info"))
    ln = m.function_body("get_type_info")[0][2]
    for mm in re.finditer(r"discrim==(\w+)_discriminant\{idx:=raw&~\(0b[01]+<<\d+\);(\w+)_infos\[idx\]\}", text):
        a, b = mm.group(1), mm.group(2)
        run.check(a == b, "%s:%d" % (M, ln), "get_type_info: %s_discriminant -> %s_infos[idx]" % (a, b), "core::meta::get_type_info", "chain:" + a, M, ln,
                  "get_type_info looks a `%s` id up in %s_infos" % (a, b))
    found = set(re.findall(r"discrim==(\w+)_discriminant\{idx:=", text))
    need = set(KINDS)
    run.check(found == need, "%s:%d" % (M, ln), "get_type_info handles every indexed kind with an info table", "core::meta::get_type_info", "coverage", M, ln,
              "get_type_info handles %s, info tables exist for %s" % (sorted(found), sorted(need)))
    for fname in ("size_of", "align_of"):
        text = "".join(x[1] for x in m.function_body(fname))
        ln = m.function_body(fname)[0][2]
        for mm in re.finditer(r"discriminant==(\w+)_discriminant\{(\w+)_layouts\}", text):
            a, b = mm.group(1), mm.group(2)
            run.check(a == b, "%s:%d" % (M, ln), "%s: %s_discriminant -> %s_layouts" % (fname, a, b), "core::meta::" + fname, "chain:" + a, M, ln,
                      "%s looks a `%s` id up in %s_layouts" % (fname, a, b))


def r18e(ctx, run):
    """what is written as size / align / offset comes from the layout queries codegen itself uses"""
    F = ctx.facts
    allowed = {"size", "align", "stride", "discriminant_offset", "to_previous_type_id", "len", "index", "offsets", "enum_layout", "struct_layout", "unwrap", "expect",
               "deref", "as_ref", "bits", "bytes", "min", "clone", "into_iter", "next", "enumerate", "iter", "from", "into", "lookup"}
    n = 0
    for name in ("compile_memory_layouts", "compile_type_info"):
        fn = F.fn("codegen::compiler::ty_info::" + name)
        for c in fn.calls():
            if FA.short(c.callee) != "push_num":
                continue
            n += 1
            ch = fn.chain_operand(c.args[1], depth=8)
            calls = {FA.short(x["callee"]) for x in FA.chain_calls(ch)}
            layout_calls = {x["callee"] for x in FA.chain_calls(ch) if FA.short(x["callee"]) in ("size", "align", "stride", "discriminant_offset", "offsets", "enum_layout", "struct_layout")}
            bad_src = [x for x in layout_calls if "codegen::layout" not in x]
            unknown = calls - allowed
            run.check(not bad_src and not unknown, c.site(), "push_num(%s)" % FA.show_chain(ch, 4)[:70], "codegen::compiler::ty_info::" + name, "source", c.file, c.ln,
                      "a reflected number is computed by %s, not by the GetLayoutInfo queries code generation uses" % sorted(unknown | set(bad_src)))
    if n < 15:
        raise LookupError("push_num calls in ty_info: %d" % n)


def tid_machinery(ctx, pbw=64, layout=None):
    """to_type_id / to_previous_type_id as an interpreter over symbolic types; `layout(ty, what)` answers size/align/stride queries"""
    from symint import SymInterp, Env
    from absint import Obj, Term, Variant, Panic, CannotEstablish
    conv = "codegen/src/convert.rs"
    fn = ctx.syn.fn("Intern::to_type_id", conv)
    prev = ctx.syn.fn("Intern::to_previous_type_id", conv)

    class Counter:
        def __init__(self):
            self.n = 0

    class AutoObj(Obj):
        """MetaTyData: fields that are not modelled explicitly are created on first use as empty maps"""
        pass

    def mk_state():
        st = AutoObj("MetaTyData", type_ids=[], tys_to_compile=[])
        return st

    def resolver(path):
        last = path.rsplit("::", 1)[-1]
        c = [f for f in ctx.syn.fns_in(conv) if f.body is not None and f.qual.rsplit("::", 1)[-1] == last and not f.in_test]
        return c[0] if len(c) == 1 else None

    class TI(SymInterp):
        def eval(self, e, env):
            if e["k"] == "field":
                b = self.eval(e["e"], env)
                if isinstance(b, AutoObj) and e["m"] not in b.fields:
                    b.fields[e["m"]] = Counter() if e["m"].endswith("_uid_gen") else {}
                if isinstance(b, AutoObj):
                    return b.fields[e["m"]]
            if e["k"] == "cast":
                v = self.eval(e["e"], env)
                if isinstance(v, bool):
                    return int(v)
                if isinstance(v, int):
                    return v
            return super().eval(e, env)

        def binop(self, op, l, r, e):
            if op in ("==", "!=") and isinstance(l, Variant) and isinstance(r, Variant):
                return (l == r) == (op == "==")
            return super().binop(op, l, r, e)

        def default_method(self, recv, m, args, e):
            if isinstance(recv, Counter) and m == "generate_unique_id":
                recv.n += 1
                return recv.n - 1
            if isinstance(recv, dict):
                if m == "get":
                    return recv.get(args[0])
                if m == "insert":
                    recv[args[0]] = args[1]
                    return None
                if m == "contains_key":
                    return args[0] in recv
                if m == "entry":
                    raise CannotEstablish("map entry API in the id cache")
            if m in ("copied", "cloned") :
                return recv
            if isinstance(recv, Variant) and recv.last == "TySym" or (isinstance(recv, Variant) and recv.path.startswith("Ty::")):
                if m == "to_type_id":
                    return self.inline(fn, args, recv=recv)
                if m == "to_previous_type_id":
                    return self.inline(prev, args, recv=recv)
                if m in ("size", "align", "stride"):
                    return layout(recv, m) if layout else 8
            if m in ("bits",):
                return pbw
            if m in ("bytes",):
                return pbw // 8
            if m == "expect" and recv is None:
                raise Panic("expect on None: %s" % canon(e["a"][0])[:60])
            return super().default_method(recv, m, args, e)

    consts = {}
    for f, it_ in ctx.syn.items_of("const", conv):
        v = synq.int_value(it_["e"])
        if v is not None:
            consts[it_["name"]] = v

    def make():
        it = TI(resolver=resolver, macros={"assert": lambda i, e, env: None, "debug": lambda i, e, env: None})
        it.consts.update(consts)
        return it
    return fn, prev, mk_state, make


def r18g(ctx, run):
    """type ids identify TYPES: to_type_id evaluated as a state machine on symbolic types - a type keeps its id, and two
    different types (in particular two instantiations of one generic nominal declaration, which share the declaration's
    uid) get different ids and their own rows"""
    from absint import Obj, Term, Variant, Panic, CannotEstablish
    fn, prev, mk_state, make = tid_machinery(ctx)
    I64, U16 = Variant("Ty::IInt", {"0": 64}), Variant("Ty::UInt", {"0": 16})
    M = lambda t: [Obj("MemberTy", name=Term("val"), ty=t)]

    class Mem(Obj):
        def __eq__(self, o):
            return isinstance(o, Obj) and self.fields == o.fields

        def __hash__(self):
            return 1
    mem = lambda t: [Mem("MemberTy", name=Term("val"), ty=t)]
    pairs = [
        ("two instantiations of a generic struct", Variant("Ty::ConcreteStruct", {"uid": 7, "members": mem(I64)}), Variant("Ty::ConcreteStruct", {"uid": 7, "members": mem(U16)})),
        ("two instantiations of a generic distinct", Variant("Ty::Distinct", {"uid": 7, "sub_ty": I64}), Variant("Ty::Distinct", {"uid": 7, "sub_ty": U16})),
        ("two instantiations of a generic enum variant", Variant("Ty::EnumVariant", {"enum_uid": 3, "variant_name": Term("n"), "uid": 7, "sub_ty": I64, "discriminant": 0}),
         Variant("Ty::EnumVariant", {"enum_uid": 3, "variant_name": Term("n"), "uid": 7, "sub_ty": U16, "discriminant": 0})),
        ("two different structs", Variant("Ty::ConcreteStruct", {"uid": 7, "members": mem(I64)}), Variant("Ty::ConcreteStruct", {"uid": 8, "members": mem(I64)})),
        ("^i64 and ^u16", Variant("Ty::Pointer", {"mutable": False, "sub_ty": I64}), Variant("Ty::Pointer", {"mutable": False, "sub_ty": U16})),
        ("^i64 and ^mut i64", Variant("Ty::Pointer", {"mutable": False, "sub_ty": I64}), Variant("Ty::Pointer", {"mutable": True, "sub_ty": I64})),
        ("?i64 and ?u16", Variant("Ty::Optional", {"sub_ty": I64}), Variant("Ty::Optional", {"sub_ty": U16})),
        ("[]i64 and []u16", Variant("Ty::Slice", {"sub_ty": I64}), Variant("Ty::Slice", {"sub_ty": U16})),
        ("[2]i64 and [3]i64", Variant("Ty::ConcreteArray", {"size": 2, "sub_ty": I64}), Variant("Ty::ConcreteArray", {"size": 3, "sub_ty": I64})),
        ("rawptr and mut rawptr", Variant("Ty::RawPtr", {"mutable": False}), Variant("Ty::RawPtr", {"mutable": True})),
        ("i64 and u64", I64, Variant("Ty::UInt", {"0": 64})),
        ("u16 and u32", U16, Variant("Ty::UInt", {"0": 32})),
        ("f32 and i32", Variant("Ty::Float", {"0": 32}), Variant("Ty::IInt", {"0": 32})),
        ("bool and u8", Variant("Ty::Bool"), Variant("Ty::UInt", {"0": 8})),
        ("char and u8", Variant("Ty::Char"), Variant("Ty::UInt", {"0": 8})),
        ("str and rawptr", Variant("Ty::String"), Variant("Ty::RawPtr", {"mutable": False})),
    ]
    simple = {"rawptr and mut rawptr", "i64 and u64", "u16 and u32", "f32 and i32", "bool and u8", "char and u8", "str and rawptr"}
    for desc, A, B in pairs:
        st = mk_state()
        it = make()
        ptr = Term("pointer_ty")
        key = "ids:" + desc
        try:
            a1 = it.inline(fn, [st, ptr], recv=A)
            b1 = it.inline(fn, [st, ptr], recv=B)
            a2 = it.inline(fn, [st, ptr], recv=A)
            b2 = it.inline(prev, [st], recv=B)
        except (Panic, CannotEstablish) as c:
            run.finding("to_type_id", key, fn.file, fn.ln, "cannot establish the ids of %s: %s" % (desc, getattr(c, "what", c)))
            continue
        pushed = [t for t in st.fields["tys_to_compile"]]
        problems = []
        if a1 != a2:
            problems.append("the first type gets id %#x and then %#x" % (a1, a2))
        if b1 != b2:
            problems.append("to_previous_type_id gives %#x for a type registered as %#x" % (b2, b1))
        if a1 == b1:
            problems.append("both get the id %#x" % a1)
        if desc not in simple and not (any(t == A for t in pushed) and any(t == B for t in pushed)):
            problems.append("not both types were queued for their own reflection rows (tys_to_compile = %d entries)" % len(pushed))
        run.check(not problems, fn.site(), "%s: distinct, stable ids (%#x, %#x), both queued" % (desc, a1, b1), "to_type_id", key, fn.file, fn.ln,
                  "%s: %s - a type id must identify one type: reflection (size_of, get_type_info, any) would describe the other type" % (desc, "; ".join(problems)))


def r18h(ctx, run):
    """the type id a conversion to `any` / `type` writes is the id of the value's own (declared) type: in cast_into_memory every to_type_id is applied
    to the `cast_from` it was given, never to a type from which the nominal wrappers were already stripped (absolute_intern_ty / absolute_ty) - otherwise
    an `any` made from a `distinct T` value says it holds a `T`"""
    F = ctx.facts
    fn = F.fn("codegen::compiler::cast_into_memory")
    U = "codegen::compiler::cast_into_memory"
    n = 0
    for c in fn.calls():
        if short(c.callee) != "to_type_id":
            continue
        n += 1
        recv = fn.chain_operand(c.args[0], depth=14)
        stripped = [short(x["callee"]) for x in FA.walk_chain(recv) if x.get("kind") == "call" and short(x["callee"]) in ("absolute_intern_ty", "absolute_ty", "absolute_ty_keep_variants")]
        from_param = any(x.get("kind") == "param" and x.get("name") == "cast_from" for x in FA.walk_chain(recv))
        run.check(from_param and not stripped, c.site(), "to_type_id is applied to the cast's source type as given", U, "type-id-of-declared-type", c.file, c.ln,
                  "the type id written by this conversion is computed from %s: the id must be the one of the value's declared type (a `distinct` wrapper is part of the type an "
                  "`any` reports)" % ("a type passed through " + ", ".join(sorted(set(stripped))) if stripped else FA.show_chain(recv, 5)[:80]))
    if n < 2:
        raise LookupError("to_type_id calls in cast_into_memory: %d" % n)


def r18i(ctx, run):
    """the size and alignment a simple type id carries (meta.size_of / align_of just unpack them, R18.b) are the size and alignment the layout
    pass gives that type: to_type_id is evaluated on every scalar type, the id is unpacked with the writer's own field positions, and the two
    numbers are compared with calc_single's (evaluated from source, as in R17.a)"""
    import c17
    from absint import Panic, CannotEstablish, Term, Variant
    I64 = Variant("Ty::IInt", {"0": 64})
    packer = ctx.syn.fn("simple_id_with_align", "codegen/src/convert.rs")
    shifts, widths = field_layout(packer)
    for k in ("size", "align", "discriminant"):
        if shifts.get(k) is None or widths.get(k) is None:
            raise LookupError("simple_id_with_align: field %s" % k)
    unpack = lambda v, k: (v >> shifts[k]) & ((1 << widths[k]) - 1)
    for pbw in (64, 32):
        def layout(ty, what, pbw=pbw):
            size, align, sl, el, it = c17.run_calc(ctx, ty, pbw)
            return {"size": size, "align": align, "stride": size + ((-size) % align)}[what]
        fn, prev, mk_state, make = tid_machinery(ctx, pbw, layout)
        for tyv, name, _, _ in c17.scalar_cases(pbw // 8):
            key = "simple-id-layout:%s@%d" % (name, pbw)
            # the symbolic element type of the layout cases becomes a concrete one here: the id of a pointer registers its pointee
            tyv = Variant(tyv.path, {k: (I64 if v == c17.TY("sub") else v) for k, v in tyv.payload.items()})
            try:
                tid = make().inline(fn, [mk_state(), Term("pointer_ty")], recv=tyv)
                size, align = layout(tyv, "size"), layout(tyv, "align")
            except (Panic, CannotEstablish) as c:
                if name == "generic fn" and isinstance(c, Panic) and "unreachable" in c.what:
                    run.exempt(fn.site(), "%s (ptr %d)" % (name, pbw), "an uninstantiated generic function has no type id: to_type_id declares it unreachable")
                    continue
                run.finding("to_type_id", key, fn.file, fn.ln, "cannot establish the type id of %s: %s" % (name, getattr(c, "what", c)))
                continue
            if not isinstance(tid, int):
                run.finding("to_type_id", key, fn.file, fn.ln, "the type id of %s is not a number: %s" % (name, tid))
                continue
            if unpack(tid, "discriminant") >= 16:
                run.exempt(fn.site(), "%s (ptr %d): indexed id" % (name, pbw), "its size and alignment are read from the layout rows (R18.d, R18.e), not from the id")
                continue
            got = (unpack(tid, "size"), unpack(tid, "align"))
            run.check(got == (size, align), fn.site(), "%s (ptr %d): id %#x carries size %d align %d = layout" % (name, pbw, tid, size, align), "to_type_id", key, fn.file, fn.ln,
                      "the type id of %s (pointer width %d) carries size %d and alignment %d, but the layout pass - which every struct offset, array stride and stack slot uses - gives "
                      "size %s and alignment %s: meta.size_of / align_of would not describe the generated code" % (name, pbw, got[0], got[1], size, align))


def rules(ctx):
    return [
        Rule("R18.a", "discriminant constants agree (Rust/capy), simple<16<=indexed, each Ty arm uses its own discriminant and uid generator", 60, r18a),
        Rule("R18.b", "bit-field packing of simple type ids = the shifts/masks meta.capy decodes with", 20, r18b),
        Rule("R18.c", "builtin names: every #builtin use in core has a handler of the matching kind and signature", 50, r18c),
        Rule("R18.d", "per record kind: writer field order/widths = meta.capy struct = BuiltinKind::to_expected", 40, r18d),
        Rule("R18.e", "reflected sizes/aligns/offsets come from codegen's own layout queries", 15, r18e),
        Rule("R18.g", "type ids identify types: to_type_id as a state machine - stable id per type, distinct ids (and rows) for distinct types incl. generic instantiations and simple types", 16, r18g),
        Rule("R18.h", "the type id written into an `any` / `type` is the id of the value's declared type (not of a type stripped of its nominal wrappers)", 2, r18h),
        Rule("R18.i", "simple type ids carry the size and alignment the layout pass computes (to_type_id and calc_single evaluated per scalar type)", 40, r18i),
        Rule("R18.f", "the kind chain K_infos / K_layouts is name-consistent through every table", 70, r18f),
    ]

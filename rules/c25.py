"""C25 — reported line and column: rendering wiring (DESIGN §3 C25)."""
from core import Rule
import synq
from synq import canon, walk

PROPERTY = "C25"
TITLE = "Reported line and column are exactly right"
NEEDS = ("syn",)
TECHNIQUE = ("static analysis: def-use wiring of the diagnostic header (start of the diagnostic's own range -> line_col -> +1) and of the LineIndex handed to the renderer "
             "(same text as the snippet; the parsed text is the text as given), abstract evaluation of LineIndex::new / line_col on sample and symbolic texts")
EXPLANATION = (
    "Engine B (syntax def-use inside two functions and two callers): (a) in Diagnostic::display the pair handed to "
    "input_snippet as start_line/start_col is line_index.line_col(range.start()) with range = self.range() (and help.range() "
    "for the help snippet), and input_snippet prints `--> at file:{start_line.0 + 1}:{start_col.0 + 1}`; (b) the LineIndex "
    "given to display is built from exactly the text that is shown as the snippet and belongs to the diagnostic's file: in "
    "SourceFile::print_diagnostics LineIndex::new(&self.contents) with &self.contents, in compile_file line_indexes[&d.file] "
    "built from the same file_contents that was parsed and stored under source_file.module. Decides the wiring, not "
    "LineIndex::line_col's arithmetic.")
NOT_DECIDED = [
    "`\\r` handling and multi-byte columns (the property counts bytes; the renderer's tab/width handling is not looked at)",
    "display's `range.end() - 1` on an empty range at offset 0 (value-level; see C06 not-decided)",
]
ASSUMPTIONS = ["FileName keys are unique per file (interner)"]

D = "diagnostics/src/lib.rs"


def r25a(ctx, run):
    disp = ctx.syn.fn("Diagnostic::display", D)
    calls = [c for c in synq.calls(disp.body, "input_snippet")]
    run.check(len(calls) == 2, disp.site(), "two snippets (diagnostic, help)", "Diagnostic::display", "snippets", disp.file, disp.ln, "expected the main and the help snippet, found %d" % len(calls))
    # each call: args[2], args[3] = start_line, start_col defined by line_col(range.start()) in the same block
    for i, c in enumerate(calls):
        a2, a3 = canon(c["a"][2]), canon(c["a"][3])
        # find nearest preceding `let (start_line, start_col) = line_index.line_col(range.start())` and `let range = ...`
        blk = [b for b in walk(disp.body) if b.get("k") == "block" and any(s.get("k") == "expr" and any(x is c for x in walk(s)) for s in b["s"])]
        b = blk[-1]
        idx = next(j for j, s in enumerate(b["s"]) if any(x is c for x in walk(s)))
        lc = rg = None
        for s in b["s"][:idx]:
            if s["k"] == "local" and canon(s["p"]) == "(%s, %s)" % (a2, a3):
                lc = canon(s["init"])
            if s["k"] == "local" and canon(s["p"]) == "range":
                rg = canon(s["init"])
        want_range = "self.range()" if i == 0 else "help.range()"
        good = (a2, a3) == ("start_line", "start_col") and lc == "line_index.line_col(range.start())" and rg == want_range
        run.check(good, disp.site(c["ln"]), "snippet %d header position = line_col(%s.start())" % (i, want_range), "Diagnostic::display", "start#%d" % i, disp.file, c["ln"],
                  "the position printed for snippet %d must be line_index.line_col(range.start()) with range = %s; found position=%s range=%s args=(%s,%s)" % (i, want_range, lc, rg, a2, a3))
        run.check(canon(c["a"][0]) == "filename" and canon(c["a"][1]) == "input", disp.site(c["ln"]), "snippet %d uses the file name and text it was given" % i, "Diagnostic::display",
                  "text#%d" % i, disp.file, c["ln"], "input_snippet must receive display's filename/input")
    sn = ctx.syn.fn("input_snippet", D)
    fm = [m for m in synq.macros(sn.body, "format") if m.get("a") and m["a"][0].get("k") == "lit" and "--> at" in m["a"][0]["v"]]
    good = len(fm) == 1 and fm[0]["a"] and len(fm[0]["a"]) == 6 and canon(fm[0]["a"][4]) == "(start_line.0 + 1)" and canon(fm[0]["a"][5]) == "(start_col.0 + 1)" \
        and fm[0]["a"][0]["v"].endswith("--> at {}:{}:{}") and canon(fm[0]["a"][3]) == "filename"
    run.check(good, sn.site(fm[0]["ln"] if fm else sn.ln), "header prints file:{start_line+1}:{start_col+1}", "input_snippet", "header", sn.file, fm[0]["ln"] if fm else sn.ln,
              "the `--> at` header must print the 1-based start line and column: start_line.0 + 1, start_col.0 + 1")
    pn = sn.param_names()
    run.check(pn[:6] == ["filename", "input", "start_line", "start_col", "end_line", "end_col"], sn.site(), "input_snippet parameter order", "input_snippet", "params", sn.file, sn.ln,
              "input_snippet's parameter order changed: %s" % pn[:6])
    # Missing range starts at the offset
    rg = ctx.syn.fn("Diagnostic::range", D)
    c = canon(rg.body)
    run.check("SyntaxErrorKind::Missing{offset: offset}" in c.replace("offset, ", "offset: offset, ") or "Missing{offset" in c and "TextRange::new(offset, (offset + TextSize::from(1)))" in c, rg.site(),
              "a Missing error is located at its offset", "Diagnostic::range", "missing", rg.file, rg.ln, "the range of a Missing syntax error must start at its offset")


def r25b(ctx, run):
    pd = [f for f in ctx.syn.fns if f.name == "print_diagnostics" and f.impl_ty == "SourceFile" and not f.in_test]
    if len(pd) != 1:
        raise LookupError("SourceFile::print_diagnostics")
    f = pd[0]
    li = [s for s in walk(f.body) if s.get("k") == "local" and canon(s["p"]) == "line_index"]
    dc = [c for c in synq.mcalls(f.body, "display")]
    good = len(li) == 1 and canon(li[0]["init"]) == "LineIndex::new(&self.contents)" and len(dc) == 1 and canon(dc[0]["a"][1]) == "&self.contents" and canon(dc[0]["a"][4]) == "&line_index"
    run.check(good, f.site(), "per-file diagnostics: LineIndex::new(&self.contents) with snippet text &self.contents", "SourceFile::print_diagnostics", "same-text", f.file, f.ln,
              "the LineIndex and the snippet text must come from the same string (self.contents)")
    cf = ctx.syn.fn("compile_file", "capy/src/main.rs")
    # both parse sites: LineIndex::new(&file_contents) inserted under source_file.module, parse(.., file_contents.clone(), ..)
    ins = [c for c in synq.mcalls(cf.body, "insert") if canon(c["r"]) == "line_indexes"]
    parses = [c for c in synq.calls(cf.body, "parse") if canon(c["f"]) == "SourceFile::parse"]
    run.check(len(ins) == 2 and len(parses) == 2, cf.site(), "two parse sites, two line index insertions", "compile_file", "sites", cf.file, cf.ln,
              "expected two SourceFile::parse sites each followed by a line index insertion (found %d/%d)" % (len(parses), len(ins)))
    for i, (p, n) in enumerate(zip(sorted(parses, key=lambda x: x["ln"]), sorted(ins, key=lambda x: x["ln"]))):
        good = canon(p["a"][1]) == "file_contents.clone()" and canon(n["a"][0]) == "source_file.module" and canon(n["a"][1]) == "LineIndex::new(&file_contents)" and p["ln"] < n["ln"]
        run.check(good, cf.site(n["ln"]), "file %d: line index built from the parsed text, stored under the file's own key" % i, "compile_file", "index#%d" % i, cf.file, n["ln"],
                  "the line index must be LineIndex::new(&file_contents) of the very text given to SourceFile::parse and be stored under source_file.module")
    loop = [x for x in walk(cf.body) if x.get("k") == "for" and canon(x["e"]) == "ty_diagnostics"]
    good = False
    if loop:
        c = canon(loop[0]["b"])
        good = "let line_index = &line_indexes[&d.file]" in c and "let source_file = &source_files[&d.file]" in c and "&source_file.contents" in c and "line_index," in c.replace(" ", "").replace("line_index,", "line_index,")
        dc = [x for x in synq.mcalls(loop[0]["b"], "display")]
        good = good and len(dc) == 1 and canon(dc[0]["a"][1]) == "&source_file.contents" and canon(dc[0]["a"][4]) == "line_index"
    run.check(good, cf.site(loop[0]["ln"] if loop else cf.ln), "type diagnostics: index and text both looked up by the diagnostic's own file", "compile_file", "lookup", cf.file,
              loop[0]["ln"] if loop else cf.ln, "a type diagnostic must be rendered with line_indexes[&d.file] and source_files[&d.file].contents")


def r25e(ctx, run):
    """ranges and line index speak about the same text: the type diagnostics of a file are rendered with a LineIndex that compile_file builds from ITS copy
    of the file's text (R25.b), while every range in a diagnostic is an offset into the text SourceFile::parse handed to the lexer.  So parse must lex,
    parse and store the text it was given, unmodified - a copy with something stripped or replaced shifts every later line start."""
    import prov
    f = [g for g in ctx.syn.fns if g.name == "parse" and g.impl_ty == "SourceFile" and not g.in_test]
    if len(f) != 1:
        raise LookupError("SourceFile::parse")
    f = f[0]
    pname = next((n_ for n_, p_ in zip(f.param_names(), f.params) if n_ == "contents"), None)
    if pname is None:
        raise LookupError("SourceFile::parse has no `contents` parameter")
    P = prov.Prov(f)
    uses = []

    def on(n, sc):
        if n.get("k") == "call" and canon(n["f"]) in ("lexer::lex", "parser::parse_source_file", "parser::parse_repl_line"):
            for a in n["a"]:
                t = P.tags(a, sc)
                if any(x.startswith("param:contents") for x in t) or any(x.startswith("m:") for x in t):
                    uses.append((n["ln"], canon(n["f"]), t))
        if n.get("k") == "struct" and n["p"] in ("Self", "SourceFile"):
            for fld in n["f"]:
                if fld[0] == "contents":
                    uses.append((n["ln"], "the stored `contents`", P.tags(fld[1], sc)))
    P.visit(on)
    if len(uses) < 3:
        raise LookupError("uses of the text in SourceFile::parse: %d" % len(uses))
    for ln, what, tags in uses:
        if what == "parser::parse_source_file" and "f:lexer::lex" in tags and not any(t.startswith("m:") for t in tags - {"m:lex"}):
            continue    # the token argument
        changed = sorted(t for t in tags if t.startswith("m:") and t[2:] not in ("clone", "as_str", "as_ref", "to_owned", "borrow", "deref", "lex", "into", "to_string"))
        run.check("param:contents" in tags and not changed, f.site(ln), "%s gets the text as given" % what, "SourceFile::parse", "text-as-given:" + what, f.file, ln,
                  "%s is given a text that is not the `contents` parameter as received (it passed through %s): the ranges of this file's diagnostics are offsets into that "
                  "modified text, the LineIndex used for the type diagnostics is built from the caller's unmodified copy - lines and columns of later lines are shifted"
                  % (what, changed or sorted(tags)[:5]))


def r25c(ctx, run):
    """LineIndex::new / line_col evaluated abstractly on a text with two newlines at symbolic positions p1 < p2: for every position of
    the offset relative to the line starts (before, at, after each), line = number of newlines before the offset and
    column = offset - start of that line (zero-based bytes; the renderer adds 1, R25.a)"""
    from symint import SymInterp, Lin, sym, to_lin, norm, Env
    from absint import Obj, Term, Variant, Panic, CannotEstablish
    L = "line_index/src/lib.rs"
    new = ctx.syn.fn("LineIndex::new", L)
    lc = ctx.syn.fn("LineIndex::line_col", L)
    idxf = [f for f in ctx.syn.fns_in(L) if f.qual.endswith("::index") and f.body is not None and not f.in_test]
    if len(idxf) != 1:
        raise LookupError("impl Index<LineNr> for LineIndex")
    idxf = idxf[0]
    p1, p2, off = sym("p1"), sym("p2"), sym("off")

    def value(x, val):
        l = to_lin(x)
        return l.c + sum(k * val[a] for a, k in l.t.items())

    class LI(SymInterp):
        def __init__(self, val):
            self.val = val
            super().__init__(order=lambda a, b: (value(a, val) > value(b, val)) - (value(a, val) < value(b, val)),
                             funcs={"TextSize::from": lambda i, a: a[0], "u32::from": lambda i, a: a[0], "usize::from": lambda i, a: a[0],
                                    "Vec::with_capacity": lambda i, a: [], "Vec::new": lambda i, a: [], "iter::once": lambda i, a: [a[0]], "std::iter::once": lambda i, a: [a[0]]})

        def eval(self, e, env):
            if e["k"] == "cast":
                v = self.eval(e["e"], env)
                if isinstance(v, (Lin, int)) and not isinstance(v, bool):
                    return v
            if e["k"] == "index":
                b = self.eval(e["e"], env)
                if isinstance(b, Obj) and b.name == "LineIndex":
                    return self.inline(idxf, [self.eval(e["i"], env)], recv=b)
                i = self.eval(e["i"], env)
                if isinstance(b, list) and isinstance(i, int):
                    if not (0 <= i < len(b)):
                        raise Panic("line_starts[%d] out of bounds (%d lines)" % (i, len(b)))
                    return b[i]
            if e["k"] == "struct" and e["p"] in ("Self", "LineIndex"):
                return Obj("LineIndex", **{f[0]: self.eval(f[1], env) for f in e["f"]})
            return super().eval(e, env)

        def default_method(self, recv, m, args, e):
            if m == "match_indices" and isinstance(recv, Term) and recv.op == "text":
                return [(p1, "\n"), (p2, "\n")]
            if m == "chain" and isinstance(recv, list) and isinstance(args[0], list):
                return recv + args[0]
            if m == "partition_point" and isinstance(recv, list):
                n = 0
                for x in recv:
                    if not self.truth(self.call_closure(args[0], [x]), "partition_point predicate"):
                        break
                    n += 1
                return n
            if m == "binary_search" and isinstance(recv, list):
                raise CannotEstablish("binary_search on line_starts")
            return super().default_method(recv, m, args, e)
    # scenarios: representative valuations of every ordering class of the offset against the two line starts (p1 + 1, p2 + 1)
    base = {"p1": 10, "p2": 20}
    cases = [("before the first newline", 5, 0, off), ("on the first newline", 10, 0, off), ("first byte of line 2", 11, 1, SymInterp().binop("-", off, SymInterp().binop("+", p1, 1, {}), {})),
             ("inside line 2", 15, 1, None), ("on the second newline", 20, 1, None), ("first byte of line 3", 21, 2, None), ("inside line 3", 30, 2, None),
             ("offset 0", 0, 0, off)]
    F = "LineIndex::line_col"
    n_seen = [0]
    for desc, ov, want_line, _ in cases:
        val = dict(base, off=ov)
        it = LI(val)
        try:
            li = it.run_fn(new, {new.param_names()[0]: Term("text")})
            res = it.inline(lc, [off], recv=li)
        except Panic as c:
            run.finding(F, "line-col:" + desc, lc.file, lc.ln, "line_col panics for an offset %s: %s" % (desc, getattr(c, "what", c)))
            continue
        except CannotEstablish as c:
            # the symbolic text cannot follow every way of finding the newlines; the same obligations are decided on concrete texts by R25.d
            n_seen[0] += 1
            run.exempt(lc.site(), "offset %s on a symbolic text" % desc, "not established symbolically (%s): decided on concrete texts by R25.d" % str(getattr(c, "what", c))[:60])
            continue
        starts = li.fields.get("line_starts") if isinstance(li, Obj) else None
        want_starts = [0, to_lin(p1).add(to_lin(1)), to_lin(p2).add(to_lin(1))]
        if not (isinstance(starts, list) and len(starts) == 3 and all(to_lin(a) == to_lin(b) for a, b in zip(starts, want_starts))):
            run.finding("LineIndex::new", "line-starts", new.file, new.ln, "for a text with newlines at p1 < p2 the line starts are %r; must be [0, p1 + 1, p2 + 1]" % (starts,))
            return
        line = res[0].payload.get("0") if isinstance(res, tuple) and isinstance(res[0], Variant) else None
        col = res[1].payload.get("0") if isinstance(res, tuple) and isinstance(res[1], Variant) else None
        want_col = to_lin(off).add(to_lin(want_starts[want_line]), -1)
        good = line == want_line and to_lin(col) is not None and to_lin(col) == to_lin(want_col)
        n_seen[0] += 1
        run.check(good, lc.site(), "offset %s -> line %s, column %r" % (desc, line, col), F, "line-col:" + desc, lc.file, lc.ln,
                  "an offset %s gives (line %r, column %r); must be line %d (zero-based: number of newlines before the offset) and column offset - line start = %r"
                  % (desc, line, col, want_line, norm(want_col)))
    _r25c_floor(n_seen[0])


def _r25c_floor(n):
    if n < 8:
        raise LookupError("offset scenarios of line_col: %d" % n)


def r25d(ctx, run):
    """LineIndex::new / line_col evaluated on concrete texts that contain multi-byte characters: offsets, line starts and columns are BYTE quantities
    (ranges are byte ranges, the snippet code slices lines by bytes); a line table built from character indices is right on ASCII and wrong after the
    first non-ASCII character"""
    from symint import SymInterp
    from absint import Obj, Term, Variant, Panic, CannotEstablish
    L = "line_index/src/lib.rs"
    new = ctx.syn.fn("LineIndex::new", L)
    lc = ctx.syn.fn("LineIndex::line_col", L)
    idxf = [f for f in ctx.syn.fns_in(L) if f.qual.endswith("::index") and f.body is not None and not f.in_test][0]

    class Cell:
        """the state of an iterator adapter handed to its closure as `&mut`"""
        def __init__(self, v):
            self.v = v

    class CI(SymInterp):
        def eval(self, e, env):
            if e["k"] == "un" and e.get("op") == "*":
                inner = self.eval(e["e"], env)
                if isinstance(inner, Cell):
                    return inner.v
            if e["k"] == "bin" and e.get("op", "").endswith("=") and e["op"] not in ("==", "!=", "<=", ">=") and e["l"].get("k") == "un" and e["l"].get("op") == "*":
                tgt = self.eval(e["l"]["e"], env)
                if isinstance(tgt, Cell):
                    tgt.v = self.binop(e["op"][:-1], tgt.v, self.eval(e["r"], env), e)
                    return None
            if e["k"] == "assign" and e["l"].get("k") == "un" and e["l"].get("op") == "*":
                tgt = self.eval(e["l"]["e"], env)
                if isinstance(tgt, Cell):
                    tgt.v = self.eval(e["r"], env)
                    return None
            if e["k"] == "path" and e["p"] in self.funcs and e["p"] not in env:
                return ("pyfunc", lambda *a, f_=self.funcs[e["p"]]: f_(self, list(a)))
            if e["k"] == "cast":
                v = self.eval(e["e"], env)
                if isinstance(v, str) and len(v) == 1:
                    v = ord(v)
                if isinstance(v, int) and not isinstance(v, bool):
                    # `as` truncates to the target's width
                    width = {"u8": 8, "i8": 8, "u16": 16, "i16": 16, "u32": 32, "i32": 32}.get(str(e.get("ty")))
                    return v & ((1 << width) - 1) if width and v >= 0 else v
            if e["k"] == "lit" and e.get("t") == "char":
                lit = e["v"][1:-1] if e["v"].startswith("'") else e["v"]
                return {"\\n": "\n", "\\r": "\r", "\\t": "\t"}.get(lit, lit)
            if e["k"] == "lit" and e.get("t") == "byte":
                return int(e["v"])
            if e["k"] == "lit" and isinstance(e.get("v"), str) and e["v"].startswith("b'"):
                lit = e["v"][2:-1]
                return ord({"\\n": "\n", "\\r": "\r"}.get(lit, lit))
            if e["k"] == "index":
                b = self.eval(e["e"], env)
                if isinstance(b, Obj) and b.name == "LineIndex":
                    return self.inline(idxf, [self.eval(e["i"], env)], recv=b)
                i = self.eval(e["i"], env)
                if isinstance(b, list) and isinstance(i, int):
                    if not (0 <= i < len(b)):
                        raise Panic("line_starts[%d] out of bounds (%d lines)" % (i, len(b)))
                    return b[i]
            if e["k"] == "struct" and e["p"] in ("Self", "LineIndex"):
                return Obj("LineIndex", **{f[0]: self.eval(f[1], env) for f in e["f"]})
            if e["k"] in ("ref",) or (e["k"] == "un" and e.get("op") in ("*", "&")):
                return self.eval(e["e"], env)
            return super().eval(e, env)

        def binop(self, op, l, r, e):
            if op == "-" and isinstance(l, int) and isinstance(r, int) and not isinstance(l, bool) and l - r < 0:
                raise Panic("attempt to subtract with overflow: `%s`" % canon(e))
            if op in ("==", "!=") and isinstance(l, str) and isinstance(r, str):
                return (l == r) == (op == "==")
            return super().binop(op, l, r, e)

        def default_method(self, recv, m, args, e):
            if isinstance(recv, str):
                if m in ("match_indices", "rmatch_indices"):
                    b, pat = recv.encode(), args[0].encode() if isinstance(args[0], str) else bytes([args[0]])
                    out = [(i, args[0]) for i in range(len(b)) if b[i:i + len(pat)] == pat]
                    return out if m == "match_indices" else list(reversed(out))
                if m == "chars":
                    return list(recv)
                if m == "char_indices":
                    out, p_ = [], 0
                    for c in recv:
                        out.append((p_, c))
                        p_ += len(c.encode())
                    return out
                if m in ("bytes", "as_bytes"):
                    return list(recv.encode())
                if m == "len":
                    return len(recv.encode())
                if m == "len_utf8":
                    return len(recv.encode())
                if m == "lines":
                    # str::lines: split at \n, a trailing \r of a line is dropped too, no empty last line after a final newline
                    parts = recv.split("\n")
                    if parts and parts[-1] == "":
                        parts.pop()
                    return [x[:-1] if x.endswith("\r") else x for x in parts]
                if m == "split":
                    return recv.split(args[0])
                if m == "split_inclusive":
                    return [x for x in recv.splitlines(True)]
            if isinstance(recv, list):
                if m == "chain" and isinstance(args[0], list):
                    return recv + args[0]
                if m == "scan" and len(args) == 2:
                    cell, out = Cell(args[0]), []
                    for x in recv:
                        r_ = self.call_closure(args[1], [cell, x])
                        if r_ is None:
                            break
                        out.append(r_)
                    return out
                if m == "take_while" and len(args) == 1:
                    out = []
                    for x in recv:
                        if self.call_closure(args[0], [x]) is not True:
                            break
                        out.append(x)
                    return out
                if m == "partition_point":
                    n = 0
                    for x in recv:
                        if self.call_closure(args[0], [x]) is not True:
                            break
                        n += 1
                    return n
                if m == "binary_search":
                    import bisect
                    i = bisect.bisect_left(recv, args[0])
                    return Variant("Ok", {"0": i}) if i < len(recv) and recv[i] == args[0] else Variant("Err", {"0": i})
            return super().default_method(recv, m, args, e)
    # ... and characters whose code point, or one of whose UTF-8 bytes, resembles a line break without being one (U+010A, U+4E0A end in 0x0A; U+0A0A)
    texts = ["ab\ncd\nef", "\u00e9\na", "a\u2615\n\nb\u00e9c\nd", "\n", "x", "\u00e9\u00e9\n\u00e9\n\n\u00e9", "a\r\nb\n", "a\u010ab\nc\u4e0ad\n\u0a0ae"]
    n, bad = 0, None
    funcs = {"TextSize::from": lambda i, a: a[0], "TextSize::new": lambda i, a: a[0], "u32::from": lambda i, a: a[0], "usize::from": lambda i, a: a[0],
             "iter::once": lambda i, a: [a[0]], "std::iter::once": lambda i, a: [a[0]], "TextSize::of": lambda i, a: len(a[0].encode()),
             "Vec::with_capacity": lambda i, a: [], "Vec::new": lambda i, a: []}
    for t in texts:
        b = t.encode()
        it = CI(funcs=dict(funcs))
        try:
            li = it.run_fn(new, {new.param_names()[0]: t})
        except (Panic, CannotEstablish) as c:
            bad = (t, None, "cannot establish the line table: %s" % getattr(c, "what", c))
            break
        for off in range(len(b) + 1):
            if off < len(b) and (b[off] & 0xC0) == 0x80:
                continue
            n += 1
            want_line = b[:off].count(b"\n")
            want_col = off - (b[:off].rfind(b"\n") + 1)
            try:
                res = it.inline(lc, [off], recv=li)
                line = res[0].payload.get("0") if isinstance(res, tuple) and isinstance(res[0], Variant) else None
                col = res[1].payload.get("0") if isinstance(res, tuple) and isinstance(res[1], Variant) else None
                got = (line, col)
            except (Panic, CannotEstablish) as c:
                got = "cannot establish: %s" % getattr(c, "what", c)
            if got != (want_line, want_col):
                bad = (t, off, "line_col(%d) = %s; the byte offset lies on line %d (zero-based), %d bytes after the line's start" % (off, got, want_line, want_col))
                break
        if bad:
            break
    if n < 40 and not bad:
        raise LookupError("offsets evaluated: %d" % n)
    run.check(bad is None, lc.site(), "LineIndex::new + line_col agree with byte-wise line/column on %d offsets of %d texts (multi-byte characters included)" % (n, len(texts)),
              "LineIndex::line_col", "bytes", lc.file, lc.ln, "for the text %r: %s" % (bad[0], bad[2]) if bad else "")


def rules(ctx):
    return [
        Rule("R25.d", "LineIndex::new / line_col are byte-accurate on texts with multi-byte characters (evaluated on concrete texts)", 1, r25d),
        Rule("R25.a", "the header shows the 1-based line/column of the start of the diagnostic's own range", 8, r25a),
        Rule("R25.c", "LineIndex::new / line_col evaluated on symbolic newline positions: line = newlines before the offset, column = offset - line start, for every ordering class", 0, r25c),
        Rule("R25.e", "SourceFile::parse lexes, parses and stores the text it was given, unmodified (the caller's line index is built from the same text)", 3, r25e),
        Rule("R25.b", "the LineIndex handed to the renderer is built from the snippet's text and belongs to the diagnostic's file", 5, r25b),
    ]

"""C03 — each executed defer runs exactly once, LIFO, on every exit path (DESIGN §3 C03)."""
from core import Rule
import synq
from synq import canon, walk
import facts as FA
from facts import short, strip_generics, show_chain, walk_chain, chain_calls

PROPERTY = "C03"
TITLE = "Each executed defer runs exactly once, in LIFO order, on every exit path"
NEEDS = ("syn", "facts")
TECHNIQUE = "static analysis: must-pass-through on MIR CFG (every scope jump passes the defer unwinder), typestate pairing of jump targets with defer frames, iteration-order lint"
EXPLANATION = (
    "Engine A (MIR): (a) every Cranelift jump whose target block is looked up in FunctionCompiler::exits / continues (a jump "
    "that leaves scopes) is preceded on every path by the unwinder — a loop that walks defer_stack and compiles the frames' "
    "defers; (b) every construct that registers a jump target under a ScopeId also pushes a DeferFrame carrying that id for "
    "the duration of its body, because the unwinder stops at the frame whose id equals the target: a target without a frame "
    "makes the unwinder run the defers of every enclosing block (which then run a second time at their own exit). Engine B: "
    "(c) every loop over a frame's defers is reversed and the unwinder takes frames from the top of the stack; (d) lowering "
    "pushes/pops a Defer marker around a deferred expression and every label resolution that crossed it yields no label.")
NOT_DECIDED = [
    "what a deferred expression does when it runs",
    "that the hir label resolution picks the right target for every program (C05-like scoping of labels)",
]
ASSUMPTIONS = ["Expr::Block's exit block compiles the block's own defers once (checked as the pop + reversed loop in the Block arm)"]

FC = "codegen::compiler::functions::FunctionCompiler"


def field_of_self(ch, field):
    """does chain denote (a ref to / value from) self.<field>"""
    for n in walk_chain(ch):
        if n.get("kind") == "place" and any(p == "." + field for p in n["proj"]):
            return True
    return False


def direct_receiver(ch, field):
    """the chain is (a reference to / a deref of) self.<field> itself, not something computed from it"""
    n = ch
    for _ in range(12):
        k = n.get("kind")
        if k == "ref":
            n = n["of"]
        elif k == "place":
            if "." + field in n["proj"]:
                return n["proj"][-1] in ("." + field, "*")
            n = n.get("base") or {}
        elif k == "call" and short(n["callee"]) in ("deref", "deref_mut", "as_slice", "as_mut_slice", "borrow", "borrow_mut"):
            n = n["args"][0]
        else:
            return False
    return False


def unwinder_loops(fn):
    """natural loops that read defer_stack and call compile_expr on elements of `.defers`"""
    out = []
    for h, body in fn.loops():
        reads = False
        compiles = False
        for c in fn.calls_in(body):
            chains = [fn.chain_operand(a, depth=6) for a in c.args[:1]]
            if chains and field_of_self(chains[0], "defer_stack"):
                reads = True
            if short(c.callee) in ("compile_expr", "compile_expr_with_args") and c.callee.startswith("codegen::"):
                compiles = True
        if reads and compiles:
            out.append((h, body))
    return out


def unwinder_syn_fn(ctx):
    """the function that holds the unwinder loop, located by role (walks defer_stack, compiles defers), not by name"""
    F = ctx.facts
    cands = [f for f in F.fns if f.crate == "codegen" and f.kind == "fn" and unwinder_loops(f)]
    if len(cands) != 1:
        raise LookupError("functions containing a defer unwinder loop: %s" % [c.norm for c in cands])
    name = short(cands[0].norm)
    return ctx.syn.fn("FunctionCompiler::" + name, "codegen/src/compiler/functions.rs")


def lookups(fn, field):
    out = []
    for c in fn.calls():
        if short(c.callee) == "index" and c.args and field_of_self(fn.chain_operand(c.args[0], depth=5), field):
            out.append(c)
    return out


def r03a(ctx, run):
    F = ctx.facts
    n = 0
    for fn in F.fns:
        if fn.crate != "codegen":
            continue
        for field in ("exits", "continues"):
            for lk in lookups(fn, field):
                n += 1
                owner = strip_generics(fn.parent or fn.path)
                # jumps fed by this lookup
                jumps = []
                for c in fn.calls():
                    # every instruction that transfers control to a block: jump(block, ..), brif(cond, then, .., else, ..), Switch::set_entry(_, block), emit(.., default)
                    if short(c.callee) in ("jump", "brif", "set_entry", "emit") and ("cranelift" in c.callee) and len(c.args) >= 2:
                        for a_ in c.args[1:]:
                            ch = fn.chain_operand(a_, depth=10)
                            if any(x.get("kind") == "call" and x.get("ln") == lk.ln and short(x["callee"]) == "index" for x in walk_chain(ch)):
                                jumps.append(c)
                                break
                if not jumps:
                    run.finding(owner, "lookup-unused:%s" % field, lk.file, lk.ln, "the scope target looked up in self.%s is not what any jump / brif / switch entry of this function goes to: the transfer that leaves the scopes goes "
                                "somewhere else (a block made or cached elsewhere), so it is not established that THIS jump's pending defers run on the way - each jump out of a "
                                "scope must pass the unwinder for the frames it leaves, then go to the looked-up target" % field)
                    continue
                unw = unwinder_loops(fn)
                # calls to a function that itself contains the unwinder loop count as passing the unwinder
                helper_blocks = set()
                for c2 in fn.calls():
                    for tgt in F.by_norm.get(strip_generics(c2.callee), []):
                        if tgt is not fn and tgt.crate == "codegen" and unwinder_loops(tgt):
                            helper_blocks.add(c2.bb)
                for j in jumps:
                    # every path from the lookup to the jump must enter an unwinder loop header (or a call to the unwinder)
                    heads = {h for h, _ in unw} | helper_blocks
                    unw = unw or ([("call", helper_blocks)] if helper_blocks else [])
                    reach_without = fn.can_reach(lk.bb, j.bb, avoid=heads) or lk.bb == j.bb
                    what = "%s: %s to self.%s[label] (lookup line %d, branch line %d)" % (short(owner), short(j.callee), field, lk.ln, j.ln)
                    if unw and not reach_without:
                        run.ok(j.site(), what + " passes the defer unwinder (at bb%s) on every path" % sorted(heads, key=str))
                    else:
                        run.finding(owner, "jump-without-unwind:%s" % field, j.file, j.ln,
                                    what + " does not pass the defer unwinder: the defers of every block being left are skipped when control leaves this way")
    if n < 2:
        raise LookupError("lookups of exits/continues: %d" % n)


def arm_range(synfn, variant):
    for m in synq.matches_on(synfn.body):
        for h, p, g, b, arm in synq.match_table(m):
            if h.endswith("Expr::" + variant) and arm["end"] - arm["ln"] > 20:
                return arm["ln"], arm["end"]
    return None


def r03b(ctx, run):
    F = ctx.facts
    fn = F.fn(FC + "::compile_expr_with_args")
    sfn = ctx.syn.fn("FunctionCompiler::compile_expr_with_args", "codegen/src/compiler/functions.rs")
    inserts = []
    for c in fn.calls():
        if short(c.callee) == "insert" and c.args and (field_of_self(fn.chain_operand(c.args[0], depth=5), "exits") or field_of_self(fn.chain_operand(c.args[0], depth=5), "continues")):
            inserts.append(c)
    pushes = [c for c in fn.calls() if short(c.callee) == "push" and c.args and field_of_self(fn.chain_operand(c.args[0], depth=5), "defer_stack")]
    pops = [c for c in fn.calls() if short(c.callee) == "pop" and c.args and field_of_self(fn.chain_operand(c.args[0], depth=5), "defer_stack")]
    if len(inserts) < 2:
        raise LookupError("insertions into exits/continues in compile_expr_with_args: %d" % len(inserts))
    constructs = {}
    for v in ("Block", "While"):
        r = arm_range(sfn, v)
        if r is None:
            raise LookupError("Expr::%s arm of compile_expr_with_args" % v)
        constructs[v] = r
    seen_constructs = set()
    for ins in inserts:
        which = [v for v, (lo, hi) in constructs.items() if lo <= ins.ln <= hi]
        field = "exits" if field_of_self(fn.chain_operand(ins.args[0], depth=5), "exits") else "continues"
        if not which:
            run.finding(FC + "::compile_expr_with_args", "target-outside-construct:%s" % field, ins.file, ins.ln,
                        "a jump target is registered in self.%s outside the Block/While arms: no defer frame can be paired with it" % field)
            continue
        v = which[0]
        lo, hi = constructs[v]
        my_push = [p for p in pushes if lo <= p.ln <= hi]
        my_pop = [p for p in pops if lo <= p.ln <= hi]
        key_chain = fn.chain_operand(ins.args[1], depth=8)
        good = False
        detail = "no DeferFrame is pushed"
        for p in my_push:
            frame = fn.chain_operand(p.args[1], depth=8)
            if frame.get("kind") == "agg" and frame["path"].endswith("DeferFrame"):
                idv = frame["args"][frame["fields"].index("id")] if "id" in frame["fields"] else None
                # the frame id and the registered key must come from the same block_to_scope_id(..) result
                src_a = {x["ln"] for x in chain_calls(idv) if short(x["callee"]) == "block_to_scope_id"} if idv else set()
                src_b = {x["ln"] for x in chain_calls(key_chain) if short(x["callee"]) == "block_to_scope_id"}
                if src_a and src_a == src_b:
                    # push before body, pop after: the push must dominate a pop
                    if any(fn.dominates(p.bb, q.bb) for q in my_pop):
                        good = True
                    else:
                        detail = "the frame pushed at line %d is never popped inside the construct" % p.ln
                else:
                    detail = "the pushed frame's id does not come from the scope id that was registered"
        what = "Expr::%s registers self.%s[scope_id] (line %d)" % (v, field, ins.ln)
        if good:
            run.ok(ins.site(), what + " and keeps a DeferFrame with that id on the stack while its body is compiled")
        else:
            if (v, "finding") in seen_constructs:
                run.instances.append({"rule": run.rule.id, "site": ins.site(), "what": what + " (same construct)", "verdict": "finding"})
                continue
            seen_constructs.add((v, "finding"))
            run.finding(FC + "::compile_expr_with_args", "target-without-frame:%s" % v, ins.file, ins.ln,
                        what + " but %s: break_to_label stops unwinding only at a frame whose id equals the target, so a jump to this target runs the defers of "
                        "EVERY enclosing block, and those run again when their blocks end" % detail)
    unwinder_semantics(ctx, run)


def unwinder_fn(ctx):
    F = ctx.facts
    cands = [f for f in F.fns if f.crate == "codegen" and f.kind == "fn" and unwinder_loops(f)]
    if len(cands) != 1:
        raise LookupError("functions containing a defer unwinder loop: %s" % [c.norm for c in cands])
    return cands[0]


def unwinder_semantics(ctx, run):
    """stop test, frames left intact, frames restored — on the unwinder's MIR (no source text involved)"""
    fn = unwinder_fn(ctx)
    U = strip_generics(fn.path)
    loops = unwinder_loops(fn)
    h, body = max(loops, key=lambda hb: len(hb[1]))      # the frame loop (outermost)
    label_params = [i for i, l in enumerate(fn.locals) if l.get("arg") and "ScopeId" in l["ty"]]
    if len(label_params) != 1:
        raise LookupError("the unwinder's ScopeId parameter: %s" % label_params)
    lab = label_params[0]

    def mentions_label(ch):
        return any(n.get("kind") == "param" and n.get("name") == fn.locals[lab].get("name") for n in walk_chain(ch))

    def mentions_frame_id(ch):
        return any(n.get("kind") == "place" and ".id" in n["proj"] for n in walk_chain(ch))

    # S1: the stop test
    stops = []
    for c in fn.calls_in(body):
        if short(c.callee) == "eq" and "ScopeId" in (c.ga or ""):
            chains = [fn.chain_operand(a, depth=8) for a in c.args[:2]]
            if (mentions_frame_id(chains[0]) and mentions_label(chains[1])) or (mentions_frame_id(chains[1]) and mentions_label(chains[0])):
                stops.append(c)
    good = False
    detail = "no comparison of a frame's id with the target label inside the frame loop"
    compiles = [c for c in fn.calls_in(body) if short(c.callee) in ("compile_expr", "compile_expr_with_args")]
    inner = [(h2, b2) for h2, b2 in fn.loops() if h2 != h and h2 in body]
    pops = [c for c in fn.calls_in(body) if short(c.callee) == "pop"]
    for c in stops:
        # the frame whose id equals the label is the LAST one whose defers are run: the loop over that frame's defers comes first in
        # the iteration (its header dominates the comparison), the `true` side leaves the frame loop without popping the frame,
        # the `false` side pops it and goes on
        for i in body:
            t = fn.blocks[i]["t"]
            if t["k"] == "switch" and (t["o"].get("c") or t["o"].get("m") or [None])[0] in (c.dest or []):
                vals, tg = t["vals"], t["t"]
                true_side = tg[vals.index("1")] if "1" in vals else tg[-1]
                false_side = tg[vals.index("0")] if "0" in vals else tg[-1]
                ran_first = any(any(cc.bb in b2 for cc in compiles) and fn.dominates(h2, c.bb) for h2, b2 in inner)
                leaves = not any(fn.can_reach(true_side, x.bb, avoid=[h]) or true_side == x.bb for x in compiles + pops)
                goes_on = any(fn.can_reach(false_side, x.bb, avoid=[h]) or false_side == x.bb for x in pops)
                if ran_first and leaves and goes_on:
                    good = True
                else:
                    detail = ("at the comparison on line %d: defers of the visited frame compiled before the test=%s, equal case leaves the loop without popping or "
                              "compiling more=%s, unequal case pops and continues=%s" % (c.ln, ran_first, leaves, goes_on))
    run.check(good, "%s:%d" % (fn.file, stops[0].ln if stops else fn.lo), "unwinder runs the registered defers of every frame up to AND INCLUDING the target frame, then stops (target not popped)",
              U, "stop-test", fn.file, stops[0].ln if stops else fn.lo,
              "a jump to a scope must run the defers that scope has registered SO FAR (and only those): the unwinder has to compile the target frame's defers and then stop. " + detail)

    # S1b: the frame loop is left only because the target frame was reached (or the stack is empty): any other way out - a test on a property of the
    # visited frame, on a flag - stops the unwinding before the target, and the defers in between never run on that path
    for u, v in fn.loop_exit_edges(h, body):
        t = fn.blocks[u]["t"]
        if fn.blocks[v].get("cleanup") or t["k"] != "switch":
            continue
        ch = fn.switch_operand(u, depth=10) or {}
        calls_ = [short(x["callee"]) for x in chain_calls(ch)]
        is_stop = any(x.get("kind") == "call" and short(x["callee"]) == "eq" and "ScopeId" in (x.get("ga") or "") for x in walk_chain(ch))
        is_exhausted = ch.get("kind") == "discr" and any(c_ in calls_ for c_ in ("last", "pop", "last_mut", "next", "cloned")) and not is_stop
        ln_ = t.get("ln", fn.lo)
        run.check(is_stop or is_exhausted, "%s:%d" % (fn.file, ln_), "the frame loop is left at line %d because %s" % (ln_, "the target frame was reached" if is_stop else "no frame is left"),
                  U, "only-exit-is-the-target", fn.file, ln_,
                  "the unwinder's frame loop can be left at line %d on a test that is neither `this frame is the target` nor `no frame is left` (%s): a jump that crosses such a "
                  "frame stops unwinding early and the defers between that frame and the target never run on that path" % (ln_, show_chain(ch, 5)[:80]))

    # S2: frames are left intact (they are left again, later, on the other paths)
    touched = []
    for i, blk in enumerate(fn.blocks):
        if blk.get("cleanup"):
            continue
        for st in blk["s"]:
            rv = st.get("rv") or {}
            if rv.get("k") == "ref" and rv.get("mut") and any(x in (".defers", ".id") for x in rv["p"][1:]):
                touched.append((st["ln"], "&mut " + "".join(str(x) for x in rv["p"][1:])))
            if any(x in (".defers", ".id") for x in st["p"][1:]):
                touched.append((st["ln"], "assignment to " + "".join(str(x) for x in st["p"][1:])))
    run.check(not touched, "%s:%d" % (fn.file, touched[0][0] if touched else fn.lo), "unwinder never writes to / mutably borrows a frame's `defers` or `id`", U, "frames-intact", fn.file,
              touched[0][0] if touched else fn.lo,
              "the unwinder modifies the frames it walks (%s): every frame crossed by a jump is left again later by another path, which then finds its defers changed "
              "(defers registered before the jump are lost or run twice)" % "; ".join("line %d: %s" % t for t in touched[:3]))

    # S3: the stack is restored
    mut_stack = [c for c in fn.calls() if c.args and field_of_self(fn.chain_operand(c.args[0], depth=6), "defer_stack")
                 and short(c.callee) in ("pop", "truncate", "drain", "clear", "remove", "split_off", "push", "extend", "append", "insert", "swap_remove", "retain")]
    removers = [c for c in mut_stack if short(c.callee) in ("pop", "truncate", "drain", "clear", "remove", "split_off", "swap_remove", "retain")]
    if not removers:
        run.ok("%s:%d" % (fn.file, fn.lo), "unwinder does not remove frames from defer_stack (nothing to restore)")
    else:
        rets = [i for i, blk in enumerate(fn.blocks) if blk["t"]["k"] == "return"]
        good = False
        detail = "no `extend`/`append` of the removed frames onto defer_stack on the way out"
        only_pop = all(short(c.callee) == "pop" and any(c.bb in bd for _, bd in loops) for c in removers)
        for e in [c for c in mut_stack if short(c.callee) in ("extend", "append")]:
            src = fn.chain_operand(e.args[1], depth=10)
            rev = any(x.get("kind") == "call" and short(x["callee"]) == "rev" for x in walk_chain(src))
            # the collection handed back is the one that received every popped frame
            holders = [x.get("local") for x in walk_chain(src) if x.get("kind") in ("phi", "undef", "cut", "local") and x.get("local") is not None]
            pushed = []
            for pc in fn.calls_in(body):
                if short(pc.callee) == "push" and not field_of_self(fn.chain_operand(pc.args[0], depth=6), "defer_stack"):
                    vch = fn.chain_operand(pc.args[1], depth=8)
                    if any(x.get("kind") == "call" and short(x["callee"]) == "pop" for x in walk_chain(vch)):
                        pushed.append(pc)
            dominates_exit = all(fn.dominates(e.bb, r) for r in rets)
            if rev and pushed and len(pushed) == len(removers) and dominates_exit and only_pop:
                good = True
            else:
                detail = "restore at line %d: reversed=%s, popped frames kept=%d/%d, on every path out=%s" % (e.ln, rev, len(pushed), len(removers), dominates_exit)
        run.check(good, "%s:%d" % (fn.file, removers[0].ln), "frames popped while unwinding are pushed back, in their original order, on every path out", U, "restore", fn.file, removers[0].ln,
                  "frames popped while unwinding must be pushed back in their original order before the unwinder returns: " + detail)


def defers_iterations(F):
    """(fn, compile call, `next` call node, chain) for every compile_expr whose operand comes from iterating a frame's `.defers`"""
    out = []
    for fn in F.fns:
        if fn.crate != "codegen":
            continue
        for c in fn.calls():
            if short(c.callee) in ("compile_expr", "compile_expr_with_args") and c.callee.startswith("codegen::") and len(c.args) > 1:
                ch = fn.chain_operand(c.args[1], depth=24)
                nx = [n for n in walk_chain(ch) if n.get("kind") == "call" and short(n["callee"]) in ("next", "next_back")]
                if nx and any(n.get("kind") == "place" and ".defers" in n["proj"] for n in walk_chain(ch)):
                    out.append((fn, c, nx[0], ch))
    return out


def r03c(ctx, run):
    F = ctx.facts
    sites = defers_iterations(F)
    if len(sites) < 2:
        raise LookupError("sites compiling the elements of a frame's defers: %d" % len(sites))
    for fn, c, nx, ch in sites:
        owner = strip_generics(fn.parent or fn.path)
        rev = ("adapters::rev::Rev<" in (nx.get("ga") or "")) != (short(nx["callee"]) == "next_back")
        run.check(rev, c.site(), "%s: a frame's defers are compiled last-registered first (%s)" % (short(owner), show_chain(ch, 8)[:70]), owner, "reverse", c.file, c.ln,
                  "the defers of a frame are compiled in registration order (iterator %s); they must run in reverse of the order they were reached" % (nx.get("ga") or "")[:80])
        in_loop = any(c.bb in body for _, body in fn.loops())
        run.check(in_loop, c.site(), "%s: each defer of the frame is compiled inside the iteration" % short(owner), owner, "compile", c.file, c.ln, "defers are not compiled per element")
    # frames innermost first: the frame examined by the unwinder comes from the top of defer_stack
    fn = unwinder_fn(ctx)
    U = strip_generics(fn.path)
    loops = unwinder_loops(fn)
    h, body = max(loops, key=lambda hb: len(hb[1]))
    tops = set()
    for c in fn.calls_in(body):
        if c.args and direct_receiver(fn.chain_operand(c.args[0], depth=8), "defer_stack") and short(c.callee) not in ("deref", "deref_mut", "len", "is_empty", "push", "extend", "append"):
            tops.add(short(c.callee))
    good = bool(tops) and tops <= {"last", "last_mut", "pop", "next_back"}
    run.check(good, "%s:%d" % (fn.file, fn.lo), "unwinder visits frames innermost first (frame taken via %s of defer_stack)" % sorted(tops), U, "innermost-first", fn.file, fn.lo,
              "the unwinder must take frames from the top of defer_stack (found access via %s)" % sorted(tops))
    # Stmt::Defer appends to the innermost frame (MIR: push onto `.defers` of last_mut(defer_stack), of the statement's own expression)
    cs = F.fn(FC + "::compile_stmt")
    regs = []
    for c in cs.calls():
        if short(c.callee) == "push" and len(c.args) >= 2:
            recv = cs.chain_operand(c.args[0], depth=10)
            if any(n.get("kind") == "place" and n["proj"] and n["proj"][-1] == ".defers" for n in walk_chain(recv)):
                regs.append((c, recv))
    if len(regs) != 1:
        raise LookupError("registrations of a defer (push onto a frame's defers) in compile_stmt: %d" % len(regs))
    c, recv = regs[0]
    via = {short(x["callee"]) for x in chain_calls(recv)}
    val = cs.chain_operand(c.args[1], depth=10)
    own = any(n.get("kind") == "place" and any("as:Defer" in str(x) for x in n["proj"]) for n in walk_chain(val))
    good = bool(via & {"last_mut"}) and not (via & {"first_mut", "get_mut", "index_mut", "iter_mut"}) and field_of_self(recv, "defer_stack") and own
    run.check(good, c.site(), "a reached defer is appended to the innermost frame (via %s)" % sorted(via), FC + "::compile_stmt", "register", c.file, c.ln,
              "Stmt::Defer must push its own expression onto the innermost frame's defers (receiver reached via %s, own expression: %s)" % (sorted(via), own))
    # Block arm: the block's own defers are compiled on the fall-through path, BEFORE the jumps to the exit block; the exit block (the
    # target of every break/return to this block, registered in self.exits) compiles none - a jump can come from before a later
    # `defer` statement, and an unreached defer must not run
    fn = F.fn(FC + "::compile_expr_with_args")
    # where the Block arm compiles the block's own defers: a loop over the innermost frame's defers in the arm itself, or calls of a helper method
    # that is such a loop (over defer_stack.last())
    unw = unwinder_fn(ctx)
    site_blocks = []        # (block that runs the defers, call used for reporting)
    for f2, c2, nx2, ch2 in sites:
        if f2 is fn:
            lp = [(h2, b2) for h2, b2 in fn.loops() if c2.bb in b2]
            site_blocks.append((min(lp, key=lambda hb: len(hb[1]))[0] if lp else c2.bb, c2))
        elif f2 is not unw and any(short(x["callee"]) in ("last", "last_mut") for x in chain_calls(ch2)):
            hname = short(strip_generics(f2.path))
            for x in fn.calls():
                if short(x.callee) == hname and "FunctionCompiler" in x.callee:
                    site_blocks.append((x.bb, x))
    if not site_blocks:
        raise LookupError("site compiling a block's own defers: 0")
    c = site_blocks[0][1]
    exit_creates = set()
    for ins in fn.calls():
        if short(ins.callee) == "insert" and ins.args and field_of_self(fn.chain_operand(ins.args[0], depth=5), "exits"):
            for x in chain_calls(fn.chain_operand(ins.args[2], depth=8)):
                if short(x["callee"]) == "create_block":
                    exit_creates.add((x["ln"], x.get("bb")))
    # the exit block of the Block arm: the registered create_block that dominates the sites
    mine = {(ln, bb) for ln, bb in exit_creates if bb is not None and any(fn.dominates(bb, sb) for sb, _ in site_blocks)}

    def refers(call, idx):
        return len(call.args) > idx and any(short(y["callee"]) == "create_block" and (y["ln"], y.get("bb")) in mine for y in chain_calls(fn.chain_operand(call.args[idx], depth=8)))
    in_exit = [x for x in fn.calls() if short(x.callee) == "switch_to_block" and refers(x, 1) and any(fn.dominates(x.bb, sb) for sb, _ in site_blocks)]
    jumps = [x for x in fn.calls() if short(x.callee) == "jump" and refers(x, 1)]
    late = [x for x in jumps if not any(fn.dominates(sb, x.bb) for sb, _ in site_blocks)]
    good = bool(mine) and not in_exit and bool(jumps) and not late
    run.check(good, c.site(), "Block arm: own defers compiled on the fall-through path before each of the %d jumps to the exit block; the exit block compiles none" % len(jumps),
              FC + "::compile_expr_with_args", "block-exit", c.file, c.ln,
              "a block's own defers must run where the end of the block is reached (before jumping to the exit block), not in the exit block that every break/return "
              "to the block jumps to: compiled inside the exit block=%s, fall-through jumps to the exit not preceded by the defers=%s" % (bool(in_exit), [x.ln for x in late]))


def r03d(ctx, run):
    ld = ctx.syn.fn("Ctx::lower_defer", "hir/src/body.rs")
    c = [canon(s) for s in ld.body["s"]]
    i_push = next((i for i, s in enumerate(c) if s.startswith("self.label_kinds.push(ScopeKind::Defer)")), None)
    i_low = next((i for i, s in enumerate(c) if "self.lower_expr(" in s), None)
    i_pop = next((i for i, s in enumerate(c) if s.startswith("self.label_kinds.pop()")), None)
    good = None not in (i_push, i_low, i_pop) and i_push < i_low < i_pop and not any(x.get("k") in ("return", "try") for x in walk(ld.body))
    run.check(good, ld.site(), "lower_defer marks the deferred expression with ScopeKind::Defer (push, lower, pop; no early exit)", "Ctx::lower_defer", "marker", ld.file, ld.ln,
              "the deferred expression must be lowered between pushing and popping ScopeKind::Defer")
    for name in ("resolve_first_label", "resolve_last_label"):
        f = ctx.syn.fn("Ctx::" + name, "hir/src/body.rs")
        # flags: boolean locals set to true where a ScopeKind::Defer entry is seen (name taken from the code, not assumed)
        flag_sets = []
        for x in walk(f.body):
            if x.get("k") == "assign" and x["l"].get("k") == "path" and canon(x["r"]) == "true":
                flag_sets.append(x)
        defer_ctx = []
        for x in walk(f.body):
            # an `if matches!(.., ScopeKind::Defer) { flag = true }` or a match arm `ScopeKind::Defer => { flag = true; .. }`
            if x.get("k") == "if" and "ScopeKind::Defer" in canon(x["c"]):
                defer_ctx += [a for a in flag_sets if any(y is a for y in walk(x["t"]))]
            if x.get("k") == "match":
                for h, pp, g, bb, arm in synq.match_table(x):
                    if h.endswith("ScopeKind::Defer"):
                        defer_ctx += [a for a in flag_sets if any(y is a for y in walk(bb))]
        sets = defer_ctx
        names = {canon(a["l"]) for a in sets}
        guards = []
        for x in walk(f.body):
            if x.get("k") == "if" and canon(x["c"]) in names:
                t = canon(x["t"])
                guards.append(t.rstrip(" }").endswith("None") or "return None" in t)
        run.check(len(sets) >= 1 and len(sets) == len(guards) and all(guards), f.site(), "%s: %d walks record a crossed Defer marker, %d guards yield no label" % (name, len(sets), len(guards)),
                  "Ctx::" + name, "defer-crossing", f.file, f.ln,
                  "%s: every label walk that can cross a ScopeKind::Defer must refuse (return None) when it did: %d walks, %d refusing guards" % (name, len(sets), sum(guards)))
    # a refused jump must be REPORTED: the code generator believes a jump without label never reaches it (`label: None => unreachable!()`),
    # which is only true if every refusal comes with an error diagnostic.  So no caller may ask for a silent refusal.
    n_calls = 0
    for f in ctx.syn.fns_in("hir/src/body.rs"):
        if f.body is None:
            continue
        for c in walk(f.body):
            if c.get("k") == "mcall" and c["m"] in ("resolve_first_label", "resolve_last_label") and canon(c["r"]) == "self":
                n_calls += 1
                silent = [canon(a) for a in c["a"] if canon(a).endswith("PassedDeferErr::Ignore")]
                run.check(not silent, f.site(c["ln"]), "%s -> %s: a jump refused for crossing a defer is reported" % (f.qual, c["m"]), f.qual, "silent-refusal:" + c["m"], f.file, c["ln"],
                          "%s asks %s to refuse a jump out of a `defer` SILENTLY (PassedDeferErr::Ignore): the statement keeps `label: None` without any error, "
                          "the program is not rejected, and the code generator hits `label: None => unreachable!()`" % (f.qual, c["m"]))
    if n_calls < 4:
        raise LookupError("label resolution call sites: %d" % n_calls)
    # codegen side: unlabeled jumps are unreachable
    cs = ctx.syn.fn("FunctionCompiler::compile_stmt", "codegen/src/compiler/functions.rs")
    for m in synq.matches_on(cs.body):
        for h, p, g, b, arm in synq.match_table(m):
            if (h.endswith("Stmt::Break") or h.endswith("Stmt::Continue")) and "label: None" in canon(p):
                run.check("unreachable!" in canon(b), cs.site(arm["ln"]), "%s with label None is not compiled" % synq.last_seg(h), "FunctionCompiler::compile_stmt", "label-none:" + synq.last_seg(h),
                          cs.file, arm["ln"], "a jump without resolved label must not be compiled (is_safe_to_compile rejects it, C07 R07.c)")


def rules(ctx):
    return [
        Rule("R03.a", "every jump to a looked-up scope target passes the defer unwinder on every path", 2, r03a),
        Rule("R03.b", "every registered jump target has a DeferFrame with its id while its body is compiled; unwinder stop test", 4, r03b),
        Rule("R03.c", "LIFO: defers compiled reversed, frames innermost first, block's own defers in its exit block", 6, r03c),
        Rule("R03.d", "lowering: Defer marker around deferred expressions; label resolution refuses to cross it, and never silently", 9, r03d),
    ]

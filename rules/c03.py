"""C03 — each executed defer runs exactly once, LIFO, on every exit path (DESIGN §3 C03)."""
from core import Rule
import synq
from synq import canon, walk
import facts as FA
from facts import short, strip_generics, show_chain, walk_chain, chain_calls

PROPERTY = "C03"
TITLE = "Each executed defer runs exactly once, in LIFO order, on every exit path"
NEEDS = ("syn", "facts")
TECHNIQUE = "static analysis: must-pass-through on MIR CFG (every scope jump passes the defer unwinder), typestate pairing of jump targets with defer frames, iteration-order lint"
EXPLANATION = (
    "Engine A (MIR): (a) every Cranelift jump whose target block is looked up in FunctionCompiler::exits / continues (a jump "
    "that leaves scopes) is preceded on every path by the unwinder — a loop that walks defer_stack and compiles the frames' "
    "defers; (b) every construct that registers a jump target under a ScopeId also pushes a DeferFrame carrying that id for "
    "the duration of its body, because the unwinder stops at the frame whose id equals the target: a target without a frame "
    "makes the unwinder run the defers of every enclosing block (which then run a second time at their own exit). Engine B: "
    "(c) every loop over a frame's defers is reversed and the unwinder takes frames from the top of the stack; (d) lowering "
    "pushes/pops a Defer marker around a deferred expression and every label resolution that crossed it yields no label.")
NOT_DECIDED = [
    "what a deferred expression does when it runs",
    "that the hir label resolution picks the right target for every program (C05-like scoping of labels)",
]
ASSUMPTIONS = ["Expr::Block's exit block compiles the block's own defers once (checked as the pop + reversed loop in the Block arm)"]

FC = "codegen::compiler::functions::FunctionCompiler"


def field_of_self(ch, field):
    """does chain denote (a ref to / value from) self.<field>"""
    for n in walk_chain(ch):
        if n.get("kind") == "place" and any(p == "." + field for p in n["proj"]):
            return True
    return False


def unwinder_loops(fn):
    """natural loops that read defer_stack and call compile_expr on elements of `.defers`"""
    out = []
    for h, body in fn.loops():
        reads = False
        compiles = False
        for c in fn.calls_in(body):
            chains = [fn.chain_operand(a, depth=6) for a in c.args[:1]]
            if chains and field_of_self(chains[0], "defer_stack"):
                reads = True
            if short(c.callee) in ("compile_expr", "compile_expr_with_args") and c.callee.startswith("codegen::"):
                compiles = True
        if reads and compiles:
            out.append((h, body))
    return out


def unwinder_syn_fn(ctx):
    """the function that holds the unwinder loop, located by role (walks defer_stack, compiles defers), not by name"""
    F = ctx.facts
    cands = [f for f in F.fns if f.crate == "codegen" and f.kind == "fn" and unwinder_loops(f)]
    if len(cands) != 1:
        raise LookupError("functions containing a defer unwinder loop: %s" % [c.norm for c in cands])
    name = short(cands[0].norm)
    return ctx.syn.fn("FunctionCompiler::" + name, "codegen/src/compiler/functions.rs")


def lookups(fn, field):
    out = []
    for c in fn.calls():
        if short(c.callee) == "index" and c.args and field_of_self(fn.chain_operand(c.args[0], depth=5), field):
            out.append(c)
    return out


def r03a(ctx, run):
    F = ctx.facts
    n = 0
    for fn in F.fns:
        if fn.crate != "codegen":
            continue
        for field in ("exits", "continues"):
            for lk in lookups(fn, field):
                n += 1
                owner = strip_generics(fn.parent or fn.path)
                # jumps fed by this lookup
                jumps = []
                for c in fn.calls():
                    if short(c.callee) == "jump" and "cranelift" in c.callee and len(c.args) >= 2:
                        ch = fn.chain_operand(c.args[1], depth=10)
                        if any(x.get("kind") == "call" and x.get("ln") == lk.ln and short(x["callee"]) == "index" for x in walk_chain(ch)):
                            jumps.append(c)
                if not jumps:
                    run.finding(owner, "lookup-unused:%s" % field, lk.file, lk.ln, "scope target looked up in self.%s but no jump uses it (analysis lost the flow)" % field)
                    continue
                unw = unwinder_loops(fn)
                # calls to a function that itself contains the unwinder loop count as passing the unwinder
                helper_blocks = set()
                for c2 in fn.calls():
                    for tgt in F.by_norm.get(strip_generics(c2.callee), []):
                        if tgt is not fn and tgt.crate == "codegen" and unwinder_loops(tgt):
                            helper_blocks.add(c2.bb)
                for j in jumps:
                    # every path from the lookup to the jump must enter an unwinder loop header (or a call to the unwinder)
                    heads = {h for h, _ in unw} | helper_blocks
                    unw = unw or ([("call", helper_blocks)] if helper_blocks else [])
                    reach_without = fn.can_reach(lk.bb, j.bb, avoid=heads) or lk.bb == j.bb
                    what = "%s: jump to self.%s[label] (lookup line %d, jump line %d)" % (short(owner), field, lk.ln, j.ln)
                    if unw and not reach_without:
                        run.ok(j.site(), what + " passes the defer unwinder (at bb%s) on every path" % sorted(heads, key=str))
                    else:
                        run.finding(owner, "jump-without-unwind:%s" % field, j.file, j.ln,
                                    what + " does not pass the defer unwinder: the defers of every block being left are skipped when control leaves this way")
    if n < 2:
        raise LookupError("lookups of exits/continues: %d" % n)


def arm_range(synfn, variant):
    for m in synq.matches_on(synfn.body):
        for h, p, g, b, arm in synq.match_table(m):
            if h.endswith("Expr::" + variant) and arm["end"] - arm["ln"] > 20:
                return arm["ln"], arm["end"]
    return None


def r03b(ctx, run):
    F = ctx.facts
    fn = F.fn(FC + "::compile_expr_with_args")
    sfn = ctx.syn.fn("FunctionCompiler::compile_expr_with_args", "codegen/src/compiler/functions.rs")
    inserts = []
    for c in fn.calls():
        if short(c.callee) == "insert" and c.args and (field_of_self(fn.chain_operand(c.args[0], depth=5), "exits") or field_of_self(fn.chain_operand(c.args[0], depth=5), "continues")):
            inserts.append(c)
    pushes = [c for c in fn.calls() if short(c.callee) == "push" and c.args and field_of_self(fn.chain_operand(c.args[0], depth=5), "defer_stack")]
    pops = [c for c in fn.calls() if short(c.callee) == "pop" and c.args and field_of_self(fn.chain_operand(c.args[0], depth=5), "defer_stack")]
    if len(inserts) < 2:
        raise LookupError("insertions into exits/continues in compile_expr_with_args: %d" % len(inserts))
    constructs = {}
    for v in ("Block", "While"):
        r = arm_range(sfn, v)
        if r is None:
            raise LookupError("Expr::%s arm of compile_expr_with_args" % v)
        constructs[v] = r
    seen_constructs = set()
    for ins in inserts:
        which = [v for v, (lo, hi) in constructs.items() if lo <= ins.ln <= hi]
        field = "exits" if field_of_self(fn.chain_operand(ins.args[0], depth=5), "exits") else "continues"
        if not which:
            run.finding(FC + "::compile_expr_with_args", "target-outside-construct:%s" % field, ins.file, ins.ln,
                        "a jump target is registered in self.%s outside the Block/While arms: no defer frame can be paired with it" % field)
            continue
        v = which[0]
        lo, hi = constructs[v]
        my_push = [p for p in pushes if lo <= p.ln <= hi]
        my_pop = [p for p in pops if lo <= p.ln <= hi]
        key_chain = fn.chain_operand(ins.args[1], depth=8)
        good = False
        detail = "no DeferFrame is pushed"
        for p in my_push:
            frame = fn.chain_operand(p.args[1], depth=8)
            if frame.get("kind") == "agg" and frame["path"].endswith("DeferFrame"):
                idv = frame["args"][frame["fields"].index("id")] if "id" in frame["fields"] else None
                # the frame id and the registered key must come from the same block_to_scope_id(..) result
                src_a = {x["ln"] for x in chain_calls(idv) if short(x["callee"]) == "block_to_scope_id"} if idv else set()
                src_b = {x["ln"] for x in chain_calls(key_chain) if short(x["callee"]) == "block_to_scope_id"}
                if src_a and src_a == src_b:
                    # push before body, pop after: the push must dominate a pop
                    if any(fn.dominates(p.bb, q.bb) for q in my_pop):
                        good = True
                    else:
                        detail = "the frame pushed at line %d is never popped inside the construct" % p.ln
                else:
                    detail = "the pushed frame's id does not come from the scope id that was registered"
        what = "Expr::%s registers self.%s[scope_id] (line %d)" % (v, field, ins.ln)
        if good:
            run.ok(ins.site(), what + " and keeps a DeferFrame with that id on the stack while its body is compiled")
        else:
            if (v, "finding") in seen_constructs:
                run.instances.append({"rule": run.rule.id, "site": ins.site(), "what": what + " (same construct)", "verdict": "finding"})
                continue
            seen_constructs.add((v, "finding"))
            run.finding(FC + "::compile_expr_with_args", "target-without-frame:%s" % v, ins.file, ins.ln,
                        what + " but %s: break_to_label stops unwinding only at a frame whose id equals the target, so a jump to this target runs the defers of "
                        "EVERY enclosing block, and those run again when their blocks end" % detail)
    # the unwinder's stop test compares frame.id with the label
    btl = unwinder_syn_fn(ctx)
    c = canon(btl.body)
    run.check("if let Some(id) = frame.id" in c and "(id == label)" in c and "break" in c, btl.site(), "unwinder stops at the frame whose id == label", "FunctionCompiler::" + btl.name,
              "stop-test", btl.file, btl.ln, "the unwinder must stop (without running it) at the frame whose id equals the target label")
    run.check("self.defer_stack.extend(used_frames.into_iter().rev())" in c, btl.site(), "unwinder restores the frames it walked (they are left again on other paths)", "FunctionCompiler::" + btl.name,
              "restore", btl.file, btl.ln, "frames popped while unwinding must be pushed back in their original order")


def r03c(ctx, run):
    n = 0
    for f in ctx.syn.fns_in("codegen/src/compiler/functions.rs"):
        if f.body is None:
            continue
        for lp in [x for x in walk(f.body) if x.get("k") == "for"]:
            it = canon(lp["e"])
            if ".defers" in it:
                n += 1
                run.check(it.endswith(".defers.iter().rev()"), f.site(lp["ln"]), "%s: defers compiled in reverse (%s)" % (f.qual, it), f.qual, "reverse", f.file, lp["ln"],
                          "defers of a frame are compiled in the order `%s`; they must run in reverse of the order they were reached" % it)
                run.check(any(x.get("k") == "mcall" and x["m"] == "compile_expr" for x in walk(lp["b"])), f.site(lp["ln"]), "%s: each defer is compiled once in the loop" % f.qual, f.qual,
                          "compile", f.file, lp["ln"], "loop over defers does not compile them")
    if n < 2:
        raise LookupError("loops over .defers: %d" % n)
    btl = unwinder_syn_fn(ctx)
    wl = [x for x in walk(btl.body) if x.get("k") == "while" and x["c"].get("k") == "let"]
    good = len(wl) == 1 and canon(wl[0]["c"]["e"]) == "self.defer_stack.last().cloned()" and "self.defer_stack.pop()" in canon(wl[0]["b"])
    run.check(good, btl.site(), "unwinder visits frames innermost first (last(), then pop())", "FunctionCompiler::" + btl.name, "innermost-first", btl.file, btl.ln,
              "the unwinder must take frames from the top of defer_stack")
    # Stmt::Defer appends to the innermost frame
    cs = ctx.syn.fn("FunctionCompiler::compile_stmt", "codegen/src/compiler/functions.rs")
    arms = [t for m in synq.matches_on(cs.body) for t in synq.match_table(m) if t[0].endswith("Stmt::Defer")]
    good = len(arms) == 1 and "self.defer_stack.last_mut()" in canon(arms[0][3]) and ".defers.push(expr)" in canon(arms[0][3])
    run.check(good, cs.site(arms[0][4]["ln"] if arms else cs.ln), "a reached defer is appended to the innermost frame", "FunctionCompiler::compile_stmt", "register", cs.file,
              arms[0][4]["ln"] if arms else cs.ln, "Stmt::Defer must push its expression onto the innermost frame's defers")
    # Block arm: pop then compile own defers reversed
    sfn = ctx.syn.fn("FunctionCompiler::compile_expr_with_args", "codegen/src/compiler/functions.rs")
    for m in synq.matches_on(sfn.body):
        for h, p, g, b, arm in synq.match_table(m):
            if h.endswith("Expr::Block") and arm["end"] - arm["ln"] > 20:
                c = canon(b)
                i_sw = c.find("self.builder.switch_to_block(exit_block)")
                i_pop = c.find("self.defer_stack.pop()")
                i_for = c.find("for defer in defer_frame.defers.iter().rev()")
                run.check(0 <= i_sw < i_pop < i_for, sfn.site(arm["ln"]), "Block arm: own defers compiled in the exit block, after popping the frame", "FunctionCompiler::compile_expr_with_args",
                          "block-exit", sfn.file, arm["ln"], "a block's own defers must be compiled in its exit block (so that they run once on every way of leaving it)")


def r03d(ctx, run):
    ld = ctx.syn.fn("Ctx::lower_defer", "hir/src/body.rs")
    c = [canon(s) for s in ld.body["s"]]
    i_push = next((i for i, s in enumerate(c) if s.startswith("self.label_kinds.push(ScopeKind::Defer)")), None)
    i_low = next((i for i, s in enumerate(c) if "self.lower_expr(" in s), None)
    i_pop = next((i for i, s in enumerate(c) if s.startswith("self.label_kinds.pop()")), None)
    good = None not in (i_push, i_low, i_pop) and i_push < i_low < i_pop and not any(x.get("k") in ("return", "try") for x in walk(ld.body))
    run.check(good, ld.site(), "lower_defer marks the deferred expression with ScopeKind::Defer (push, lower, pop; no early exit)", "Ctx::lower_defer", "marker", ld.file, ld.ln,
              "the deferred expression must be lowered between pushing and popping ScopeKind::Defer")
    for name in ("resolve_first_label", "resolve_last_label"):
        f = ctx.syn.fn("Ctx::" + name, "hir/src/body.rs")
        sets = [x for x in walk(f.body) if x.get("k") == "assign" and canon(x["l"]) == "passed_defer" and canon(x["r"]) == "true"]
        guards = []
        for x in walk(f.body):
            if x.get("k") == "if" and canon(x["c"]) == "passed_defer":
                t = canon(x["t"])
                guards.append(t.rstrip(" }").endswith("None") or "return None" in t)
        run.check(len(sets) >= 1 and len(sets) == len(guards) and all(guards), f.site(), "%s: %d walks record a crossed Defer marker, %d guards yield no label" % (name, len(sets), len(guards)),
                  "Ctx::" + name, "defer-crossing", f.file, f.ln,
                  "%s: every label walk that can cross a ScopeKind::Defer must refuse (return None) when it did: %d walks, %d refusing guards" % (name, len(sets), sum(guards)))
    # codegen side: unlabeled jumps are unreachable
    cs = ctx.syn.fn("FunctionCompiler::compile_stmt", "codegen/src/compiler/functions.rs")
    for m in synq.matches_on(cs.body):
        for h, p, g, b, arm in synq.match_table(m):
            if (h.endswith("Stmt::Break") or h.endswith("Stmt::Continue")) and "label: None" in canon(p):
                run.check("unreachable!" in canon(b), cs.site(arm["ln"]), "%s with label None is not compiled" % synq.last_seg(h), "FunctionCompiler::compile_stmt", "label-none:" + synq.last_seg(h),
                          cs.file, arm["ln"], "a jump without resolved label must not be compiled (is_safe_to_compile rejects it, C07 R07.c)")


def rules(ctx):
    return [
        Rule("R03.a", "every jump to a looked-up scope target passes the defer unwinder on every path", 2, r03a),
        Rule("R03.b", "every registered jump target has a DeferFrame with its id while its body is compiled; unwinder stop test", 4, r03b),
        Rule("R03.c", "LIFO: defers compiled reversed, frames innermost first, block's own defers in its exit block", 6, r03c),
        Rule("R03.d", "lowering: Defer marker around deferred expressions; label resolution refuses to cross it", 5, r03d),
    ]
